"""Syntax-tree normalisation applied to every module before any rule or the interpreter sees it.

Every rewrite is an exact equivalence of Python / NumPy and is a NO-OP on the tree the rules were confirmed on (none of the rewritten
spellings occurs there), so it cannot change a verdict on that tree; it exists so that behaviour-preserving maintenance edits reach
the rules in the shape the rules know:

N1  conditional expressions become if/else statements          x = A if c else B      ->  if c: x = A  else: x = B
N2  helpers that are not in sa/pinned_functions.json (introduced after the rules were written) are inlined at their call sites
    when they are same-module functions or same-class methods with structured returns (tail returns of if/else chains; any
    structure when the call itself is returned); locals are renamed apart, parameters bound by assignment
N3  equivalent spellings:  np.flatnonzero(m) -> np.where(m)[0];  x[::-1] -> np.flip(x, axis=0);
    (f(x) for x in (a, b, c)) -> (f(a), f(b), f(c))   (comprehension / generator over a literal tuple or list)
N4  unpacking of a name (not of a call):  a, b = p  ->  a = p[0]; b = p[1]   (nested patterns too)
N25 a for-loop over a literal tuple of at most four items is unrolled, the target substituted (items pure, nothing they mention rebound)
N8  pair loops over a series:  for i, (a, b) in enumerate(zip(x[:-1], x[1:]), start=c)  ->  for k in range(len(x) - 1): a = x[k]; b = x[k+1]
N9  a state vector carried through a time loop beside the zero-initialised array it is stored into is that array's previous column
N7  list comprehensions and generator expressions become explicit append loops
N6  module-level constant expressions (NAME = np.pi / (2 * 9.81), bound once) are substituted where functions load NAME
N5  row views of a freshly allocated local array:  v = X[a:]; v[:, j] = e  ->  X[a:, j] = e   (bare loads of v -> X[a:])

Inlined statements keep the helper's line numbers, so a report made on inlined code points at the helper's source line.
"""
import ast
import copy
import json
import os

_HERE = os.path.dirname(os.path.abspath(__file__))
_PINNED = None


def pinned():
    global _PINNED
    if _PINNED is None:
        try:
            with open(os.path.join(_HERE, "pinned_functions.json"), encoding="utf-8") as f:
                _PINNED = set(json.load(f))
        except OSError:
            _PINNED = set()
    return _PINNED


# ------------------------------------------------------------------------------------------------- N3 spellings
class _Spell(ast.NodeTransformer):
    # leading parameters of library calls that the pinned tree always passes by position
    _POSITIONAL = {"linspace": ("start", "stop", "num"), "interp": ("x", "xp", "fp"), "resample": ("x", "num"), "take": ("a", "indices"),
                   "insert": ("arr", "obj", "values"), "where": ("condition", "x", "y"), "polyfit": ("x", "y", "deg"), "delete": ("arr", "obj"),
                   "put": ("a", "ind", "v"), "AccSignal": ("values", "dt"), "Signal": ("values", "dt")}

    def visit_Call(self, n):
        self.generic_visit(n)
        fn = ast.unparse(n.func)
        short = fn.split(".")[-1]
        if short in self._POSITIONAL and (fn.startswith(("np.", "numpy.", "scipy.")) or fn == short or short in ("AccSignal", "Signal")) and n.keywords and \
                not any(isinstance(a, ast.Starred) for a in n.args) and not any(k.arg is None for k in n.keywords):
            names = self._POSITIONAL[short]
            kws = {k.arg: k for k in n.keywords}
            moved = False
            while len(n.args) < len(names) and names[len(n.args)] in kws:
                k = kws.pop(names[len(n.args)])
                n.args.append(k.value)
                n.keywords.remove(k)
                moved = True
        if fn in ("np.union1d", "numpy.union1d") and len(n.args) == 2 and not n.keywords:
            # numpy's own definition: unique(concatenate((ar1, ar2), axis=None))
            np_ = ast.Name(id=fn.split(".")[0], ctx=ast.Load())
            cat = ast.Call(func=ast.Attribute(value=np_, attr="concatenate", ctx=ast.Load()),
                           args=[ast.Tuple(elts=list(n.args), ctx=ast.Load())], keywords=[ast.keyword(arg="axis", value=ast.Constant(value=None))])
            return ast.copy_location(ast.Call(func=ast.Attribute(value=copy.deepcopy(np_), attr="unique", ctx=ast.Load()), args=[cat], keywords=[]), n)
        if fn in ("np.flatnonzero", "numpy.flatnonzero") and len(n.args) == 1 and not n.keywords:
            w = ast.Call(func=ast.Attribute(value=ast.Name(id=fn.split(".")[0], ctx=ast.Load()), attr="where", ctx=ast.Load()),
                         args=n.args, keywords=[])
            return ast.copy_location(ast.Subscript(value=ast.copy_location(w, n), slice=ast.Constant(value=0), ctx=ast.Load()), n)
        return n

    def _unroll(self, n, make):
        """(f(x) for x in (a, b, c)) -> (f(a), f(b), f(c)): one generator over a literal tuple/list of at most 8 elements, no filter"""
        self.generic_visit(n)
        if len(n.generators) == 1 and not n.generators[0].ifs and not n.generators[0].is_async and \
                isinstance(n.generators[0].iter, (ast.Tuple, ast.List)) and 0 < len(n.generators[0].iter.elts) <= 8 and \
                isinstance(n.generators[0].target, ast.Name) and not any(isinstance(e, ast.Starred) for e in n.generators[0].iter.elts):
            var = n.generators[0].target.id
            elts = []
            for e in n.generators[0].iter.elts:
                class S(ast.NodeTransformer):
                    def visit_Name(self_, x):
                        return copy.deepcopy(e) if (x.id == var and isinstance(x.ctx, ast.Load)) else x
                elts.append(S().visit(copy.deepcopy(n.elt)))
            return ast.copy_location(make(elts), n)
        return n

    def visit_GeneratorExp(self, n):
        return self._unroll(n, lambda e: ast.Tuple(elts=e, ctx=ast.Load()))

    def visit_ListComp(self, n):
        return self._unroll(n, lambda e: ast.List(elts=e, ctx=ast.Load()))

    def visit_Assign(self, n):
        """X[:b:-1] = V  ->  X[b + 1:] = np.flip(V, axis=0)   and   X[::-1] = V  ->  X[:] = np.flip(V, axis=0)
        (a store through a reversed view, first axis, b a name or a non-negative literal, V not a scalar literal)"""
        self.generic_visit(n)
        if len(n.targets) == 1 and isinstance(n.targets[0], ast.Subscript) and isinstance(n.targets[0].slice, ast.Slice) and \
                not isinstance(n.value, ast.Constant):
            sl = n.targets[0].slice
            if sl.lower is None and isinstance(sl.step, ast.UnaryOp) and isinstance(sl.step.op, ast.USub) and isinstance(sl.step.operand, ast.Constant) \
                    and sl.step.operand.value == 1 and (sl.upper is None or isinstance(sl.upper, ast.Name) or
                                                        (isinstance(sl.upper, ast.Constant) and isinstance(sl.upper.value, int) and sl.upper.value >= 0)):
                lower = None if sl.upper is None else ast.BinOp(left=sl.upper, op=ast.Add(), right=ast.Constant(value=1))
                tgt = ast.Subscript(value=n.targets[0].value, slice=ast.Slice(lower=lower, upper=None, step=None), ctx=ast.Store())
                val = ast.Call(func=ast.Attribute(value=ast.Name(id="np", ctx=ast.Load()), attr="flip", ctx=ast.Load()), args=[n.value],
                               keywords=[ast.keyword(arg="axis", value=ast.Constant(value=0))])
                return ast.fix_missing_locations(ast.copy_location(ast.Assign(targets=[tgt], value=val), n))
        return n

    def visit_Expr(self, n):
        """np.subtract(A, B, out=X[s])  as a statement  ->  X[s] = A - B   (likewise add, multiply, divide): what the ufunc writes"""
        v = n.value
        ops = {"subtract": ast.Sub, "add": ast.Add, "multiply": ast.Mult, "divide": ast.Div, "true_divide": ast.Div}
        if isinstance(v, ast.Call) and isinstance(v.func, ast.Attribute) and isinstance(v.func.value, ast.Name) and \
                v.func.value.id in ("np", "numpy") and v.func.attr in ops and len(v.args) == 2 and len(v.keywords) == 1 and \
                v.keywords[0].arg == "out" and isinstance(v.keywords[0].value, ast.Subscript):
            o = v.keywords[0].value
            tgt = ast.copy_location(ast.Subscript(value=o.value, slice=o.slice, ctx=ast.Store()), o)
            new = ast.Assign(targets=[tgt], value=ast.copy_location(ast.BinOp(left=v.args[0], op=ops[v.func.attr](), right=v.args[1]), v))
            return self.generic_visit(ast.fix_missing_locations(ast.copy_location(new, n)))
        return self.generic_visit(n)

    def visit_BinOp(self, n):
        """X[.., 1:, ..] - X[.., :-1, ..]  ->  np.diff(X, axis=k)   (X a name; every other axis taken whole; what np.diff computes for numbers)"""
        self.generic_visit(n)
        if not (isinstance(n.op, ast.Sub) and isinstance(n.left, ast.Subscript) and isinstance(n.right, ast.Subscript) and
                isinstance(n.left.value, ast.Name) and isinstance(n.right.value, ast.Name) and n.left.value.id == n.right.value.id):
            return n
        ls = n.left.slice.elts if isinstance(n.left.slice, ast.Tuple) else [n.left.slice]
        rs = n.right.slice.elts if isinstance(n.right.slice, ast.Tuple) else [n.right.slice]
        if len(ls) != len(rs) or not all(isinstance(x, ast.Slice) and x.step is None for x in ls + rs):
            return n

        def whole(x):
            return x.lower is None and x.upper is None

        def from1(x):
            return isinstance(x.lower, ast.Constant) and x.lower.value == 1 and x.upper is None

        def tom1(x):
            return x.lower is None and isinstance(x.upper, ast.UnaryOp) and isinstance(x.upper.op, ast.USub) and \
                isinstance(x.upper.operand, ast.Constant) and x.upper.operand.value == 1
        axes = [i for i, (a, b) in enumerate(zip(ls, rs)) if not (whole(a) and whole(b))]
        if len(axes) != 1 or not (from1(ls[axes[0]]) and tom1(rs[axes[0]])):
            return n
        c = ast.Call(func=ast.Attribute(value=ast.Name(id="np", ctx=ast.Load()), attr="diff", ctx=ast.Load()), args=[n.left.value],
                     keywords=[ast.keyword(arg="axis", value=ast.Constant(value=axes[0]))])
        return ast.copy_location(c, n)

    def visit_Subscript(self, n):
        self.generic_visit(n)
        s = n.slice
        # np.r_[a, b, ...] (no slices, no directive strings): the pieces joined along the first axis, scalars as one-element pieces
        if isinstance(n.ctx, ast.Load) and ast.unparse(n.value) in ("np.r_", "numpy.r_") and isinstance(s, ast.Tuple) and s.elts and \
                not any(isinstance(e, (ast.Slice, ast.Starred)) or (isinstance(e, ast.Constant) and isinstance(e.value, str)) for e in s.elts):
            np_ = ast.Name(id=ast.unparse(n.value).split(".")[0], ctx=ast.Load())
            pcs = []
            for e in s.elts:
                if isinstance(e, ast.Constant) and isinstance(e.value, (int, float)) and not isinstance(e.value, bool):
                    pcs.append(ast.List(elts=[e], ctx=ast.Load()))
                else:
                    pcs.append(ast.Call(func=ast.Attribute(value=copy.deepcopy(np_), attr="atleast_1d", ctx=ast.Load()), args=[e], keywords=[]))
            return ast.copy_location(ast.Call(func=ast.Attribute(value=np_, attr="concatenate", ctx=ast.Load()),
                                              args=[ast.Tuple(elts=pcs, ctx=ast.Load())], keywords=[]), n)
        # x[a:b:-1] with constants a < 0 <= b walks n+a, ..., b+1: the reverse of x[b+1:a+1]
        if isinstance(n.ctx, ast.Load) and isinstance(s, ast.Slice) and s.lower is not None and s.upper is not None and \
                isinstance(s.step, ast.UnaryOp) and isinstance(s.step.op, ast.USub) and isinstance(s.step.operand, ast.Constant) and \
                s.step.operand.value == 1 and isinstance(s.lower, ast.UnaryOp) and isinstance(s.lower.op, ast.USub) and \
                isinstance(s.lower.operand, ast.Constant) and isinstance(s.lower.operand.value, int) and s.lower.operand.value >= 1 and \
                isinstance(s.upper, ast.Constant) and isinstance(s.upper.value, int) and s.upper.value >= 0:
            a = -s.lower.operand.value
            inner = ast.Subscript(value=n.value, slice=ast.Slice(lower=ast.Constant(value=s.upper.value + 1),
                                                                 upper=(ast.UnaryOp(op=ast.USub(), operand=ast.Constant(value=-(a + 1))) if a + 1 < 0 else None),
                                                                 step=None), ctx=ast.Load())
            c = ast.Call(func=ast.Attribute(value=ast.Name(id="np", ctx=ast.Load()), attr="flip", ctx=ast.Load()), args=[inner],
                         keywords=[ast.keyword(arg="axis", value=ast.Constant(value=0))])
            return ast.copy_location(c, n)
        # x[:b:-1] with a constant b >= 0 walks n-1, ..., b+1: the reverse of x[b+1:]
        if isinstance(n.ctx, ast.Load) and isinstance(s, ast.Slice) and s.lower is None and isinstance(s.upper, ast.Constant) and \
                isinstance(s.upper.value, int) and not isinstance(s.upper.value, bool) and s.upper.value >= 0 and \
                isinstance(s.step, ast.UnaryOp) and isinstance(s.step.op, ast.USub) and isinstance(s.step.operand, ast.Constant) and \
                s.step.operand.value == 1:
            inner = ast.Subscript(value=n.value, slice=ast.Slice(lower=ast.Constant(value=s.upper.value + 1), upper=None, step=None), ctx=ast.Load())
            c = ast.Call(func=ast.Attribute(value=ast.Name(id="np", ctx=ast.Load()), attr="flip", ctx=ast.Load()), args=[inner],
                         keywords=[ast.keyword(arg="axis", value=ast.Constant(value=0))])
            return ast.copy_location(c, n)
        if isinstance(n.ctx, ast.Load) and isinstance(s, ast.Slice) and s.lower is None and s.upper is None and \
                isinstance(s.step, ast.UnaryOp) and isinstance(s.step.op, ast.USub) and isinstance(s.step.operand, ast.Constant) and \
                s.step.operand.value == 1:
            c = ast.Call(func=ast.Attribute(value=ast.Name(id="np", ctx=ast.Load()), attr="flip", ctx=ast.Load()), args=[n.value],
                         keywords=[ast.keyword(arg="axis", value=ast.Constant(value=0))])
            return ast.copy_location(c, n)
        return n


class _Getattr(ast.NodeTransformer):
    """getattr(X, 'name') -> X.name ; setattr(X, 'name', V) stays (a statement form is not needed by any twin so far)"""
    def visit_Call(self, n):
        self.generic_visit(n)
        if isinstance(n.func, ast.Name) and n.func.id == "getattr" and len(n.args) == 2 and not n.keywords and \
                isinstance(n.args[1], ast.Constant) and isinstance(n.args[1].value, str) and n.args[1].value.isidentifier():
            return ast.copy_location(ast.Attribute(value=n.args[0], attr=n.args[1].value, ctx=ast.Load()), n)
        return n


def _fold_literal_tests(stmts):
    """if 'a' == 'a': A else: B -> A   (comparisons of two literals, as left by a literal parameter): dead branches are dropped"""
    out = []
    for st in stmts:
        for fld in ("body", "orelse", "finalbody"):
            sub = getattr(st, fld, None)
            if isinstance(sub, list) and sub and isinstance(sub[0], ast.stmt) and not isinstance(st, (ast.FunctionDef, ast.ClassDef)):
                setattr(st, fld, _fold_literal_tests(sub))
        if isinstance(st, ast.If) and isinstance(st.test, ast.Compare) and len(st.test.ops) == 1 and isinstance(st.test.left, ast.Constant) and \
                isinstance(st.test.comparators[0], ast.Constant) and isinstance(st.test.ops[0], (ast.Eq, ast.NotEq, ast.Is, ast.IsNot)):
            eq = st.test.left.value == st.test.comparators[0].value and type(st.test.left.value) is type(st.test.comparators[0].value)
            take = eq if isinstance(st.test.ops[0], (ast.Eq, ast.Is)) else not eq
            out.extend(st.body if take else st.orelse)
            continue
        out.append(st)
    return out or [ast.Pass()]


def _hoist_common_prefix(fn):
    """N17  if c: P; X  else: P'; Y   with P' equal to P up to the names P' itself binds  ->  P; if c: X else: Y'
    (c a plain name that P does not bind; the names bound in P' occur nowhere outside the else branch).  Both branches run the same
    statements first whatever c is, so running them before the test is the same computation.  This is the shape the inliner leaves when
    one helper call is written once per literal option."""
    outside_cache = {}

    def names_in(nodes):
        return {x.id for n in nodes for x in ast.walk(n) if isinstance(x, ast.Name)}

    def stored_in(nodes):
        return {x.id for n in nodes for x in ast.walk(n) if isinstance(x, ast.Name) and isinstance(x.ctx, (ast.Store, ast.Del))}

    def do_block(stmts, rest_of_fn_names):
        out = []
        for k, st in enumerate(stmts):
            for fld in ("body", "orelse", "finalbody"):
                sub = getattr(st, fld, None)
                if isinstance(sub, list) and sub and isinstance(sub[0], ast.stmt) and not isinstance(st, (ast.FunctionDef, ast.ClassDef)):
                    setattr(st, fld, do_block(sub, rest_of_fn_names))
            if isinstance(st, ast.If) and isinstance(st.test, ast.Name) and len(st.body) >= 2 and len(st.orelse) >= 2:
                a, b = st.body, st.orelse
                ren = {}
                npre = 0
                for x, y in zip(a, b):
                    # names newly bound by y map onto the names x binds at the same positions
                    xs = [n.id for n in ast.walk(x) if isinstance(n, ast.Name) and isinstance(n.ctx, ast.Store)]
                    ys = [n.id for n in ast.walk(y) if isinstance(n, ast.Name) and isinstance(n.ctx, ast.Store)]
                    trial = dict(ren)
                    if len(xs) != len(ys):
                        break
                    okm = True
                    for xn, yn in zip(xs, ys):
                        if yn != xn:
                            if trial.get(yn, xn) != xn:
                                okm = False
                            trial[yn] = xn
                    if not okm:
                        break
                    y2 = _Rename(trial).visit(copy.deepcopy(y))
                    if ast.dump(y2) != ast.dump(x):
                        break
                    ren = trial
                    npre += 1
                npre = min(npre, len(a) - 1, len(b) - 1)
                if npre >= 1:
                    pre = a[:npre]
                    # conditions: the test name is not bound by the prefix; else-only names appear nowhere else in the function
                    other = [n for n in ast.walk(fn) if isinstance(n, ast.Name) and n.id in ren and not any(n is z for yb in b for z in ast.walk(yb))]
                    if st.test.id not in stored_in(pre) and not other and not any(
                            isinstance(z, (ast.Return, ast.Break, ast.Continue, ast.Raise)) for x in pre for z in ast.walk(x)):
                        st.body = a[npre:]
                        st.orelse = [_Rename(ren).visit(y) for y in b[npre:]]
                        out.extend(pre)
                        out.append(st)
                        continue
            out.append(st)
        return out
    fn.body = do_block(fn.body, None)


def _dict_attrs(tree):
    """attribute names A such that every store `<x>.A = V` in the module has V a dict display / dict(...) / {}: then <self>.A is a dict
    wherever the module's own code put it there"""
    ok, bad = set(), set()
    for n in ast.walk(tree):
        tg = []
        if isinstance(n, ast.Assign):
            tg = [(t, n.value) for t in n.targets]
        elif isinstance(n, ast.AnnAssign) and n.value is not None:
            tg = [(n.target, n.value)]
        elif isinstance(n, ast.AugAssign):
            tg = [(n.target, None)]
        for t, v in tg:
            for x in (t.elts if isinstance(t, (ast.Tuple, ast.List)) else [t]):
                if isinstance(x, ast.Attribute):
                    if v is not None and x is t and (isinstance(v, ast.Dict) or (isinstance(v, ast.Call) and isinstance(v.func, ast.Name) and
                                                                               v.func.id in ("dict", "OrderedDict"))):
                        ok.add(x.attr)
                    else:
                        bad.add(x.attr)
    return ok - bad


def _try_keyerror(fn, dict_attrs):
    """N12  try: S(D[K]) except KeyError: H [else: E]   ->   if K in D: S; E  else: H
    S one return/assignment whose whole value is D[K]; D an attribute proven to hold a dict (_dict_attrs) of a plain name; K a name or a
    literal; no finally, one handler naming exactly KeyError and not binding it.  For a dict the subscript raises KeyError exactly when
    the key is absent, and nothing else in S can raise it."""
    class T(ast.NodeTransformer):
        def visit_Try(self, n):
            self.generic_visit(n)
            if n.finalbody or len(n.handlers) != 1 or len(n.body) != 1:
                return n
            h = n.handlers[0]
            s0 = n.body[0]
            # N13  try: X = A.b  except AttributeError: H [else: E]   ->   if hasattr(A, 'b'): X = A.b; E  else: H
            if not h.name and isinstance(h.type, ast.Name) and h.type.id == "AttributeError" and isinstance(s0, (ast.Assign, ast.Return)) and \
                    isinstance(s0.value, ast.Attribute) and isinstance(s0.value.value, ast.Name) and \
                    (isinstance(s0, ast.Return) or all(isinstance(t, ast.Name) for t in s0.targets)):
                test = ast.Call(func=ast.Name(id="hasattr", ctx=ast.Load()), args=[copy.deepcopy(s0.value.value), ast.Constant(value=s0.value.attr)],
                                keywords=[])
                new = ast.If(test=test, body=[s0] + list(n.orelse), orelse=h.body)
                return ast.fix_missing_locations(ast.copy_location(new, n))
            if h.name or not (isinstance(h.type, ast.Name) and h.type.id == "KeyError"):
                return n
            v = s0.value if isinstance(s0, (ast.Return, ast.Assign)) else None
            if not (isinstance(v, ast.Subscript) and isinstance(v.value, ast.Attribute) and isinstance(v.value.value, ast.Name) and
                    v.value.attr in dict_attrs and isinstance(v.slice, (ast.Name, ast.Constant))):
                return n
            if isinstance(s0, ast.Assign) and not all(isinstance(t, ast.Name) for t in s0.targets):
                return n
            test = ast.Compare(left=copy.deepcopy(v.slice), ops=[ast.In()], comparators=[copy.deepcopy(v.value)])
            hb = h.body
            new = ast.If(test=test, body=[s0] + list(n.orelse), orelse=hb)
            return ast.fix_missing_locations(ast.copy_location(new, n))
    T().visit(fn)


# ------------------------------------------------------------------------------------------------- helpers
def _contains(node, types, stop=(ast.Lambda, ast.ListComp, ast.SetComp, ast.DictComp, ast.GeneratorExp, ast.FunctionDef, ast.ClassDef)):
    """first node of `types` inside `node`, not descending into nested scopes"""
    todo = [node]
    while todo:
        x = todo.pop(0)
        if isinstance(x, types):
            return x
        for ch in ast.iter_child_nodes(x):
            if isinstance(ch, stop) and ch is not node:
                continue
            todo.append(ch)
    return None


class _Replace(ast.NodeTransformer):
    def __init__(self, old, new):
        self.old, self.new = old, new

    def visit(self, node):
        if node is self.old:
            return self.new
        return self.generic_visit(node)


def _assign(target_nodes, value, like):
    a = ast.Assign(targets=[copy.deepcopy(t) for t in target_nodes], value=value)
    return ast.fix_missing_locations(ast.copy_location(a, like))


def _name(id_, ctx, like):
    return ast.copy_location(ast.Name(id=id_, ctx=ctx), like)


class _Ctx(object):
    def __init__(self, modname, funcs, classes, foreign=None, mod_alias=None):
        self.modname = modname
        self.funcs = funcs          # new module-level helpers: name -> FunctionDef
        self.classes = classes      # class name -> {method name -> FunctionDef} (new methods only)
        self.foreign = foreign or {}        # local name -> FunctionDef of a NEW helper imported from another module of the package
        self.mod_alias = mod_alias or {}    # local module alias -> {helper name -> FunctionDef}
        self.counter = 0
        self.caller_names = set()

    def fresh(self, stem):
        self.counter += 1
        return "%s__%d" % (stem, self.counter)


# ------------------------------------------------------------------------------------------------- N1 / N4 / N2 on statements
def _unpack(targets, value, like):
    """a, (b, c) = p  ->  a = p[0]; b = p[1][0]; c = p[1][1]"""
    out = []
    for i, t in enumerate(targets):
        v = ast.Subscript(value=copy.deepcopy(value), slice=ast.Constant(value=i), ctx=ast.Load())
        if isinstance(t, (ast.Tuple, ast.List)):
            out.extend(_unpack(t.elts, v, like))
        elif isinstance(t, ast.Starred):
            return None
        else:
            out.append(_assign([t], v, like))
    return None if any(o is None for o in out) else out


def _is_idiom(fn):
    """a function whose whole body is an idiom the interpreter recognises AT A CALL (absolute maximum): inlining it would hide the idiom"""
    try:
        from .idioms import absmax_operand
        return absmax_operand(type("F", (), {"node": fn, "params": [a.arg for a in fn.args.args]})()) is not None
    except Exception:
        return False


def _inlinable(fn):
    if _is_idiom(fn):
        return False
    a = fn.args
    if a.vararg or a.kwarg or a.kwonlyargs or a.posonlyargs or fn.decorator_list:
        return False
    for n in ast.walk(fn):
        if isinstance(n, (ast.Yield, ast.YieldFrom, ast.Global, ast.Nonlocal, ast.AsyncFunctionDef, ast.Await)):
            return False
        if isinstance(n, (ast.FunctionDef, ast.ClassDef, ast.Lambda)) and n is not fn:
            return False
        if isinstance(n, ast.Call) and isinstance(n.func, ast.Name) and n.func.id in (fn.name, "locals", "vars", "eval", "exec"):
            return False
    return True


def _returns_in_loops(stmts):
    for st in stmts:
        if isinstance(st, (ast.For, ast.While, ast.Try, ast.With)):
            if any(isinstance(x, ast.Return) for x in ast.walk(st)):
                return True
        elif isinstance(st, ast.If):
            if _returns_in_loops(st.body) or _returns_in_loops(st.orelse):
                return True
    return False


def _conv_returns(stmts, targets, like):
    """Replace `return E` by `targets = E`; statements after a returning if-branch move into the branches that fall through."""
    out = []
    for i, st in enumerate(stmts):
        if isinstance(st, ast.Return):
            val = st.value if st.value is not None else ast.Constant(value=None)
            if targets is not None:
                out.append(_assign(targets, val, st))
            elif not isinstance(val, ast.Constant):
                out.append(ast.copy_location(ast.Expr(value=val), st))
            return out, True
        if isinstance(st, ast.If) and any(isinstance(x, ast.Return) for x in ast.walk(st)):
            rest = stmts[i + 1:]
            b, bret = _conv_returns(st.body + [copy.deepcopy(x) for x in rest], targets, like)
            o, oret = _conv_returns(st.orelse + [copy.deepcopy(x) for x in rest], targets, like)
            new = ast.copy_location(ast.If(test=st.test, body=b or [ast.copy_location(ast.Pass(), st)], orelse=o), st)
            out.append(new)
            return out, bret and oret
        out.append(st)
    return out, False


def _bind_call(fn, call, is_method):
    """parameter name -> argument expression, or None when the call cannot be bound statically"""
    params = [a.arg for a in fn.args.args]
    if is_method:
        params = params[1:]
    if any(isinstance(a, ast.Starred) for a in call.args) or any(k.arg is None for k in call.keywords):
        return None
    if len(call.args) > len(params):
        return None
    b = dict(zip(params, call.args))
    for k in call.keywords:
        if k.arg not in params or k.arg in b:
            return None
        b[k.arg] = k.value
    nd = len(fn.args.defaults)
    for p, d in zip(params[len(params) - nd:] if nd else [], fn.args.defaults[-min(nd, len(params)):] if nd else []):
        b.setdefault(p, copy.deepcopy(d))
    if any(p not in b for p in params):
        return None
    return b


class _Rename(ast.NodeTransformer):
    def __init__(self, table):
        self.table = table

    def visit_Name(self, n):
        if n.id in self.table:
            return ast.copy_location(ast.Name(id=self.table[n.id], ctx=n.ctx), n)
        return n

    def visit_alias(self, n):          # local `import x as y` / `from m import x`
        local = n.asname or n.name.split(".")[0]
        if local in self.table:
            return ast.alias(name=n.name, asname=self.table[local])
        return n

    def visit_ExceptHandler(self, n):
        self.generic_visit(n)
        if n.name in self.table:
            n.name = self.table[n.name]
        return n


def _locals_of(fn):
    names = set(a.arg for a in fn.args.args)
    for n in ast.walk(fn):
        if isinstance(n, ast.Name) and isinstance(n.ctx, (ast.Store, ast.Del)):
            names.add(n.id)
        elif isinstance(n, (ast.Import, ast.ImportFrom)):
            for al in n.names:
                names.add(al.asname or al.name.split(".")[0])
        elif isinstance(n, ast.ExceptHandler) and n.name:
            names.add(n.name)
    return names


_UNDEC = {}


def _undecorated(m):
    """the same function without its @staticmethod decorator (cached: identity matters to the inliner's bookkeeping)"""
    if id(m) not in _UNDEC:
        c = copy.copy(m)
        c.decorator_list = []
        _UNDEC[id(m)] = (m, c)
    return _UNDEC[id(m)][1]


def _resolve_helper(call, ctx, cls, selfname):
    """(FunctionDef, is_method) for a call to a NEW same-module function or same-class method, else None"""
    f = call.func
    if isinstance(f, ast.Name) and f.id in ctx.funcs:
        return ctx.funcs[f.id], False
    if isinstance(f, ast.Name) and f.id in ctx.foreign:
        return ctx.foreign[f.id], False
    if isinstance(f, ast.Attribute):
        dotted = ast.unparse(f.value)
        if dotted in ctx.mod_alias and f.attr in ctx.mod_alias[dotted]:
            return ctx.mod_alias[dotted][f.attr], False
    if isinstance(f, ast.Attribute) and isinstance(f.value, ast.Name) and selfname and f.value.id == selfname and cls is not None:
        m = ctx.classes.get(cls, {}).get(f.attr)
        if m is not None and [ast.unparse(d) for d in m.decorator_list] == ["staticmethod"]:
            return _undecorated(m), False          # self.helper(...) on a static method: a plain function call
        if m is not None and not any(ast.unparse(d) in ("property", "staticmethod", "classmethod") or ast.unparse(d).endswith(".setter")
                                     for d in m.decorator_list):
            return m, True
    return None


def _cand(call, ctx, cls, selfname):
    r = _resolve_helper(call, ctx, cls, selfname)
    return r is not None and _inlinable(r[0])


def _is_cm(fn):
    """a @contextmanager generator with exactly one yield, at the top level of its body or alone in the body of a top-level try"""
    if len(fn.decorator_list) != 1 or ast.unparse(fn.decorator_list[0]).split(".")[-1] != "contextmanager":
        return False
    a = fn.args
    if a.vararg or a.kwarg or a.kwonlyargs or a.posonlyargs:
        return False
    ys = [n for n in ast.walk(fn) if isinstance(n, (ast.Yield, ast.YieldFrom))]
    if len(ys) != 1 or not isinstance(ys[0], ast.Yield):
        return False
    for n in ast.walk(fn):
        if isinstance(n, (ast.Return, ast.Global, ast.Nonlocal, ast.Lambda, ast.Await)) or (isinstance(n, (ast.FunctionDef, ast.ClassDef)) and n is not fn):
            return False
    for st in fn.body:
        if isinstance(st, ast.Expr) and st.value is ys[0]:
            return True
        if isinstance(st, ast.Try) and len(st.body) == 1 and isinstance(st.body[0], ast.Expr) and st.body[0].value is ys[0]:
            return True
    return False


def _inline(call, how, targets, ctx, cls, selfname, like, depth, with_body=None):
    r = _resolve_helper(call, ctx, cls, selfname)
    if r is None:
        return None
    fn, is_method = r
    if how == "with":
        if not _is_cm(fn):
            return None
    elif not _inlinable(fn):
        return None
    b = _bind_call(fn, call, is_method)
    if b is None:
        return None
    body = [copy.deepcopy(s) for s in fn.body]
    if body and isinstance(body[0], ast.Expr) and isinstance(body[0].value, ast.Constant) and isinstance(body[0].value.value, str):
        body = body[1:]
    if how != "return" and _returns_in_loops(body):
        return None
    suffix = ctx.fresh("__" + fn.name.strip("_"))
    # helper locals keep their names unless the caller already uses the name for something else (moved code usually keeps its names,
    # and rules that know a quantity by the name the pinned tree gives it keep working); a parameter bound to the caller's variable
    # of the same name is that variable
    same = {p for p, v in b.items() if isinstance(v, ast.Name) and v.id == p}
    table = {n: (n + suffix if (n in ctx.caller_names and n not in same) else n) for n in _locals_of(fn)}
    # `a, b = helper(...)` where the helper ends in `return a, b` (names): the helper's a, b ARE the caller's a, b
    if how == "assign" and targets is not None and len(targets) == 1:
        tnames = [t.id for t in targets[0].elts] if isinstance(targets[0], (ast.Tuple, ast.List)) and \
            all(isinstance(t, ast.Name) for t in targets[0].elts) else ([targets[0].id] if isinstance(targets[0], ast.Name) else None)
        rets = [r for r in ast.walk(fn) if isinstance(r, ast.Return)]
        rnames = set()
        for r in rets:
            v = r.value
            rnames.add(tuple(e.id for e in v.elts) if isinstance(v, ast.Tuple) and all(isinstance(e, ast.Name) for e in v.elts)
                       else ((v.id,) if isinstance(v, ast.Name) else None))
        if tnames and len(rnames) == 1 and None not in rnames:
            (rn,) = rnames
            if len(rn) == len(tnames) and len(set(rn)) == len(rn):
                loc_ = _locals_of(fn)
                for hn, cn in zip(rn, tnames):
                    if cn == hn or cn not in loc_:
                        table[hn] = cn
    if is_method:
        table[fn.args.args[0].arg] = selfname
    ctx.caller_names |= set(table.values())
    body = [_Rename(table).visit(s) for s in body]
    # a parameter bound to a string literal and never rebound in the helper IS that literal (keys, attribute names, option switches)
    stored = {n.id for s_ in body for n in ast.walk(s_) if isinstance(n, ast.Name) and isinstance(n.ctx, (ast.Store, ast.Del))}
    lits = {table[p]: v for p, v in b.items() if isinstance(v, ast.Constant) and isinstance(v.value, str) and table[p] not in stored}
    if lits:
        class _Lit(ast.NodeTransformer):
            def visit_Name(self, n):
                if n.id in lits and isinstance(n.ctx, ast.Load):
                    return ast.copy_location(ast.Constant(value=lits[n.id].value), n)
                return n
        body = [_Getattr().visit(_Lit().visit(s_)) for s_ in body]
        body = _fold_literal_tests(body)
        same = same | {p for p in b if table[p] in lits}
    # a parameter bound to a plain variable of the caller and never rebound in the helper IS that variable, provided nothing in the
    # (renamed) helper body stores to the caller's variable either
    direct = {table[p]: v.id for p, v in b.items() if p not in same and isinstance(v, ast.Name) and table[p] not in stored and v.id not in stored}
    if direct:
        body = [_Rename(direct).visit(s_) for s_ in body]
        same = same | {p for p in b if table[p] in direct}
    binds = [_assign([_name(table[p], ast.Store(), like)], copy.deepcopy(v), like) for p, v in b.items() if p not in same]
    if how == "with":
        # N20  with cm(args) as x: BODY   ->   <cm before its yield>; x = <yielded>; BODY; <cm after its yield>
        # (a try around the yield goes around `x = ...; BODY`): what contextlib.contextmanager runs, on the normal and the raising path
        k = [i for i, st in enumerate(body) if any(isinstance(n, ast.Yield) for n in ast.walk(st))][0]
        y = body[k]
        ynode = y.value if isinstance(y, ast.Expr) else y.body[0].value
        first = []
        if targets is not None and ynode.value is not None:
            first = [_assign([targets], ynode.value, like)]
        elif ynode.value is not None and not isinstance(ynode.value, (ast.Name, ast.Constant, ast.Attribute)):
            first = [ast.copy_location(ast.Expr(value=ynode.value), like)]
        if isinstance(y, ast.Expr):
            mid = first + list(with_body)
        else:
            y.body = first + list(with_body)
            mid = [y]
        stmts = binds + body[:k] + mid + body[k + 1:]
        stmts = [ast.fix_missing_locations(s_) for s_ in stmts]
        return _block(stmts, ctx, cls, selfname, depth + 1)
    if how == "return":
        stmts = binds + body
        if not (body and isinstance(body[-1], ast.Return)):
            stmts.append(ast.copy_location(ast.Return(value=ast.Constant(value=None)), like))
    else:
        conv, always = _conv_returns(body, targets, like)
        stmts = binds + conv
        # a helper that falls off its end in value position yields None; no rule depends on that value
    stmts = [ast.fix_missing_locations(s) for s in stmts if s is not None]
    return _block(stmts, ctx, cls, selfname, depth + 1)


def _stmt(st, ctx, cls, selfname, depth):
    """-> list of statements"""
    # nested blocks first
    for fld in ("body", "orelse", "finalbody"):
        sub = getattr(st, fld, None)
        if isinstance(sub, list) and sub and isinstance(sub[0], ast.stmt) and not isinstance(st, (ast.FunctionDef, ast.ClassDef)):
            setattr(st, fld, _block(sub, ctx, cls, selfname, depth))
    for h in getattr(st, "handlers", []) or []:
        h.body = _block(h.body, ctx, cls, selfname, depth)
    if isinstance(st, (ast.FunctionDef, ast.ClassDef)):
        return [st]
    if isinstance(st, ast.With) and len(st.items) == 1 and isinstance(st.items[0].context_expr, ast.Call) and depth < 4 and \
            (ctx.funcs or ctx.classes or ctx.foreign or ctx.mod_alias) and \
            (st.items[0].optional_vars is None or isinstance(st.items[0].optional_vars, ast.Name)):
        got = _inline(st.items[0].context_expr, "with", st.items[0].optional_vars, ctx, cls, selfname, st, depth, with_body=st.body)
        if got is not None:
            return got
    simple = isinstance(st, (ast.Assign, ast.AugAssign, ast.AnnAssign, ast.Expr, ast.Return))
    header = st if simple else (getattr(st, "test", None) if isinstance(st, ast.If) else (getattr(st, "iter", None) if isinstance(st, ast.For) else None))
    if header is None:
        return [st]
    # N4 unpacking of a non-call value
    if isinstance(st, ast.Assign) and len(st.targets) == 1 and isinstance(st.targets[0], (ast.Tuple, ast.List)) and \
            isinstance(st.value, (ast.Name, ast.Attribute, ast.Subscript)):
        un = _unpack(st.targets[0].elts, st.value, st)
        if un is not None:
            return _block(un, ctx, cls, selfname, depth)
    # N7 list comprehensions / generator expressions become explicit loops:  x = [E for v in IT if C]  ->  x = []; for v in IT: if C: x.append(E)
    comp = _contains(header, (ast.ListComp, ast.GeneratorExp), stop=(ast.Lambda, ast.SetComp, ast.DictComp, ast.FunctionDef, ast.ClassDef))
    if comp is not None and not any(g.is_async for g in comp.generators):
        direct = isinstance(st, ast.Assign) and st.value is comp and len(st.targets) == 1 and isinstance(st.targets[0], ast.Name) and \
            isinstance(comp, ast.ListComp)
        lname = st.targets[0].id if direct else ctx.fresh("_comp")
        init = _assign([_name(lname, ast.Store(), st)], ast.List(elts=[], ctx=ast.Load()), st)
        body = [ast.copy_location(ast.Expr(value=ast.Call(func=ast.Attribute(value=_name(lname, ast.Load(), st), attr="append", ctx=ast.Load()),
                                                         args=[comp.elt], keywords=[])), st)]
        for g in reversed(comp.generators):
            for c_ in reversed(g.ifs):
                body = [ast.copy_location(ast.If(test=c_, body=body, orelse=[]), st)]
            body = [ast.copy_location(ast.For(target=g.target, iter=g.iter, body=body, orelse=[]), st)]
        pre = [ast.fix_missing_locations(init)] + [ast.fix_missing_locations(b) for b in body]
        out_ = []
        for x in pre:
            out_.extend(_stmt(x, ctx, cls, selfname, depth))
        if direct:
            return out_
        st2 = ast.fix_missing_locations(_Replace(comp, _name(lname, ast.Load(), comp)).visit(st))
        return out_ + _stmt(st2, ctx, cls, selfname, depth)
    # N4b parallel assignment of independent values: a, b = x, y -> a = x; b = y (no target occurs in any value)
    if isinstance(st, ast.Assign) and len(st.targets) == 1 and isinstance(st.targets[0], (ast.Tuple, ast.List)) and \
            isinstance(st.value, (ast.Tuple, ast.List)) and len(st.targets[0].elts) == len(st.value.elts) and \
            not any(isinstance(e, ast.Starred) for e in list(st.targets[0].elts) + list(st.value.elts)):
        pairs = [(t, v) for t, v in zip(st.targets[0].elts, st.value.elts)
                 if not (isinstance(t, ast.Name) and isinstance(v, ast.Name) and t.id == v.id)]        # x = x says nothing
        tn = {x.id for t, _ in pairs for x in ast.walk(t) if isinstance(x, ast.Name)}
        vn = {x.id for _, v in pairs for x in ast.walk(v) if isinstance(x, ast.Name)}
        simple_t = all(isinstance(t, ast.Name) or (isinstance(t, ast.Attribute) and isinstance(t.value, ast.Name)) for t, _ in pairs) and \
            len({ast.unparse(t) for t, _ in pairs}) == len(pairs)          # names, or attributes of an object no value mentions
        if not (tn & vn) and simple_t:
            if not pairs:
                return [ast.copy_location(ast.Pass(), st)]
            return _block([_assign([t], v, st) for t, v in pairs], ctx, cls, selfname, depth)
    if isinstance(st, ast.Assign) and len(st.targets) == 1 and isinstance(st.targets[0], ast.Name) and isinstance(st.value, ast.Name) and \
            st.targets[0].id == st.value.id:
        return [ast.copy_location(ast.Pass(), st)]
    # N1 conditional expressions
    ie = _contains(header, ast.IfExp)
    if ie is not None:
        if isinstance(st, ast.Assign) and st.value is ie:
            new = ast.If(test=ie.test, body=[_assign(st.targets, ie.body, st)], orelse=[_assign(st.targets, ie.orelse, st)])
            return _stmt(ast.fix_missing_locations(ast.copy_location(new, st)), ctx, cls, selfname, depth)
        if isinstance(st, ast.Return) and st.value is ie:
            new = ast.If(test=ie.test, body=[ast.copy_location(ast.Return(value=ie.body), st)],
                         orelse=[ast.copy_location(ast.Return(value=ie.orelse), st)])
            return _stmt(ast.fix_missing_locations(ast.copy_location(new, st)), ctx, cls, selfname, depth)
        # a switch between two literals, decided by a plain name, inside a simple statement (typically an option handed to a call):
        # the statement is written once per literal -- `f(x, mode='a' if flag else 'b')` -> if flag: f(x, mode='a') else: f(x, mode='b').
        # Reading a name has no effect, so evaluating it first changes nothing.
        if isinstance(ie.test, ast.Name) and isinstance(ie.body, ast.Constant) and isinstance(ie.orelse, ast.Constant) and \
                isinstance(st, (ast.Assign, ast.Expr, ast.Return, ast.AugAssign)):
            a_ = copy.deepcopy(st)
            b_ = copy.deepcopy(st)
            # locate the copied IfExp by position in a walk (deepcopy preserves order)
            idx_ = [k for k, x in enumerate(ast.walk(st)) if x is ie][0]
            ia = list(ast.walk(a_))[idx_]
            ib = list(ast.walk(b_))[idx_]
            a_ = _Replace(ia, ast.copy_location(ast.Constant(value=ie.body.value), ie)).visit(a_)
            b_ = _Replace(ib, ast.copy_location(ast.Constant(value=ie.orelse.value), ie)).visit(b_)
            new = ast.If(test=ie.test, body=[a_], orelse=[b_])
            return _stmt(ast.fix_missing_locations(ast.copy_location(new, st)), ctx, cls, selfname, depth)
        tmp = ctx.fresh("_ifx")
        pre = ast.If(test=ie.test, body=[_assign([_name(tmp, ast.Store(), st)], ie.body, st)],
                     orelse=[_assign([_name(tmp, ast.Store(), st)], ie.orelse, st)])
        pre = ast.fix_missing_locations(ast.copy_location(pre, st))
        st2 = _Replace(ie, _name(tmp, ast.Load(), ie)).visit(st)
        return _stmt(pre, ctx, cls, selfname, depth) + _stmt(ast.fix_missing_locations(st2), ctx, cls, selfname, depth)
    # N2 new helpers
    if depth < 4 and (ctx.funcs or ctx.classes or ctx.foreign or ctx.mod_alias):
        call = None
        todo = [header]
        while todo and call is None:
            x = todo.pop(0)
            if isinstance(x, ast.Call) and _cand(x, ctx, cls, selfname):
                # innermost-first: arguments may themselves hold helper calls
                inner = None
                for ch in list(x.args) + [k.value for k in x.keywords]:
                    c2 = _contains(ch, ast.Call)
                    while c2 is not None and not _cand(c2, ctx, cls, selfname):
                        c2 = None
                    if c2 is not None:
                        inner = c2
                        break
                call = inner or x
                break
            for ch in ast.iter_child_nodes(x):
                if not isinstance(ch, (ast.Lambda, ast.ListComp, ast.SetComp, ast.DictComp, ast.GeneratorExp)):
                    todo.append(ch)
        if call is not None:
            if isinstance(st, ast.Return) and st.value is call:
                got = _inline(call, "return", None, ctx, cls, selfname, st, depth)
                if got is not None:
                    return got
            elif isinstance(st, ast.Assign) and st.value is call:
                got = _inline(call, "assign", st.targets, ctx, cls, selfname, st, depth)
                if got is not None:
                    return got
            elif isinstance(st, ast.Expr) and st.value is call:
                got = _inline(call, "expr", None, ctx, cls, selfname, st, depth)
                if got is not None:
                    return got
            else:
                tmp = ctx.fresh("_call")
                got = _inline(call, "assign", [_name(tmp, ast.Store(), st)], ctx, cls, selfname, st, depth)
                if got is not None:
                    st2 = ast.fix_missing_locations(_Replace(call, _name(tmp, ast.Load(), call)).visit(st))
                    return got + _stmt(st2, ctx, cls, selfname, depth)
    return [st]


def _block(stmts, ctx, cls, selfname, depth=0):
    out = []
    for st in stmts:
        out.extend(_stmt(st, ctx, cls, selfname, depth))
    return out or [ast.Pass()]


# ------------------------------------------------------------------------------------------------- N5 views of a local array
def _unroll_literal_loops(fn):
    """N25  for T in (item1, .., itemk):  BODY     (k <= 4 literal items; T a name or a flat tuple of names matching tuple items)
         ->  BODY[T := item1]; ..; BODY[T := itemk]
    when the items are built from names, numbers and subscripts only, BODY rebinds neither T nor any name the items mention, has no
    else clause and no break / continue of this loop: each copy of BODY evaluates exactly what the loop's iteration evaluates."""
    def pure(e):
        return all(isinstance(n, (ast.Name, ast.Constant, ast.Subscript, ast.Slice, ast.UnaryOp, ast.BinOp, ast.Tuple, ast.Load, ast.operator,
                                  ast.unaryop, ast.Attribute)) for n in ast.walk(e))

    def own_jumps(body):
        out = []

        def walk(stmts):
            for st in stmts:
                if isinstance(st, (ast.Break, ast.Continue)):
                    out.append(st)
                elif isinstance(st, (ast.For, ast.While)):
                    walk(st.orelse)
                elif isinstance(st, (ast.FunctionDef, ast.ClassDef)):
                    continue
                else:
                    for f in ("body", "orelse", "finalbody"):
                        walk(getattr(st, f, []) or [])
                    for h in getattr(st, "handlers", []) or []:
                        walk(h.body)
        walk(body)
        return out

    class U(ast.NodeTransformer):
        def visit_For(self, lp):
            self.generic_visit(lp)
            it = lp.iter
            if not isinstance(it, (ast.Tuple, ast.List)) or not (1 <= len(it.elts) <= 4) or lp.orelse or own_jumps(lp.body):
                return lp
            if isinstance(lp.target, ast.Name):
                tnames = [lp.target.id]
            elif isinstance(lp.target, ast.Tuple) and all(isinstance(x, ast.Name) for x in lp.target.elts):
                tnames = [x.id for x in lp.target.elts]
                if not all(isinstance(e, ast.Tuple) and len(e.elts) == len(tnames) for e in it.elts):
                    return lp
            else:
                return lp
            if not all(pure(e) for e in it.elts):
                return lp
            mentioned = {n.id for e in it.elts for n in ast.walk(e) if isinstance(n, ast.Name)}
            stored = {n.id for st in lp.body for n in ast.walk(st) if isinstance(n, ast.Name) and isinstance(n.ctx, (ast.Store, ast.Del))}
            if stored & (mentioned | set(tnames)) or any(isinstance(n, (ast.FunctionDef, ast.Lambda)) for st in lp.body for n in ast.walk(st)):
                return lp
            inside = {id(n) for n in ast.walk(lp)}
            if any(isinstance(n, ast.Name) and n.id in tnames and id(n) not in inside for n in ast.walk(fn)):
                return lp          # the loop variable is used after the loop (it stays bound to the last item)
            out = []
            for e in it.elts:
                m = {tnames[0]: e} if isinstance(lp.target, ast.Name) else dict(zip(tnames, e.elts))

                class S(ast.NodeTransformer):
                    def visit_Name(self_, x):
                        return copy.deepcopy(m[x.id]) if (isinstance(x.ctx, ast.Load) and x.id in m) else x
                for st in lp.body:
                    out.append(ast.fix_missing_locations(S().visit(copy.deepcopy(st))))
            return out
    U().visit(fn)


def _views(fn):
    """v = X[a:b] (X a local array name bound once, v bound once, basic slice => a view): uses v[:, e] become X[a:b, e] and bare loads of
    v become X[a:b]; stores through the view are stores into X, which is what they are."""
    counts = {}
    for n in ast.walk(fn):
        if isinstance(n, ast.Name) and isinstance(n.ctx, (ast.Store, ast.Del)):
            counts[n.id] = counts.get(n.id, 0) + 1
        elif isinstance(n, ast.arg):
            counts[n.arg] = counts.get(n.arg, 0) + 1
    views = {}
    for st in fn.body:
        if isinstance(st, ast.Assign) and len(st.targets) == 1 and isinstance(st.targets[0], ast.Name) and \
                isinstance(st.value, ast.Subscript) and isinstance(st.value.value, ast.Name) and isinstance(st.value.slice, ast.Slice):
            v, x = st.targets[0].id, st.value.value.id
            if v != x and counts.get(v) == 1 and counts.get(x) == 1 and x not in views and st.value.slice.step is None:
                # x must hold a freshly allocated array (np.zeros / np.empty / ...): a view of a parameter is not rewritten
                alloc = [a for a in fn.body if isinstance(a, ast.Assign) and len(a.targets) == 1 and isinstance(a.targets[0], ast.Name) and
                         a.targets[0].id == x and isinstance(a.value, ast.Call) and
                         ast.unparse(a.value.func) in ("np.zeros", "np.empty", "np.ones", "np.zeros_like", "np.empty_like", "np.ones_like", "np.full")]
                if alloc:
                    views[v] = (st, st.value)
    if not views:
        return

    class V(ast.NodeTransformer):
        def visit_Subscript(self, n):
            if isinstance(n.value, ast.Name) and n.value.id in views:
                base = views[n.value.id][1]
                comps = list(n.slice.elts) if isinstance(n.slice, ast.Tuple) else [n.slice]
                first = comps[0]
                if isinstance(first, ast.Slice) and first.lower is None and first.upper is None and first.step is None:
                    new = ast.Subscript(value=ast.Name(id=base.value.id, ctx=ast.Load()),
                                        slice=ast.Tuple(elts=[copy.deepcopy(base.slice)] + [self.visit(c) for c in comps[1:]], ctx=ast.Load())
                                        if len(comps) > 1 else copy.deepcopy(base.slice), ctx=n.ctx)
                    return ast.copy_location(new, n)
                return n            # any other indexing of the view is left alone (and the view's definition stays)
            self.generic_visit(n)
            return n

        def visit_Name(self, n):
            if n.id in views and isinstance(n.ctx, ast.Load):
                b = copy.deepcopy(views[n.id][1])
                return ast.copy_location(b, n)
            return n
    keep = [views[v][0] for v in views]
    for i, st in enumerate(fn.body):
        if any(st is k for k in keep):
            continue
        fn.body[i] = ast.fix_missing_locations(V().visit(st))


# ------------------------------------------------------------------------------------------------- N6 module-level constant expressions
def _module_constants(tree):
    """NAME = <arithmetic of literals and pi> at module level, bound once and never re-bound in a function: loads of NAME inside
    functions are replaced by the expression; a name bound once to a plain number is replaced by the number."""
    consts, counts = {}, {}
    for st in tree.body:
        for n in ast.walk(st) if not isinstance(st, (ast.FunctionDef, ast.ClassDef)) else []:
            if isinstance(n, ast.Name) and isinstance(n.ctx, ast.Store):
                counts[n.id] = counts.get(n.id, 0) + 1
    for st in tree.body:
        if isinstance(st, ast.Assign) and len(st.targets) == 1 and isinstance(st.targets[0], ast.Name) and counts.get(st.targets[0].id) == 1 \
                and isinstance(st.value, ast.Constant) and type(st.value.value) in (int, float, str) and \
                not st.targets[0].id.startswith("__"):
            consts[st.targets[0].id] = st.value          # a named number or format string (MIN_STEPS = 6) is that literal
        elif isinstance(st, ast.Assign) and len(st.targets) == 1 and isinstance(st.targets[0], ast.Name) and counts.get(st.targets[0].id) == 1 \
                and isinstance(st.value, ast.Tuple) and st.value.elts and not st.targets[0].id.startswith("__") and \
                all(isinstance(e, ast.Constant) and type(e.value) in (int, float, str) for e in st.value.elts):
            consts[st.targets[0].id] = st.value          # a named tuple of literals (immutable) is that tuple
        elif isinstance(st, ast.Assign) and len(st.targets) == 1 and isinstance(st.targets[0], ast.Name) and counts.get(st.targets[0].id) == 1 \
                and not isinstance(st.value, ast.Constant):
            ok = True
            for n in ast.walk(st.value):
                if isinstance(n, (ast.BinOp, ast.UnaryOp, ast.Constant, ast.operator, ast.unaryop, ast.Load)):
                    continue
                if isinstance(n, ast.Attribute) and ast.unparse(n) in ("np.pi", "numpy.pi", "math.pi", "np.e", "math.e"):
                    continue
                if isinstance(n, ast.Name) and n.id in ("np", "numpy", "math"):
                    continue
                ok = False
                break
            if ok and any(isinstance(n, (ast.BinOp, ast.Attribute)) for n in ast.walk(st.value)):
                consts[st.targets[0].id] = st.value
    if not consts:
        return

    class R(ast.NodeTransformer):
        def visit_Name(self, n):
            if isinstance(n.ctx, ast.Load) and n.id in consts:
                return ast.copy_location(copy.deepcopy(consts[n.id]), n)
            return n
    for st in ast.walk(tree):
        if isinstance(st, ast.FunctionDef):
            stored = {x.id for x in ast.walk(st) if isinstance(x, ast.Name) and isinstance(x.ctx, ast.Store)} | {a.arg for a in st.args.args}
            if stored & set(consts):
                continue
            st.body = [ast.fix_missing_locations(R().visit(x)) for x in st.body]


def _free_globals(fn):
    loc = _locals_of(fn)
    return {n.id for n in ast.walk(fn) if isinstance(n, ast.Name) and isinstance(n.ctx, ast.Load) and n.id not in loc} - set(dir(__builtins__)) - \
        set(__builtins__.keys() if isinstance(__builtins__, dict) else ())


# ------------------------------------------------------------------------------------------------- N8 / N9 time loops
def _pair_loops(fn, ctx):
    """N8  for I, (A, B) in enumerate(zip(X[:-1], X[1:]), start=c)   ->   for k in range(len(X) - 1): A = X[k]; B = X[k + 1]   with I := k + c
        (also without enumerate: for A, B in zip(X[:-1], X[1:]))"""
    class T(ast.NodeTransformer):
        def visit_For(self, n):
            self.generic_visit(n)
            it, tgt = n.iter, n.target
            start, idx = 0, None
            if isinstance(it, ast.Call) and ast.unparse(it.func) == "enumerate" and it.args and isinstance(tgt, ast.Tuple) and len(tgt.elts) == 2 \
                    and isinstance(tgt.elts[0], ast.Name):
                sv = it.args[1] if len(it.args) > 1 else next((k.value for k in it.keywords if k.arg == "start"), None)
                if sv is not None:
                    if not (isinstance(sv, ast.Constant) and isinstance(sv.value, int)):
                        return n
                    start = sv.value
                idx, it, tgt = tgt.elts[0].id, it.args[0], tgt.elts[1]
            if not (isinstance(it, ast.Call) and ast.unparse(it.func) == "zip" and len(it.args) == 2 and isinstance(tgt, ast.Tuple) and
                    len(tgt.elts) == 2 and all(isinstance(e, ast.Name) for e in tgt.elts)):
                return n
            a0, a1 = it.args

            def sl(e, lo, up):
                return isinstance(e, ast.Subscript) and isinstance(e.value, ast.Name) and isinstance(e.slice, ast.Slice) and e.slice.step is None and \
                    ((e.slice.lower is None) if lo is None else (isinstance(e.slice.lower, ast.Constant) and e.slice.lower.value == lo)) and \
                    ((e.slice.upper is None) if up is None else (isinstance(e.slice.upper, ast.UnaryOp) and isinstance(e.slice.upper.op, ast.USub) and
                                                                 isinstance(e.slice.upper.operand, ast.Constant) and e.slice.upper.operand.value == -up))
            if not (sl(a0, None, -1) and sl(a1, 1, None) and a0.value.id == a1.value.id):
                return n
            X = a0.value.id
            k = ctx.fresh("_k")
            kload = lambda: ast.Name(id=k, ctx=ast.Load())
            pre = [_assign([tgt.elts[0]], ast.Subscript(value=ast.Name(id=X, ctx=ast.Load()), slice=kload(), ctx=ast.Load()), n),
                   _assign([tgt.elts[1]], ast.Subscript(value=ast.Name(id=X, ctx=ast.Load()),
                                                        slice=ast.BinOp(left=kload(), op=ast.Add(), right=ast.Constant(value=1)), ctx=ast.Load()), n)]
            body = n.body
            if idx is not None:
                class S(ast.NodeTransformer):
                    def visit_Name(self_, x):
                        if x.id == idx and isinstance(x.ctx, ast.Load):
                            return kload() if start == 0 else ast.BinOp(left=kload(), op=ast.Add(), right=ast.Constant(value=start))
                        return x
                body = [S().visit(b) for b in body]
            rng = ast.Call(func=ast.Name(id="range", ctx=ast.Load()),
                           args=[ast.BinOp(left=ast.Call(func=ast.Name(id="len", ctx=ast.Load()), args=[ast.Name(id=X, ctx=ast.Load())], keywords=[]),
                                           op=ast.Sub(), right=ast.Constant(value=1))], keywords=[])
            new = ast.For(target=ast.Name(id=k, ctx=ast.Store()), iter=rng, body=pre + body, orelse=n.orelse)
            return ast.fix_missing_locations(ast.copy_location(new, n))
    fn.body = [T().visit(st) for st in fn.body]


def _carried_state(fn):
    """N9  a state vector carried through a time loop next to the array it is stored into:
            c = np.zeros(..)                               (S = np.zeros(..) as well, column 0 never stored)
            for k in range(..):  E = f(c, ..);  S[rows, k + 1] = E;  c = E
        the loads of c in the body are S[rows, k]: that is what c holds at the top of every iteration."""
    zeros = {}
    for st in fn.body:
        if isinstance(st, ast.Assign) and len(st.targets) == 1 and isinstance(st.targets[0], ast.Name) and isinstance(st.value, ast.Call) and \
                ast.unparse(st.value.func) in ("np.zeros", "numpy.zeros", "np.zeros_like", "numpy.zeros_like"):
            zeros[st.targets[0].id] = st
    for lp in [st for st in fn.body if isinstance(st, ast.For) and isinstance(st.target, ast.Name)]:
        k = lp.target.id
        # N26  the same march written from 1:  for k in range(1, N): E = f(c, x[k - 1], x[k]); S[rows, k] = E; c = E   is, with k -> k + 1,
        #      for k in range(N - 1): E = f(c, x[k], x[k + 1]); S[rows, k + 1] = E; c = E      (an index shift: exact)
        it = lp.iter
        if isinstance(it, ast.Call) and ast.unparse(it.func) == "range" and len(it.args) == 2 and not it.keywords and \
                isinstance(it.args[0], ast.Constant) and it.args[0].value == 1 and not isinstance(it.args[0].value, bool):
            plain_store = any(isinstance(st, ast.Assign) and len(st.targets) == 1 and isinstance(st.targets[0], ast.Subscript) and
                              isinstance(st.value, ast.Name) and isinstance(st.targets[0].slice, ast.Tuple) and len(st.targets[0].slice.elts) == 2 and
                              isinstance(st.targets[0].slice.elts[1], ast.Name) and st.targets[0].slice.elts[1].id == k for st in lp.body)
            carried = any(isinstance(st, ast.Assign) and len(st.targets) == 1 and isinstance(st.targets[0], ast.Name) and
                          st.targets[0].id in zeros and isinstance(st.value, ast.Name) for st in lp.body)
            rebinds_k = any(isinstance(n, ast.Name) and n.id == k and isinstance(n.ctx, ast.Store) for st in lp.body for n in ast.walk(st))
            if plain_store and carried and not rebinds_k:
                class Shift(ast.NodeTransformer):
                    def visit_BinOp(self_, x):
                        if isinstance(x.op, ast.Sub) and isinstance(x.left, ast.Name) and x.left.id == k and isinstance(x.right, ast.Constant) and \
                                x.right.value == 1 and not isinstance(x.right.value, bool):
                            return ast.copy_location(ast.Name(id=k, ctx=ast.Load()), x)               # (k + 1) - 1
                        return self_.generic_visit(x)

                    def visit_Name(self_, x):
                        if x.id == k and isinstance(x.ctx, ast.Load):
                            return ast.copy_location(ast.BinOp(left=ast.Name(id=k, ctx=ast.Load()), op=ast.Add(), right=ast.Constant(value=1)), x)
                        return x
                lp.body = [ast.fix_missing_locations(Shift().visit(st)) for st in lp.body]
                lp.iter = ast.copy_location(ast.Call(func=it.func, args=[ast.BinOp(left=it.args[1], op=ast.Sub(), right=ast.Constant(value=1))], keywords=[]), it)
                ast.fix_missing_locations(lp)
        stores = {}
        for st in lp.body:
            if isinstance(st, ast.Assign) and len(st.targets) == 1 and isinstance(st.targets[0], ast.Subscript) and isinstance(st.value, ast.Name) and \
                    isinstance(st.targets[0].value, ast.Name) and st.targets[0].value.id in zeros and isinstance(st.targets[0].slice, ast.Tuple) and \
                    len(st.targets[0].slice.elts) == 2:
                col = st.targets[0].slice.elts[1]
                if isinstance(col, ast.BinOp) and isinstance(col.op, ast.Add) and (
                        (isinstance(col.left, ast.Name) and col.left.id == k and isinstance(col.right, ast.Constant) and col.right.value == 1) or
                        (isinstance(col.right, ast.Name) and col.right.id == k and isinstance(col.left, ast.Constant) and col.left.value == 1)):
                    stores[st.value.id] = st.targets[0]
        for pos, st in enumerate(lp.body):
            if isinstance(st, ast.Assign) and len(st.targets) == 1 and isinstance(st.targets[0], ast.Name) and isinstance(st.value, ast.Name) and \
                    st.value.id in stores and st.targets[0].id in zeros and st.targets[0].id != stores[st.value.id].value.id:
                c, tgt = st.targets[0].id, stores[st.value.id]
                prev = ast.Subscript(value=ast.Name(id=tgt.value.id, ctx=ast.Load()),
                                     slice=ast.Tuple(elts=[copy.deepcopy(tgt.slice.elts[0]), ast.Name(id=k, ctx=ast.Load())], ctx=ast.Load()), ctx=ast.Load())

                class S(ast.NodeTransformer):
                    def visit_Name(self_, x):
                        return copy.deepcopy(prev) if (x.id == c and isinstance(x.ctx, ast.Load)) else x
                for j in range(pos):
                    lp.body[j] = ast.fix_missing_locations(S().visit(lp.body[j]))
                lp.body[pos] = ast.copy_location(ast.Pass(), st)


def normalise_program(modules):
    """modules: name -> ModuleInfo (parsed, imports collected).  New helpers of another module are inlined where every global the helper
    uses (np, another import) denotes the same thing in the caller's module."""
    if os.environ.get("VERIF_NO_NORMALISE") == "1":
        return
    pin = pinned()
    new_by_mod = {}
    for name, mod in modules.items():
        for n in mod.tree.body:
            if isinstance(n, ast.FunctionDef) and (name + "." + n.name) not in pin:
                new_by_mod.setdefault(name, {})[n.name] = n
    for name, mod in modules.items():
        foreign, alias = {}, {}

        def usable(fn, src):
            for g in _free_globals(fn):
                a, b = modules[src].imports.get(g), mod.imports.get(g)
                if a is None or a != b:
                    return False
            return True
        for local, imp in mod.imports.items():
            if imp[0] == "from" and imp[1] in new_by_mod and imp[2] in new_by_mod[imp[1]] and imp[1] != name:
                fn = new_by_mod[imp[1]][imp[2]]
                if usable(fn, imp[1]):
                    foreign[local] = fn
            elif imp[0] == "from" and (imp[1] + "." + imp[2]) in new_by_mod and (imp[1] + "." + imp[2]) != name:
                src = imp[1] + "." + imp[2]
                alias[local] = {k: v for k, v in new_by_mod[src].items() if usable(v, src)}
            elif imp[0] == "module" and imp[1] in new_by_mod and imp[1] != name:
                alias[local] = {k: v for k, v in new_by_mod[imp[1]].items() if usable(v, imp[1])}
        # `import eqsig` style access: eqsig.fns.generic._helper(...)
        for src, fns in new_by_mod.items():
            if src != name:
                ok = {k: v for k, v in fns.items() if usable(v, src)}
                if ok:
                    alias.setdefault(src, ok)
        mod.tree = normalise_module(mod.tree, name, foreign=foreign, mod_alias=alias)


def _property_objects(tree):
    """N10  in a class body,  X = property(G, S)  (G, S methods of that class)  ->  @property def X(self): return self.G()  and
    @X.setter def X(self, value): self.S(value)   -- what the descriptor does"""
    for c in tree.body:
        if not isinstance(c, ast.ClassDef):
            continue
        meths = {m.name: m for m in c.body if isinstance(m, ast.FunctionDef)}
        new = []
        for st in c.body:
            if isinstance(st, ast.Assign) and len(st.targets) == 1 and isinstance(st.targets[0], ast.Name) and isinstance(st.value, ast.Call) \
                    and ast.unparse(st.value.func) == "property" and not any(k.arg not in ("fget", "fset", "doc") for k in st.value.keywords) \
                    and len(st.value.args) <= 2:
                kw = {k.arg: k.value for k in st.value.keywords}
                g = st.value.args[0] if st.value.args else kw.get("fget")
                sset = st.value.args[1] if len(st.value.args) > 1 else kw.get("fset")
                if isinstance(g, ast.Name) and g.id in meths and (sset is None or (isinstance(sset, ast.Name) and sset.id in meths)) and \
                        not (isinstance(sset, ast.Constant) and sset.value is not None):
                    x = st.targets[0].id
                    src = "@property\ndef %s(self):\n    return self.%s()\n" % (x, g.id)
                    if isinstance(sset, ast.Name):
                        src += "@%s.setter\ndef %s(self, value):\n    self.%s(value)\n" % (x, x, sset.id)
                    for d in ast.parse(src).body:
                        for n in ast.walk(d):
                            if hasattr(n, "lineno"):
                                n.lineno = n.end_lineno = st.lineno
                                n.col_offset = n.end_col_offset = st.col_offset
                        new.append(d)
                    continue
            new.append(st)
        c.body = new


class _Setattr(ast.NodeTransformer):
    """setattr(X, 'name', V) as a statement -> X.name = V"""
    def visit_Expr(self, n):
        v = n.value
        if isinstance(v, ast.Call) and isinstance(v.func, ast.Name) and v.func.id == "setattr" and len(v.args) == 3 and not v.keywords and \
                isinstance(v.args[1], ast.Constant) and isinstance(v.args[1].value, str) and v.args[1].value.isidentifier():
            t = ast.Attribute(value=v.args[0], attr=v.args[1].value, ctx=ast.Store())
            return ast.fix_missing_locations(ast.copy_location(ast.Assign(targets=[t], value=v.args[2]), n))
        return n


def _descriptor_objects(tree):
    """N21  class C: x = D(lit, ...)  with D a class of this module that defines __get__ (and maybe __set__) and whose __init__ only stores
    its arguments  ->  @property def x(self): <D.__get__ with the stored arguments written in>  (and @x.setter ... from D.__set__):
    what attribute access through the descriptor executes.  getattr / setattr with the literal names become plain attribute access."""
    classes = {c.name: c for c in tree.body if isinstance(c, ast.ClassDef)}

    def fields_of(D, call):
        init = next((m for m in D.body if isinstance(m, ast.FunctionDef) and m.name == "__init__"), None)
        if init is None:
            return {} if not (call.args or call.keywords) else None
        b = _bind_call(init, call, True)
        if b is None:
            return None
        me = init.args.args[0].arg
        out = {}
        for st in init.body:
            if isinstance(st, ast.Expr) and isinstance(st.value, ast.Constant):
                continue
            if isinstance(st, ast.Assign) and len(st.targets) == 1 and isinstance(st.targets[0], ast.Attribute) and \
                    isinstance(st.targets[0].value, ast.Name) and st.targets[0].value.id == me:
                v = st.value
                if isinstance(v, ast.Name) and v.id in b:
                    v = b[v.id]
                if not isinstance(v, ast.Constant):
                    return None
                out[st.targets[0].attr] = v
            else:
                return None
        return out

    def method_from(D, mname, fields, xname, like):
        m = next((f for f in D.body if isinstance(f, ast.FunctionDef) and f.name == mname), None)
        if m is None or len(m.args.args) < 2 or m.args.vararg or m.args.kwarg:
            return None
        me, obj = m.args.args[0].arg, m.args.args[1].arg
        body = [copy.deepcopy(st) for st in m.body if not (isinstance(st, ast.Expr) and isinstance(st.value, ast.Constant))]

        body = [_Rename({me: "__desc__"}).visit(st) for st in body]
        me = "__desc__"

        class Sub(ast.NodeTransformer):
            def visit_Attribute(self, n):
                self.generic_visit(n)
                if isinstance(n.value, ast.Name) and n.value.id == me and isinstance(n.ctx, ast.Load):
                    if n.attr in fields:
                        return ast.copy_location(ast.Constant(value=fields[n.attr].value), n)
                    if n.attr == "name" or n.attr.endswith("_name"):
                        return ast.copy_location(ast.Constant(value=xname), n)
                return n

            def visit_Name(self, n):
                if n.id == obj:
                    return ast.copy_location(ast.Name(id="self", ctx=n.ctx), n)
                return n
        body = [Sub().visit(st) for st in body]
        # instance access: `if obj is None: return <the descriptor>` never happens
        body = [st for st in body if not (isinstance(st, ast.If) and isinstance(st.test, ast.Compare) and isinstance(st.test.left, ast.Name) and
                                          st.test.left.id == "self" and len(st.test.ops) == 1 and isinstance(st.test.ops[0], ast.Is) and
                                          isinstance(st.test.comparators[0], ast.Constant) and st.test.comparators[0].value is None and not st.orelse)]
        body = [_Setattr().visit(_Getattr().visit(st)) for st in body]
        if any(isinstance(n, ast.Name) and n.id == me for st in body for n in ast.walk(st)):
            return None
        if mname == "__get__":
            args = ast.arguments(posonlyargs=[], args=[ast.arg(arg="self")], vararg=None, kwonlyargs=[], kw_defaults=[], kwarg=None, defaults=[])
            deco = [ast.Name(id="property", ctx=ast.Load())]
        else:
            if len(m.args.args) != 3:
                return None
            args = ast.arguments(posonlyargs=[], args=[ast.arg(arg="self"), ast.arg(arg=m.args.args[2].arg)], vararg=None, kwonlyargs=[], kw_defaults=[],
                                 kwarg=None, defaults=[])
            deco = [ast.Attribute(value=ast.Name(id=xname, ctx=ast.Load()), attr="setter", ctx=ast.Load())]
        fn = ast.FunctionDef(name=xname, args=args, body=body or [ast.Pass()], decorator_list=deco, returns=None)
        for n in ast.walk(fn):
            n.lineno = n.end_lineno = like.lineno
            n.col_offset = n.end_col_offset = like.col_offset
        return fn
    converted = set()
    for c in tree.body:
        if not isinstance(c, ast.ClassDef):
            continue
        made = {}
        new = []
        for st in c.body:
            if isinstance(st, ast.Assign) and len(st.targets) == 1 and isinstance(st.targets[0], ast.Name):
                x = st.targets[0].id
                src = None
                if isinstance(st.value, ast.Call) and isinstance(st.value.func, ast.Name) and st.value.func.id in classes and \
                        any(isinstance(m, ast.FunctionDef) and m.name == "__get__" for m in classes[st.value.func.id].body):
                    D = classes[st.value.func.id]
                    f = fields_of(D, st.value)
                    if f is not None:
                        src = (D, f)
                elif isinstance(st.value, ast.Name) and st.value.id in made:
                    src = made[st.value.id]
                if src is not None:
                    D, f = src
                    g = method_from(D, "__get__", f, x, st)
                    sset = method_from(D, "__set__", f, x, st) if any(isinstance(m, ast.FunctionDef) and m.name == "__set__" for m in D.body) else None
                    has_set = any(isinstance(m, ast.FunctionDef) and m.name == "__set__" for m in D.body)
                    if g is not None and (sset is not None or not has_set):
                        made[x] = src
                        new.append(g)
                        if sset is not None:
                            # a __set__ that only raises is a read-only attribute: no setter
                            if not (len(sset.body) == 1 and isinstance(sset.body[0], ast.Raise)):
                                new.append(sset)
                        continue
            new.append(st)
        c.body = new
        converted.update(D_.name for D_, _ in made.values())
    # a descriptor class every use of which has been written out is no longer part of the program
    for dn in converted:
        D = classes[dn]
        left = [n for st in tree.body if st is not D for n in ast.walk(st) if isinstance(n, ast.Name) and n.id == dn]
        if not left:
            tree.body = [st for st in tree.body if st is not D]
    ast.fix_missing_locations(tree)


def _partials(tree):
    """N22  X = functools.partial(F, a.., k=v..) bound once (at module level or in one function)  ->  every call X(b.., j=w..) is
    F(a.., b.., k=v.., j=w..): what the partial object calls"""
    def is_partial(v):
        return isinstance(v, ast.Call) and ast.unparse(v.func) in ("functools.partial", "partial") and v.args and \
            not any(isinstance(a, ast.Starred) for a in v.args) and not any(k.arg is None for k in v.keywords)

    def rewrite(scope_nodes, defs):
        class T(ast.NodeTransformer):
            def visit_Call(self, n):
                self.generic_visit(n)
                if isinstance(n.func, ast.Name) and n.func.id in defs and not any(k.arg is None for k in n.keywords):
                    p_ = defs[n.func.id]
                    kws = {k.arg: k.value for k in p_.keywords}
                    kws.update({k.arg: k.value for k in n.keywords})
                    return ast.copy_location(ast.Call(func=copy.deepcopy(p_.args[0]), args=[copy.deepcopy(a) for a in p_.args[1:]] + list(n.args),
                                                      keywords=[ast.keyword(arg=k, value=copy.deepcopy(v)) for k, v in kws.items()]), n)
                return n
        for node in scope_nodes:
            T().visit(node)
    counts = {}
    for n in ast.walk(tree):
        if isinstance(n, ast.Name) and isinstance(n.ctx, (ast.Store, ast.Del)):
            counts[n.id] = counts.get(n.id, 0) + 1
    mod_defs = {st.targets[0].id: st.value for st in tree.body if isinstance(st, ast.Assign) and len(st.targets) == 1 and
                isinstance(st.targets[0], ast.Name) and is_partial(st.value) and counts.get(st.targets[0].id) == 1}
    if mod_defs:
        rewrite([st for st in tree.body if not (isinstance(st, ast.Assign) and isinstance(st.targets[0], ast.Name) and st.targets[0].id in mod_defs)],
                mod_defs)
    for fn in [n for n in ast.walk(tree) if isinstance(n, ast.FunctionDef)]:
        fc = {}
        for n in ast.walk(fn):
            if isinstance(n, ast.Name) and isinstance(n.ctx, (ast.Store, ast.Del)):
                fc[n.id] = fc.get(n.id, 0) + 1
        defs = {st.targets[0].id: st.value for st in ast.walk(fn) if isinstance(st, ast.Assign) and len(st.targets) == 1 and
                isinstance(st.targets[0], ast.Name) and is_partial(st.value) and fc.get(st.targets[0].id) == 1 and
                st.targets[0].id not in {a.arg for a in fn.args.args}}
        if defs:
            rewrite(fn.body, defs)

            class Drop(ast.NodeTransformer):        # the partial object itself is no longer used
                def visit_Assign(self, n):
                    if len(n.targets) == 1 and isinstance(n.targets[0], ast.Name) and n.targets[0].id in defs and is_partial(n.value) and \
                            not any(isinstance(x, ast.Name) and x.id == n.targets[0].id and isinstance(x.ctx, ast.Load) for x in ast.walk(fn)):
                        return ast.copy_location(ast.Pass(), n)
                    return n
            Drop().visit(fn)
    ast.fix_missing_locations(tree)


def _scalar_replacement(fn, records):
    """N23  a local that only ever holds freshly built records of one record class (N18) and is only read field by field:
        v = R(a, b); ... v.x ... v.y ...   ->   v__x = a; v__y = b; ... v__x ... v__y ...
    The object never escapes (no use of v other than `v.<field>`), so its fields are just variables."""
    if not records:
        return
    names = {n.id for n in ast.walk(fn) if isinstance(n, ast.Name)} | {a.arg for a in fn.args.args}
    stores, loads, other = {}, {}, set()
    parents = {}
    for n in ast.walk(fn):
        for ch in ast.iter_child_nodes(n):
            parents[id(ch)] = n
    for n in ast.walk(fn):
        if isinstance(n, ast.Name):
            par = parents.get(id(n))
            if isinstance(n.ctx, ast.Store):
                if isinstance(par, ast.Assign) and len(par.targets) == 1 and par.targets[0] is n and isinstance(par.value, ast.Call) and \
                        isinstance(par.value.func, ast.Name) and par.value.func.id in records:
                    stores.setdefault(n.id, []).append(par)
                else:
                    other.add(n.id)
            elif isinstance(n.ctx, ast.Load):
                if isinstance(par, ast.Attribute) and par.value is n and isinstance(par.ctx, ast.Load):
                    loads.setdefault(n.id, []).append(par)
                else:
                    other.add(n.id)
            else:
                other.add(n.id)
    for v, asg in stores.items():
        if v in other or v in {a.arg for a in fn.args.args}:
            continue
        rcs = {a.value.func.id for a in asg}
        if len(rcs) != 1:
            continue
        fields, init = records[next(iter(rcs))]
        if any(l.attr not in fields for l in loads.get(v, [])) or any(("%s__%s" % (v, f)) in names for f in fields):
            continue
        binds = []
        ok = True
        for a in asg:
            b = _bind_call(init, a.value, True)
            if b is None or set(b) != set(fields) or any(isinstance(x, ast.Name) and x.id == v for e_ in b.values() for x in ast.walk(e_)):
                ok = False
            binds.append(b)
        if not ok:
            continue

        class T(ast.NodeTransformer):
            def visit_Assign(self, n):
                for a, b in zip(asg, binds):
                    if n is a:
                        return [ast.fix_missing_locations(ast.copy_location(
                            ast.Assign(targets=[ast.Name(id="%s__%s" % (v, f), ctx=ast.Store())], value=b[f]), n)) for f in fields]
                return self.generic_visit(n)

            def visit_Attribute(self, n):
                if isinstance(n.value, ast.Name) and n.value.id == v and isinstance(n.ctx, ast.Load) and n.attr in fields:
                    return ast.copy_location(ast.Name(id="%s__%s" % (v, n.attr), ctx=ast.Load()), n)
                return self.generic_visit(n)
        T().visit(fn)
        names |= {"%s__%s" % (v, f) for f in fields}


def _match_statements(tree):
    """N19  match S: case <literals joined by |> [if g]: A ... case _: Z   ->   if S == a or S == b [and g]: A  elif ...: else: Z
    (value patterns compare with ==, None / True / False with `is`, exactly as the match statement does; a bare capture name binds the
    subject; any other pattern kind leaves the statement alone)"""
    class T(ast.NodeTransformer):
        def __init__(self):
            self.k = 0

        def test_of(self, pat, subj):
            if isinstance(pat, ast.MatchValue) and isinstance(pat.value, (ast.Constant, ast.Attribute, ast.UnaryOp)):
                return ast.Compare(left=copy.deepcopy(subj), ops=[ast.Eq()], comparators=[pat.value])
            if isinstance(pat, ast.MatchSingleton):
                return ast.Compare(left=copy.deepcopy(subj), ops=[ast.Is()], comparators=[ast.Constant(value=pat.value)])
            if isinstance(pat, ast.MatchOr):
                ts = [self.test_of(p_, subj) for p_ in pat.patterns]
                if any(t is None for t in ts):
                    return None
                return ast.BoolOp(op=ast.Or(), values=ts)
            return None

        def visit_Match(self, n):
            self.generic_visit(n)
            pre = []
            subj = n.subject
            if not isinstance(subj, (ast.Name, ast.Attribute)):
                self.k += 1
                nm = "_subject__%d" % self.k
                pre.append(ast.Assign(targets=[ast.Name(id=nm, ctx=ast.Store())], value=subj))
                subj = ast.Name(id=nm, ctx=ast.Load())
            chain = []
            for c in n.cases:
                if isinstance(c.pattern, ast.MatchAs) and c.pattern.pattern is None:
                    body = list(c.body)
                    if c.pattern.name is not None:
                        body = [ast.Assign(targets=[ast.Name(id=c.pattern.name, ctx=ast.Store())], value=copy.deepcopy(subj))] + body
                    if c.guard is not None:
                        return n            # a guarded catch-all: not handled
                    chain.append((None, body))
                    break
                t = self.test_of(c.pattern, subj)
                if t is None:
                    return n
                if c.guard is not None:
                    t = ast.BoolOp(op=ast.And(), values=[t, c.guard])
                chain.append((t, list(c.body)))
            node = None
            for t, body in reversed(chain):
                if t is None:
                    node = body
                else:
                    node = [ast.If(test=t, body=body, orelse=node or [])]
            out = pre + (node or [ast.Pass()])
            return [ast.fix_missing_locations(ast.copy_location(x, n)) for x in out]
    T().visit(tree)
    ast.fix_missing_locations(tree)


def _record_classes(tree):
    """N18  record types become plain classes with the constructor they generate (attribute access only; indexing / unpacking such an
    object is left to the interpreter, which says it does not model it):
        X = namedtuple('X', ['a', 'b'])            ->  class X: def __init__(self, a, b): self.a = a; self.b = b
        class Y(namedtuple('Y', 'a b')): <body>    ->  class Y: def __init__(self, a, b): ...; <body>
        @dataclass class Z: a: T; b: T = d         ->  class Z: def __init__(self, a, b=d): ...; <rest of body>"""
    nt_names = {"namedtuple"}

    def nt_fields(call):
        if not (isinstance(call, ast.Call) and ast.unparse(call.func).split(".")[-1] in nt_names and len(call.args) >= 2):
            return None
        f = call.args[1]
        if isinstance(f, ast.Constant) and isinstance(f.value, str):
            return f.value.replace(",", " ").split()
        if isinstance(f, (ast.List, ast.Tuple)) and all(isinstance(e, ast.Constant) and isinstance(e.value, str) for e in f.elts):
            return [e.value for e in f.elts]
        return None

    def init_for(fields, defaults, like):
        args = ast.arguments(posonlyargs=[], args=[ast.arg(arg="self")] + [ast.arg(arg=f) for f in fields], vararg=None, kwonlyargs=[],
                             kw_defaults=[], kwarg=None, defaults=defaults)
        body = [ast.Assign(targets=[ast.Attribute(value=ast.Name(id="self", ctx=ast.Load()), attr=f, ctx=ast.Store())],
                           value=ast.Name(id=f, ctx=ast.Load())) for f in fields] or [ast.Pass()]
        fn = ast.FunctionDef(name="__init__", args=args, body=body, decorator_list=[], returns=None)
        for n in ast.walk(fn):
            n.lineno = n.end_lineno = like.lineno
            n.col_offset = n.end_col_offset = like.col_offset
        fn._synth = True
        return fn
    nts = {}
    new = []
    for st in tree.body:
        if isinstance(st, ast.ImportFrom) and st.module in ("collections", "typing"):
            for al in st.names:
                if al.name in ("namedtuple", "NamedTuple") and al.asname:
                    nt_names.add(al.asname)
    for st in tree.body:
        if isinstance(st, ast.Assign) and len(st.targets) == 1 and isinstance(st.targets[0], ast.Name) and nt_fields(st.value) is not None:
            fields = nt_fields(st.value)
            nts[st.targets[0].id] = fields
            c = ast.ClassDef(name=st.targets[0].id, bases=[], keywords=[], body=[init_for(fields, [], st)], decorator_list=[])
            new.append(ast.fix_missing_locations(ast.copy_location(c, st)))
            continue
        if isinstance(st, ast.ClassDef):
            fields = None
            for b in list(st.bases):
                f = nt_fields(b) if isinstance(b, ast.Call) else (nts.get(b.id) if isinstance(b, ast.Name) else None)
                if f is not None and not any(isinstance(m, ast.FunctionDef) and m.name in ("__init__", "__new__") for m in st.body):
                    fields = f
                    st.bases.remove(b)
            if fields is None and any(ast.unparse(d).split("(")[0].split(".")[-1] == "dataclass" for d in st.decorator_list) and \
                    not any(isinstance(m, ast.FunctionDef) and m.name == "__init__" for m in st.body):
                anns = [m for m in st.body if isinstance(m, ast.AnnAssign) and isinstance(m.target, ast.Name)]
                fields = [m.target.id for m in anns]
                defaults = [m.value for m in anns if m.value is not None]
                st.decorator_list = [d for d in st.decorator_list if ast.unparse(d).split("(")[0].split(".")[-1] != "dataclass"]
                st.body = [init_for(fields, defaults, st)] + [m for m in st.body if m not in anns]
                ast.fix_missing_locations(st)
                fields = None
            if fields is not None:
                st.body = [init_for(fields, [], st)] + [m for m in st.body if not (isinstance(m, ast.Assign) and any(
                    isinstance(t, ast.Name) and t.id == "__slots__" for t in m.targets))]
                ast.fix_missing_locations(st)
        new.append(st)
    tree.body = new
    # record classes: name -> (fields, synthesised __init__), only those without any other member (pure data)
    out = {}
    for st in tree.body:
        if isinstance(st, ast.ClassDef) and not st.bases and not st.decorator_list:
            init = [m for m in st.body if isinstance(m, ast.FunctionDef) and m.name == "__init__"]
            if len(init) == 1 and getattr(init[0], "_synth", False):
                meths = {m.name for m in st.body if isinstance(m, ast.FunctionDef)}
                out[st.name] = ([a.arg for a in init[0].args.args[1:]], init[0], meths)
    return out


def normalise_module(tree, modname, foreign=None, mod_alias=None):
    if os.environ.get("VERIF_NO_NORMALISE") == "1":
        return tree
    tree = ast.fix_missing_locations(_Spell().visit(tree))
    _partials(tree)
    _property_objects(tree)
    _descriptor_objects(tree)
    _match_statements(tree)
    recs = _record_classes(tree)
    records = {k: (f, init) for k, (f, init, meths) in recs.items()}
    pin = pinned()
    funcs, classes = {}, {}
    for n in tree.body:
        if isinstance(n, ast.FunctionDef) and (modname + "." + n.name) not in pin:
            funcs[n.name] = n
        elif isinstance(n, ast.ClassDef):
            for m in n.body:
                if isinstance(m, ast.FunctionDef) and (modname + "." + n.name + "." + m.name) not in pin:
                    classes.setdefault(n.name, {})[m.name] = m
    # methods of a new base... only same-class methods are considered; subclasses see helpers of their bases through the class table below
    bases = {n.name: [ast.unparse(b) for b in n.bases] for n in tree.body if isinstance(n, ast.ClassDef)}
    for cname in list(bases):
        seen, todo = set(), list(bases[cname])
        while todo:
            b = todo.pop()
            if b in seen or b not in bases:
                continue
            seen.add(b)
            for k, v in classes.get(b, {}).items():
                classes.setdefault(cname, {}).setdefault(k, v)
            todo.extend(bases[b])
    _module_constants(tree)
    dattrs = _dict_attrs(tree)
    ctx = _Ctx(modname, funcs, classes, foreign=foreign, mod_alias=mod_alias)
    for n in tree.body:
        if isinstance(n, ast.FunctionDef):
            ctx.caller_names = _locals_of(n) | {x.id for x in ast.walk(n) if isinstance(x, ast.Name)}
            _unroll_literal_loops(n)
            n.body = _block(n.body, ctx, None, None)
            _pair_loops(n, ctx)
            n.body = _block(n.body, ctx, None, None)
            _hoist_common_prefix(n)
            _scalar_replacement(n, records)
            _Getattr().visit(n)
            _try_keyerror(n, dattrs)
            _views(n)
            _carried_state(n)
        elif isinstance(n, ast.ClassDef):
            for m in n.body:
                if isinstance(m, ast.FunctionDef):
                    selfname = m.args.args[0].arg if (m.args.args and not any(ast.unparse(d) == "staticmethod" for d in m.decorator_list)) else None
                    ctx.caller_names = _locals_of(m) | {x.id for x in ast.walk(m) if isinstance(x, ast.Name)}
                    _unroll_literal_loops(m)
                    m.body = _block(m.body, ctx, n.name, selfname)
                    _pair_loops(m, ctx)
                    _hoist_common_prefix(m)
                    _scalar_replacement(m, records)
                    _Getattr().visit(m)
                    _try_keyerror(m, dattrs)
                    _views(m)
                    _carried_state(m)
    return ast.fix_missing_locations(tree)


# ------------------------------------------------------------------------------------------------- on demand (not applied globally)
def _always_exits(stmts):
    if not stmts:
        return False
    last = stmts[-1]
    if isinstance(last, (ast.Return, ast.Raise, ast.Continue, ast.Break)):
        return True
    if isinstance(last, ast.If):
        return _always_exits(last.body) and _always_exits(last.orelse)
    return False


def guards_to_ifelse(stmts):
    """Canonical if/else nesting of a block (a COPY is returned): a guard clause `if c: ...exit` followed by the rest becomes
    `if c: ...exit else: rest`, and `if not c: A else: B` becomes `if c: B else: A`.  Used by rules that ask which branch a statement
    is on; the tree the interpreter sees is not changed."""
    out = []
    stmts = list(stmts)
    for i, st in enumerate(stmts):
        if any(isinstance(getattr(st, fld, None), list) for fld in ("body", "orelse", "finalbody")):
            st = copy.copy(st)          # containers are copied, leaf statements keep their identity
        for fld in ("body", "orelse", "finalbody"):
            sub = getattr(st, fld, None)
            if isinstance(sub, list) and sub and isinstance(sub[0], ast.stmt) and not isinstance(st, (ast.FunctionDef, ast.ClassDef)):
                setattr(st, fld, guards_to_ifelse(sub))
        if isinstance(st, ast.If):
            rest = stmts[i + 1:]
            if rest and _always_exits(st.body) and not st.orelse:
                st.orelse = guards_to_ifelse(rest)
                out.append(_flip_not(st))
                return out
            if rest and st.orelse and _always_exits(st.orelse) and not _always_exits(st.body):
                st.body = st.body + guards_to_ifelse(rest)
                out.append(_flip_not(st))
                return out
            st = _flip_not(st)
        out.append(st)
    return out


def _flip_not(st):
    if isinstance(st.test, ast.UnaryOp) and isinstance(st.test.op, ast.Not) and st.orelse:
        st.test, st.body, st.orelse = st.test.operand, st.orelse, st.body
    return st

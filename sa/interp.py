"""Abstract interpreter over eqsig's AST.

Forward, flow-sensitive, branch-joining, context-sensitive (callees are re-interpreted with the
caller's abstract arguments).  Variables hold abstract *types* (sa.values.AV); nothing is executed.
"""
import ast
import copy

from .program import AnalysisError, local_imports_of, norm_stmt
from .values import *  # noqa
from .values import _NOCONST
from . import values as V

ONE = LinExpr(1)
BUILTINS = set("""len range abs max min sum int float bool str list tuple dict set enumerate zip isinstance hasattr
getattr setattr print open sorted round super reversed any all type map filter id repr divmod pow complex slice
ValueError TypeError IndexError KeyError MemoryError NotImplemented NotImplementedError AttributeError
Exception RuntimeError AssertionError ZeroDivisionError StopIteration Warning DeprecationWarning object
True False None""".split())
EXC_NAMES = set(n for n in BUILTINS if n.endswith("Error") or n in ("Exception", "Warning", "NotImplemented",
                                                                   "DeprecationWarning", "StopIteration"))


class Obj(object):
    __slots__ = ("id", "cls", "attrs", "site", "is_param", "label")

    def __init__(self, oid, cls, site=None, is_param=False, label=None):
        self.id = oid
        self.cls = cls
        self.attrs = {}
        self.site = site
        self.is_param = is_param
        self.label = label

    def copy(self):
        o = Obj(self.id, self.cls, self.site, self.is_param, self.label)
        o.attrs = dict(self.attrs)
        return o


class State(object):
    __slots__ = ("env", "heap", "pc", "facts")

    def __init__(self):
        self.env = {}
        self.heap = {}
        self.pc = {}
        self.facts = frozenset()

    def copy(self):
        s = State()
        s.env = dict(self.env)
        s.heap = {k: o.copy() for k, o in self.heap.items()}
        s.pc = dict(self.pc)
        s.facts = self.facts
        return s

    def key(self):
        return (tuple(sorted((k, v.key()) for k, v in self.env.items())),
                tuple(sorted((oid, tuple(sorted((a, v.key()) for a, v in o.attrs.items())))
                             for oid, o in self.heap.items())),
                self.facts)


def _join_env(e1, e2, rel=True):
    """Join two environments; keeps `y - x` relations between int symbols (difference trick)."""
    out = {}
    pend = []
    for k in set(e1) | set(e2):
        a, b = e1.get(k), e2.get(k)
        if a is None or b is None:
            # defined on one path only: keep it (use on the other path would be a NameError anyway)
            v = a if a is not None else b
            out[k] = v
            continue
        j = join_av(a, b)
        if rel and a.sym is not None and b.sym is not None and a.sym != b.sym:
            pend.append((k, a.sym, b.sym))
        out[k] = j
    # difference-aware join of symbolic ints
    assigned = []  # (name, sym_a, sym_b, joined LinExpr)
    for k, sa_, sb_ in sorted(pend, key=lambda t: t[0]):
        done = False
        for (k2, a2, b2, j2) in assigned:
            if (sa_ - a2) == (sb_ - b2):
                out[k] = out[k].replace(sym=j2 + (sa_ - a2))
                assigned.append((k, sa_, sb_, out[k].sym))
                done = True
                break
        if not done:
            j = LinExpr(fresh_atom("$j"))
            out[k] = out[k].replace(sym=j)
            assigned.append((k, sa_, sb_, j))
    return out


def join_states(a, b, rel=True):
    if a is None:
        return b
    if b is None:
        return a
    s = State()
    s.env = _join_env(a.env, b.env, rel)
    s.heap = {}
    for oid in set(a.heap) | set(b.heap):
        oa, ob = a.heap.get(oid), b.heap.get(oid)
        if oa is None or ob is None:
            s.heap[oid] = (oa or ob).copy()
            continue
        o = Obj(oid, oa.cls, oa.site, oa.is_param, oa.label)
        o.attrs = _join_env(oa.attrs, ob.attrs, rel)
        s.heap[oid] = o
    pc = {}
    for at in set(a.pc) | set(b.pc):
        if at == "__tags__":
            pc[at] = a.pc.get(at, frozenset()) | b.pc.get(at, frozenset())
        else:
            pc[at] = alg_lub(a.pc.get(at, CONST), b.pc.get(at, CONST))
    s.pc = pc
    s.facts = a.facts | b.facts
    return s


class Flow(object):
    __slots__ = ("normal", "returns", "breaks", "continues", "raises")

    def __init__(self, normal=None):
        self.normal = normal
        self.returns = []
        self.breaks = []
        self.continues = []
        self.raises = []

    def absorb(self, other):
        self.returns += other.returns
        self.breaks += other.breaks
        self.continues += other.continues
        self.raises += other.raises

    def has_jump(self):
        return bool(self.returns or self.breaks or self.continues)


class Frame(object):
    def __init__(self, fi, state, interp):
        self.fi = fi
        self.module = fi.module
        self.limports = local_imports_of(fi)
        if getattr(fi, "outer_imports", None):
            self.limports = dict(fi.outer_imports, **self.limports)      # a local function sees the imports of the function it is defined in
        self.state = state
        self.interp = interp
        self.self_obj = None
        self.cur_stmt = None
        self.persist_pc = {}


class Event(dict):
    __getattr__ = dict.get


def is_fresh_origin(origin):
    return bool(origin) and all(t.startswith("a@") or t == "lit" for t in origin)


def truthiness(av):
    """True / False / None (unknown) of an abstract value used as a condition."""
    if av.has_const():
        try:
            return bool(av.const)
        except Exception:
            return None
    if av.kind == K_NONE:
        return False
    if av.kind in (K_OBJ, K_FUNC, K_CLASS, K_MODULE):
        return True
    if av.kind in (K_LIST, K_TUPLE) and av.items is not None:
        return len(av.items) > 0
    return None


class Interp(object):
    MAX_LOOP_ITERS = 12
    MAX_DEPTH = 24

    def __init__(self, program, listeners=None, opaque_atoms=None):
        self.P = program
        self.events = []
        self.stack = []
        self.objcount = 0
        self.listeners = listeners or []
        self.atoms = set()
        self.stats = {"stmts": 0, "calls": 0, "libcalls": 0, "joins": 0, "loops": 0, "functions": set()}
        from . import api
        self.api = api
        self.record_reads = True
        self.branch_oracle = None  # callable(fr, If-node) -> True/False/None: path enumeration for unknown tests
        self.tag_returns = set()   # qualnames whose tuple results are tagged 'ret:<name>#i'
        self.overrides = {}        # qualname -> closure(I, fr, bound, node) -> AV  (summary stubs)

    # ------------------------------------------------------------------ events
    def emit(self, kind, fr, node=None, **kw):
        ev = Event(kind=kind, fn=fr.fi.qualname if fr else None, node=node,
                   loc=fr.fi.loc(node) if (fr and node is not None) else None,
                   stmt=norm_stmt(fr.cur_stmt) if (fr and fr.cur_stmt is not None) else None,
                   stack=tuple(f.qualname for f in self.stack), **kw)
        self.events.append(ev)
        for l in self.listeners:
            l(self, fr, ev)
        return ev

    def unmodelled(self, fr, node, what):
        self.emit("unmodelled", fr, node, what=what)
        return top_av(indef=True, note=what, atoms=self.atoms)

    # ------------------------------------------------------------------ objects
    def new_obj(self, state, cls, site=None, is_param=False, label=None):
        if site is not None:
            for o in state.heap.values():
                if o.site == site and o.cls is cls:  # allocation-site abstraction (keeps loops finite)
                    o.attrs = {}
                    return o
        self.objcount += 1
        o = Obj(self.objcount, cls, site, is_param, label)
        state.heap[o.id] = o
        return o

    def obj_av(self, o):
        return AV(kind=K_OBJ, obj=o.id, origin=frozenset(["o%d" % o.id]))

    # ------------------------------------------------------------------ entry
    def run(self, fi, args, state=None, self_obj=None):
        """Interpret function fi with abstract args (dict param -> AV). Returns (ret AV, exit State, Flow)."""
        if state is None:
            state = State()
        return self.call_function(fi, args, state, None, None, self_obj=self_obj, is_entry=True)

    def call_function(self, fi, bound, state, caller_fr, node, self_obj=None, is_entry=False):
        if fi.qualname in self.overrides and not is_entry:
            self.emit("call", caller_fr, node, callee=fi.qualname, overridden=True, bound=dict(bound))
            return self.overrides[fi.qualname](self, caller_fr, bound, node), state, None
        if fi in self.stack or len(self.stack) > self.MAX_DEPTH:
            return self.unmodelled(caller_fr, node, "recursion or depth limit at %s" % fi.qualname), state, None
        self.stats["calls"] += 1
        self.stats["functions"].add(fi.qualname)
        callee_state = State()
        callee_state.heap = state.heap  # shared heap (same dict object, mutated in place)
        callee_state.pc = dict(state.pc)
        callee_state.facts = state.facts
        callee_state.env = dict(bound)
        fr = Frame(fi, callee_state, self)
        fr.self_obj = self_obj
        self.stack.append(fi)
        if caller_fr is not None:
            self.emit("call", caller_fr, node, callee=fi.qualname, bound=dict(bound))
        try:
            flow = self.exec_block(fi.node.body, fr)
        finally:
            self.stack.pop()
        outs = list(flow.returns)
        if flow.normal is not None:
            outs.append((const_av(None), flow.normal))
        if not outs:
            # every path raises
            state.facts = callee_state.facts
            ret = AV(kind=K_NONE, const=None, note="no-normal-exit")
            self.emit("exit", fr, fi.node, normal=False, state=None, ret=ret, is_entry=is_entry)
            return ret, state, flow
        ret = None
        exit_state = None
        for v, st in outs:
            ret = v if ret is None else join_av(ret, v)
            exit_state = st if exit_state is None else join_states(exit_state, st)
        from . import idioms
        ret = idioms.post_call(self, fi, bound, ret)
        if fi.qualname in self.tag_returns and ret.items is not None:
            ret = ret.replace(items=tuple(
                x.replace(tags=x.tags | frozenset(["ret:%s#%d" % (fi.name, i)])) for i, x in enumerate(ret.items)))
        # propagate heap and facts back to the caller
        newheap = dict(exit_state.heap)
        state.heap.clear()
        state.heap.update(newheap)
        state.facts = exit_state.facts
        self.emit("exit", fr, fi.node, normal=True, state=exit_state, ret=ret, n_returns=len(outs), is_entry=is_entry)
        return ret, state, flow

    # ------------------------------------------------------------------ statements
    def exec_block(self, stmts, fr):
        flow = Flow(fr.state)
        for st in stmts:
            if flow.normal is None:
                break
            fr.state = flow.normal
            f = self.exec_stmt(st, fr)
            flow.absorb(f)
            flow.normal = f.normal
        fr.state = flow.normal
        return flow

    def exec_stmt(self, st, fr):
        self.stats["stmts"] += 1
        fr.cur_stmt = st
        m = getattr(self, "st_" + type(st).__name__, None)
        if m is None:
            self.unmodelled(fr, st, "statement " + type(st).__name__)
            return Flow(fr.state)
        return m(st, fr)

    def st_Expr(self, st, fr):
        self.ev(st.value, fr)
        return Flow(fr.state)

    def st_Pass(self, st, fr):
        return Flow(fr.state)

    def st_Import(self, st, fr):
        return Flow(fr.state)

    st_ImportFrom = st_Import
    st_Global = st_Import
    st_Nonlocal = st_Import

    def st_FunctionDef(self, st, fr):
        fr.state.env[st.name] = self.local_function(st, fr)
        return Flow(fr.state)

    def local_function(self, node, fr):
        """A function defined inside a function (def or lambda): called like any other, its free variables read from the defining frame
        as it is at the time of the call (late binding).  Generators, decorated functions and functions that rebind outer names stay
        opaque."""
        name = getattr(node, "name", "<lambda>")
        if isinstance(node, ast.Lambda):
            fnode = ast.FunctionDef(name="<lambda>", args=node.args, body=[ast.Return(value=node.body)], decorator_list=[], returns=None,
                                    type_comment=None, type_params=[])
            ast.copy_location(fnode, node)
            ast.fix_missing_locations(fnode)
        else:
            fnode = node
        if getattr(fnode, "decorator_list", None) or any(isinstance(n, (ast.Yield, ast.YieldFrom, ast.Nonlocal, ast.Global)) for n in ast.walk(fnode)):
            return AV(kind=K_FUNC, ref=("opaque", name))
        from .program import FunctionInfo
        fi2 = FunctionInfo("%s.<locals>.%s@%s" % (fr.fi.qualname, name, getattr(node, "lineno", "?")), fnode, fr.fi.module)
        define_fr = fr
        fi2.outer_imports = dict(fr.limports or {})

        def run(I, call_fr, args, kwargs, cnode):
            bound = I.bind(fi2, args, kwargs, call_fr, cnode)
            env = dict(define_fr.state.env) if define_fr.state is not None else {}
            env.update(bound)
            ret, _, _ = I.call_function(fi2, env, call_fr.state, call_fr, cnode)
            return ret
        return AV(kind=K_FUNC, ref=("closure", run))

    def st_Assert(self, st, fr):
        v = self.ev(st.test, fr)
        tv = truthiness(v)
        if tv is False:
            # an assertion that is false for the (generic, consistent) arguments of this run: the call cannot get past it
            self.emit("type-error", fr, st, what="assertion `%s` is false for every consistent input: AssertionError" % " ".join(ast.unparse(st.test).split())[:80])
        return Flow(fr.state)

    def st_Delete(self, st, fr):
        for t in st.targets:
            if isinstance(t, ast.Subscript):
                base = self.ev(t.value, fr)
                self.mutate(fr, base, st, "del-subscript", lambda a: a.replace(shape=None))
            elif isinstance(t, ast.Name):
                fr.state.env.pop(t.id, None)
        return Flow(fr.state)

    def st_Return(self, st, fr):
        v = self.ev(st.value, fr) if st.value is not None else const_av(None)
        v = weaken_av(v, fr.state.pc)
        f = Flow(None)
        f.returns.append((v, fr.state))
        return f

    def st_Raise(self, st, fr):
        if st.exc is not None:
            self.ev(st.exc, fr)
        f = Flow(None)
        f.raises.append((fr.state, st))
        self.emit("raise", fr, st)
        return f

    def st_Break(self, st, fr):
        f = Flow(None)
        f.breaks.append(fr.state)
        return f

    def st_Continue(self, st, fr):
        f = Flow(None)
        f.continues.append(fr.state)
        return f

    def st_Assign(self, st, fr):
        v = self.ev(st.value, fr)
        for t in st.targets:
            self.assign(t, v, fr, st)
        return Flow(fr.state)

    def st_AnnAssign(self, st, fr):
        if st.value is not None:
            self.assign(st.target, self.ev(st.value, fr), fr, st)
        return Flow(fr.state)

    def st_AugAssign(self, st, fr):
        t = st.target
        cur = self.ev(_as_load(t), fr)
        rhs = self.ev(st.value, fr)
        new = self.binop(st.op, cur, rhs, fr, st)
        inplace = cur.kind in (K_ARRAY, K_LIST, K_TOP) and not (cur.kind == K_TOP and cur.shape == ())
        if isinstance(t, ast.Name):
            if inplace:
                keep = new.replace(origin=cur.origin, kind=cur.kind if cur.kind != K_TOP else new.kind,
                                   dtype=cur.dtype if cur.kind == K_ARRAY else new.dtype,
                                   shape=cur.shape if (cur.kind == K_ARRAY and cur.shape is not None) else new.shape)
                self.mutate(fr, cur, st, "augassign", lambda a, keep=keep: keep, strong=True)
                fr.state.env[t.id] = weaken_av(keep, fr.state.pc)
            else:
                self.assign(t, new, fr, st)
        elif isinstance(t, ast.Attribute):
            if inplace:
                keep = new.replace(origin=cur.origin, kind=cur.kind if cur.kind != K_TOP else new.kind,
                                   dtype=cur.dtype if cur.kind == K_ARRAY else new.dtype,
                                   shape=cur.shape if (cur.kind == K_ARRAY and cur.shape is not None) else new.shape)
                self.mutate(fr, cur, st, "augassign", lambda a, keep=keep: keep, strong=True)
                self.assign(t, keep, fr, st)
            else:
                self.assign(t, new, fr, st)
        elif isinstance(t, ast.Subscript):
            base = self.ev(t.value, fr)
            idx = self.ev_index(t.slice, fr)
            if base.kind in (K_DICT,):
                self.assign(t, new, fr, st)
            else:
                self.store_subscript(fr, t, base, idx, new, st, how="augassign-subscript")
        return Flow(fr.state)

    def st_If(self, st, fr):
        test = self.ev(st.test, fr)
        tv = truthiness(test)
        if (tv is None or getattr(self, "oracle_first", False)) and self.branch_oracle is not None:
            ov = self.branch_oracle(fr, st)
            if ov is not None:
                tv = ov
                self.emit("assumed-branch", fr, st, taken=tv)
        self.emit("branch", fr, st, test=test, folded=tv)
        if tv is True:
            return self.exec_block(st.body, fr)
        if tv is False:
            return self.exec_block(st.orelse, fr)
        st0 = fr.state
        condpc = self.cond_pc(test)
        s1 = st0.copy()
        self.push_pc(s1, condpc)
        self.refine(st.test, s1, True, fr)
        fr.state = s1
        f1 = self.exec_block(st.body, fr)
        s2 = st0.copy()
        self.push_pc(s2, condpc)
        self.refine(st.test, s2, False, fr)
        fr.state = s2
        f2 = self.exec_block(st.orelse, fr)
        out = Flow(None)
        out.absorb(f1)
        out.absorb(f2)
        jump = f1.has_jump() or f2.has_jump()
        n1, n2 = f1.normal, f2.normal
        if n1 is not None and n2 is not None:
            self.stats["joins"] += 1
            out.normal = join_states(n1, n2)
        else:
            out.normal = n1 if n1 is not None else n2
        if out.normal is not None:
            # restore pc of the enclosing context (+ persistent part if a branch jumped away)
            pc = dict(st0.pc)
            if jump:
                for at, c in condpc.items():
                    pc_merge(pc, at, c)
            out.normal.pc = pc
        fr.state = out.normal
        return out

    def cond_pc(self, test):
        pc = {}
        for at in test.atoms():
            c = test.a(at)
            if c[0] not in ("const", "zero"):
                pc[at] = c
        if test.indef:
            for at in self.atoms:
                pc[at] = TOPI
        if test.tags:
            pc["__tags__"] = test.tags
        return pc

    def push_pc(self, state, condpc):
        for at, c in condpc.items():
            pc_merge(state.pc, at, c)

    def refine(self, test, state, branch, fr):
        """Very small condition refinement: `x is None` / `x is not None` on plain names."""
        if isinstance(test, ast.UnaryOp) and isinstance(test.op, ast.Not):
            return self.refine(test.operand, state, not branch, fr)
        if isinstance(test, ast.BoolOp) and isinstance(test.op, ast.And) and branch:
            for v in test.values:
                self.refine(v, state, True, fr)
            return
        # `if s:` / `if s == 1:` on a small integer known to be one of a few values: the branch fixes the value, and with it every
        # symbolic length that was computed from it before the branch (rows P - s ...)
        nm, keep = None, None
        if isinstance(test, ast.Name) and branch:
            # `flag = a > 0 and ...` ... `if flag:`: a condition held under a local name bound once, whose operands are bound at most once in the
            # function (so they still hold what the condition read), is the condition itself
            cond = self._named_condition(fr, test.id)
            if cond is not None:
                self.refine(cond, state, True, fr)
        if isinstance(test, ast.Name):
            nm, keep = test.id, (lambda k: bool(k) == branch)
        elif isinstance(test, ast.Compare) and len(test.ops) == 1 and isinstance(test.left, ast.Name) and isinstance(test.comparators[0], ast.Constant) \
                and isinstance(test.comparators[0].value, int) and isinstance(test.ops[0], (ast.Eq, ast.NotEq)):
            cv = test.comparators[0].value
            nm, keep = test.left.id, (lambda k, cv=cv, eq=isinstance(test.ops[0], ast.Eq): ((k == cv) == eq) == branch)
        if nm is not None:
            cur = state.env.get(nm)
            if cur is not None and isinstance(cur.note, tuple) and cur.note and cur.note[0] == "in":
                left = [k for k in sorted(cur.note[1]) if keep(k)]
                if len(left) == 1:
                    k = left[0]
                    atoms_ = cur.sym.atoms() if cur.sym is not None else []
                    new = const_av(k).replace(tags=cur.tags)
                    state.env[nm] = new
                    if len(atoms_) == 1 and cur.sym == LinExpr(atoms_[0]):
                        self._subst_sym(state, atoms_[0], k)
            if isinstance(test, ast.Name):
                return
        # `x[0] == 0` holds (or `x[0] != 0` fails): the array held by the local x starts with a zero
        if isinstance(test, ast.Compare) and len(test.ops) == 1 and isinstance(test.ops[0], (ast.Eq, ast.NotEq)):
            for a_, b_ in ((test.left, test.comparators[0]), (test.comparators[0], test.left)):
                if isinstance(a_, ast.Subscript) and isinstance(a_.value, ast.Name) and isinstance(a_.slice, ast.Constant) and type(a_.slice.value) is int \
                        and a_.slice.value == 0 and isinstance(b_, ast.Constant) and type(b_.value) in (int, float) and b_.value == 0:
                    if isinstance(test.ops[0], ast.Eq) == branch:
                        cur = state.env.get(a_.value.id)
                        if cur is not None and cur.kind == K_ARRAY and not cur.f0:
                            state.env[a_.value.id] = cur.replace(f0=True)
                    break
        if isinstance(test, ast.Compare) and len(test.ops) == 1 and isinstance(test.left, ast.Name):
            op, right = test.ops[0], test.comparators[0]
            if isinstance(right, ast.Constant) and right.value == 0 and not isinstance(right.value, bool):
                cur = state.env.get(test.left.id)
                if cur is not None and cur.kind == K_SCALAR:
                    pos = (isinstance(op, ast.Gt) and branch) or (isinstance(op, ast.LtE) and not branch)
                    if pos:
                        state.env[test.left.id] = cur.replace(sign=S_POS)
            if isinstance(right, ast.Constant) and right.value is None and isinstance(op, (ast.Is, ast.IsNot)):
                is_none = isinstance(op, ast.Is) == branch
                cur = state.env.get(test.left.id)
                if cur is not None and is_none:
                    state.env[test.left.id] = const_av(None)
                elif cur is not None and "maybe-none" in cur.tags:
                    state.env[test.left.id] = cur.replace(tags=cur.tags - frozenset(["maybe-none"]))       # present on this branch

    def _named_condition(self, fr, name):
        root = getattr(fr.fi, "node", None)
        if root is None:
            return None
        cache = getattr(fr, "_named_conds", None)
        if cache is None:
            counts = {}
            binds = {}
            for n in ast.walk(root):
                tg = []
                if isinstance(n, ast.Assign):
                    tg = [x for t in n.targets for x in ast.walk(t) if isinstance(x, ast.Name)]
                    if len(n.targets) == 1 and isinstance(n.targets[0], ast.Name):
                        binds.setdefault(n.targets[0].id, []).append(n.value)
                elif isinstance(n, (ast.AugAssign, ast.AnnAssign)):
                    tg = [x for x in ast.walk(n.target) if isinstance(x, ast.Name)]
                elif isinstance(n, (ast.For, ast.comprehension)):
                    tg = [x for x in ast.walk(n.target) if isinstance(x, ast.Name)]
                elif isinstance(n, ast.NamedExpr):
                    tg = [n.target]
                for x in tg:
                    counts[x.id] = counts.get(x.id, 0) + 1
            cache = fr._named_conds = (counts, binds)
        counts, binds = cache
        vals = binds.get(name, [])
        if len(vals) != 1 or counts.get(name, 0) != 1 or not isinstance(vals[0], (ast.Compare, ast.BoolOp)):
            return None
        if any(isinstance(x, ast.Name) and counts.get(x.id, 0) > 1 for x in ast.walk(vals[0])):
            return None
        return vals[0]

    def _subst_sym(self, state, atom, k):
        def fix(av):
            ch = {}
            if av.shape is not None and any(d is not None and atom in d.atoms() for d in av.shape):
                ch["shape"] = tuple(d.subst(atom, k) if d is not None else None for d in av.shape)
            if av.sym is not None and atom in av.sym.atoms():
                ch["sym"] = av.sym.subst(atom, k)
            if av.items is not None and any(i is not None for i in av.items):
                its = tuple(fix(i) if i is not None else None for i in av.items)
                if any(x is not y for x, y in zip(its, av.items)):
                    ch["items"] = its
            return av.replace(**ch) if ch else av
        for name, av in list(state.env.items()):
            state.env[name] = fix(av)
        for o in state.heap.values():
            for name, av in list(o.attrs.items()):
                o.attrs[name] = fix(av)

    def st_For(self, st, fr):
        it = self.ev(st.iter, fr)
        # a loop over a short sequence whose items are known one by one (a literal tuple of two components, a zip of such ...) is run item
        # by item, in order: exactly what the loop does; only when the body cannot leave the loop early
        if it.kind in (K_TUPLE, K_LIST) and it.items is not None and 1 <= len(it.items) <= 4 and it.note != "range" and \
                all(x is not None for x in it.items) and \
                any(isinstance(n, (ast.Break, ast.Return)) for b in st.body for n in ast.walk(b)) and \
                not any(isinstance(n, ast.Continue) for b in st.body for n in ast.walk(b)):
            # a search through a short table of known entries (`for key, val in TABLE: if x == key: ...; break` with an else clause): run
            # entry by entry; a break leaves the loop past the else clause, exhaustion runs it
            self.stats["loops"] += 1
            out = Flow(None)
            brk = None
            cur = fr.state
            for item in it.items:
                fr.state = cur
                self.assign(st.target, item, fr, st, quiet=True)
                f = self.exec_block(st.body, fr)
                out.raises += f.raises
                out.returns += f.returns
                for b_ in f.breaks:
                    brk = join_states(brk, b_)
                cur = f.normal
                if cur is None:
                    break
            done = cur
            if done is not None and st.orelse:
                fr.state = done
                fe = self.exec_block(st.orelse, fr)
                out.absorb(fe)
                done = fe.normal
            res = join_states(done, brk) if (done is not None and brk is not None) else (done if done is not None else brk)
            out.normal = res
            fr.state = res
            return out
        if it.kind in (K_TUPLE, K_LIST) and it.items is not None and 1 <= len(it.items) <= (4 if it.note != "range" else 2) and not st.orelse and \
                all(x is not None for x in it.items) and \
                not any(isinstance(n, (ast.Break, ast.Continue, ast.Return)) for b in st.body for n in ast.walk(b)):
            self.stats["loops"] += 1
            out = Flow(None)
            for item in it.items:
                self.assign(st.target, item, fr, st, quiet=True)
                f = self.exec_block(st.body, fr)
                out.raises += f.raises
                if f.normal is None:
                    out.normal = None
                    fr.state = None
                    return out
                fr.state = f.normal
            out.normal = fr.state
            return out
        elem, trip_pc, nonempty = self.iter_elem(it, fr, st)
        self.stats["loops"] += 1
        st_in = fr.state
        outer_pc = dict(st_in.pc)
        exits = []
        flow_out = Flow(None)
        if not nonempty:
            exits.append(st_in.copy())
        cur = st_in.copy()
        prev_key = None
        final_after = None
        for it_n in range(self.MAX_LOOP_ITERS):
            body_state = cur.copy()
            self.push_pc(body_state, trip_pc)
            fr.state = body_state
            self.assign(st.target, elem, fr, st, quiet=True)
            f = self.exec_block(st.body, fr)
            after = f.normal
            for c in f.continues:
                after = join_states(after, c, rel=False)
            nxt = join_states(cur, after, rel=False) if after is not None else cur
            nxt.pc = dict(outer_pc)
            k = nxt.key()
            last_flow = f
            final_after = after
            if k == prev_key:
                break
            prev_key = k
            cur = nxt
        else:
            self.emit("unmodelled", fr, st, what="loop did not stabilise")
        flow_out.returns += last_flow.returns
        flow_out.raises += last_flow.raises
        if final_after is not None:
            exits.append(final_after)
        # the else clause runs when the iteration is exhausted, not after a break
        done = None
        for e in exits:
            done = join_states(done, e)
        brk = None
        for b in last_flow.breaks:
            brk = join_states(brk, b)
        pc = dict(outer_pc)
        if last_flow.has_jump():
            for at, c in trip_pc.items():
                pc_merge(pc, at, c)
        if done is not None:
            done.pc = dict(pc)
            if st.orelse:
                fr.state = done
                fe = self.exec_block(st.orelse, fr)
                flow_out.absorb(fe)
                done = fe.normal
        out = join_states(done, brk) if (done is not None and brk is not None) else (done if done is not None else brk)
        if out is not None:
            out.pc = pc
        flow_out.normal = out
        fr.state = out
        return flow_out

    def st_While(self, st, fr):
        st_in = fr.state
        outer_pc = dict(st_in.pc)
        cur = st_in.copy()
        prev_key = None
        exits = []
        last_flow = Flow(None)
        self.stats["loops"] += 1
        for it_n in range(self.MAX_LOOP_ITERS):
            fr.state = cur.copy()
            test = self.ev(st.test, fr)
            condpc = self.cond_pc(test)
            exit_state = fr.state.copy()
            body_state = fr.state
            self.push_pc(body_state, condpc)
            f = self.exec_block(st.body, fr)
            after = f.normal
            for c in f.continues:
                after = join_states(after, c, rel=False)
            nxt = join_states(cur, after, rel=False) if after is not None else cur
            nxt.pc = dict(outer_pc)
            last_flow = f
            last_exit = exit_state
            last_condpc = condpc
            k = nxt.key()
            if k == prev_key:
                break
            prev_key = k
            cur = nxt
        else:
            self.emit("unmodelled", fr, st, what="while loop did not stabilise")
        out = last_exit
        for b in last_flow.breaks:
            out = join_states(out, b)
        # everything modified in the loop depends on the trip count => weaken by the condition class
        pc = dict(outer_pc)
        out.pc = pc
        for name, v in list(out.env.items()):
            old = st_in.env.get(name)
            if old is None or old.key() != v.key():
                out.env[name] = weaken_av(v, last_condpc)
        flow = Flow(out)
        flow.returns += last_flow.returns
        flow.raises += last_flow.raises
        fr.state = out
        return flow

    def st_Try(self, st, fr):
        st0 = fr.state.copy()
        fb = self.exec_block(st.body, fr)
        out = Flow(None)
        out.returns += fb.returns
        out.breaks += fb.breaks
        out.continues += fb.continues
        normal = fb.normal
        if fb.normal is not None and st.orelse:
            fr.state = fb.normal
            fe = self.exec_block(st.orelse, fr)
            out.absorb(fe)
            normal = fe.normal
        # handlers: the exception may have been raised anywhere in the body
        hstart = st0
        if fb.normal is not None:
            hstart = join_states(st0, fb.normal)
        for rs, _ in fb.raises:
            hstart = join_states(hstart, rs)
        for h in st.handlers:
            hs = hstart.copy()
            if h.name:
                hs.env[h.name] = AV(kind=K_OBJ, note="exception")
            fr.state = hs
            fh = self.exec_block(h.body, fr)
            out.absorb(fh)
            if fh.normal is not None:
                normal = join_states(normal, fh.normal)
        if not st.handlers:
            out.raises += fb.raises
        if st.finalbody:
            if normal is not None:
                fr.state = normal
                ff = self.exec_block(st.finalbody, fr)
                out.absorb(ff)
                normal = ff.normal
        out.normal = normal
        fr.state = normal
        return out

    def st_With(self, st, fr):
        for item in st.items:
            v = self.ev(item.context_expr, fr)
            if item.optional_vars is not None:
                self.assign(item.optional_vars, v, fr, st, quiet=True)
        return self.exec_block(st.body, fr)

    # ------------------------------------------------------------------ assignment
    def assign(self, target, v, fr, st, quiet=False):
        state = fr.state
        if isinstance(target, ast.Name):
            if v.kind == K_SCALAR and v.sym is None and v.shape == () and v.dtype in ("int", "top", "real"):
                v = v.replace(sym=LinExpr(fresh_atom("$v")))
            acc = self._is_accumulation(target.id, st, fr)
            if acc:
                v = v.replace(note="acc:" + target.id)
            elif not quiet and ("appended",) in state.facts and target.id in state.env and \
                    isinstance(st, (ast.Assign, ast.AugAssign, ast.AnnAssign)):
                state.facts = state.facts | frozenset([("reset", target.id)])
                if isinstance(v.note, str) and v.note.startswith("acc:"):
                    v = v.replace(note=None)
            state.env[target.id] = weaken_av(v, state.pc)
        elif isinstance(target, (ast.Tuple, ast.List)):
            n = len(target.elts)
            for i, t in enumerate(target.elts):
                if isinstance(t, ast.Starred):
                    self.assign(t.value, top_av(True, "starred unpack", self.atoms), fr, st)
                    continue
                self.assign(t, self.unpack_item(v, i, n, fr, st), fr, st, quiet)
        elif isinstance(target, ast.Attribute):
            base = self.ev(target.value, fr)
            self.store_attr(fr, base, target.attr, v, st)
        elif isinstance(target, ast.Subscript):
            base = self.ev(target.value, fr)
            idx = self.ev_index(target.slice, fr)
            # a store under a condition carries the condition's provenance (implicit flow), like a conditional rebinding does
            ptags = fr.state.pc.get("__tags__") if fr.state.pc else None
            if ptags and not (ptags <= v.tags):
                v = v.replace(tags=v.tags | ptags)
            self.store_subscript(fr, target, base, idx, v, st, how="subscript-store")
        else:
            self.unmodelled(fr, st, "assignment target " + type(target).__name__)

    def _is_accumulation(self, name, st, fr):
        """x = x + e  /  x += e  with e >= 0 (e evaluated in the current state)."""
        e = None
        if isinstance(st, ast.AugAssign) and isinstance(st.op, ast.Add) and isinstance(st.target, ast.Name) and \
                st.target.id == name:
            e = st.value
        elif isinstance(st, ast.Assign) and len(st.targets) == 1 and isinstance(st.value, ast.BinOp) and \
                isinstance(st.value.op, ast.Add):
            l, r = st.value.left, st.value.right
            if isinstance(l, ast.Name) and l.id == name:
                e = r
            elif isinstance(r, ast.Name) and r.id == name:
                e = l
        if e is None or name not in fr.state.env:
            return False
        ev = self.quiet_ev(e, fr)
        return ev is not None and is_nonneg(ev.sign) and ev.kind in (K_SCALAR, K_BOOL)

    def quiet_ev(self, e, fr):
        """Evaluate an expression without recording events (used for side conditions)."""
        saved, self.events = self.events, []
        ls, self.listeners = self.listeners, []
        stats = dict(self.stats)
        try:
            return self.ev(e, fr)
        except Exception:
            return None
        finally:
            self.events, self.listeners = saved, ls
            for k in ("stmts", "calls", "libcalls", "joins", "loops"):
                self.stats[k] = stats[k]

    def unpack_item(self, v, i, n, fr, st):
        if v.items is not None:
            if len(v.items) == n:
                return v.items[i]
            self.emit("unpack-mismatch", fr, st, have=len(v.items), want=n)
            return top_av(False, "unpack arity", self.atoms)
        if v.kind == K_ARRAY:
            sh = v.shape[1:] if v.shape else None
            return v.replace(shape=sh, kind=K_SCALAR if sh == () else K_ARRAY, items=None, const=_NOCONST,
                             sym=None)
        if v.elem is not None:
            return v.elem
        if v.kind == K_NONE:
            return top_av(False, "unpack None", self.atoms)
        return top_av(True, "unpack of unknown", self.atoms).replace(tags=v.tags, alg=dict(v.alg))

    def store_attr(self, fr, base, attr, v, st):
        state = fr.state
        if base.kind == K_OBJ and base.obj in state.heap:
            o = state.heap[base.obj]
            if o.cls is not None:
                setter = o.cls.find_setter(attr)
                if setter is not None:
                    self.emit("attr-write", fr, st, obj=o.id, attr=attr, via="setter", value=v, is_param=o.is_param)
                    params = setter.params
                    bound = {params[0]: base}
                    if len(params) > 1:
                        bound[params[1]] = v
                    self.call_function(setter, bound, state, fr, st, self_obj=o)
                    return
                prop = o.cls.find_property(attr)
                if prop is not None:
                    self.emit("attr-write", fr, st, obj=o.id, attr=attr, via="no-setter", value=v,
                              is_param=o.is_param)
                    return
            v = weaken_av(v, state.pc)
            old = o.attrs.get(attr)
            self.emit("attr-write", fr, st, obj=o.id, attr=attr, via="plain", value=v, old=old,
                      is_param=o.is_param, in_self=(fr.self_obj is not None and fr.self_obj.id == o.id))
            o.attrs[attr] = v
            return
        self.emit("attr-write", fr, st, obj=None, attr=attr, via="unknown-base", value=v, base=base)

    def store_subscript(self, fr, target, base, idx, v, st, how):
        state = fr.state
        if base.kind == K_DICT:
            key = idx.const if idx.has_const() else None
            nv = base
            if key is not None and isinstance(key, str):
                dv = dict(base.dvals or {})
                dv[key] = v
                nv = base.replace(dmust=(base.dmust or frozenset()) | {key},
                                  dmay=None if base.dmay is None else base.dmay | {key}, dvals=dv)
            else:
                nv = base.replace(dmay=None, elem=join_av(base.elem, v) if base.elem is not None else v)
            self._rebind_container(fr, target.value, nv, st, how)
            return
        if base.kind == K_OBJ:
            self.emit("obj-subscript-store", fr, st, base=base)
            return

        def upd(a, v=v, idx=idx):
            return self.elem_join(a, v, idx)
        if base.kind == K_ARRAY:
            tgt = self.api.subscript(self, fr, base, idx, target, quiet=True)
            self.emit("store-shape", fr, st, target_shape=tgt.shape, value_shape=self.api.as_num(v).shape, base=base, value=v,
                      index=idx)
            ts_, vs_ = tgt.shape, self.api.as_num(v).shape
            if ts_ is not None and vs_ is not None and len(ts_) == 1 and len(vs_) == 1 and ts_[0] is not None and vs_[0] is not None and \
                    how == "subscript-store" and not tgt.indef and not v.indef:
                d_ = ts_[0] - vs_[0]
                if d_.is_const() and d_.c != 0 and not (vs_[0].is_const() and vs_[0].c == 1):
                    # a[slice] = b with lengths that differ by a constant for every input (n - 1 slots for n values): ValueError
                    self.emit("type-error", fr, st, what="store of %r value(s) into %r slot(s): shapes cannot be broadcast (ValueError)" % (vs_[0], ts_[0]))
        self.mutate(fr, base, st, how, upd, index=idx, value=v)

    def _rebind_container(self, fr, expr, nv, st, how):
        if isinstance(expr, ast.Name):
            fr.state.env[expr.id] = nv
        elif isinstance(expr, ast.Attribute):
            b = self.ev(expr.value, fr)
            if b.kind == K_OBJ and b.obj in fr.state.heap:
                o = fr.state.heap[b.obj]
                self.emit("attr-write", fr, st, obj=o.id, attr=expr.attr, via="container-store", value=nv,
                          is_param=o.is_param, in_self=(fr.self_obj is not None and fr.self_obj.id == o.id))
                o.attrs[expr.attr] = nv

    def elem_join(self, arr, v, idx):
        """arr[idx] = v : the array is summarised by one abstract element."""
        alg = {}
        idx_atoms = idx.atoms() if idx is not None else set()
        # np.empty / np.empty_like: the uninitialised content is nobody's value (a correct program writes before it reads), so the first
        # store does not join with it; an np.empty array that is never written stays unknown
        fresh_empty = "alloc:empty" in arr.tags and arr.kind == K_ARRAY
        if fresh_empty:
            arr = arr.replace(tags=(arr.tags - frozenset(["alloc:empty"])) | frozenset(["alloc:empty-written"]), sign=v.sign if
                              v.kind in (K_SCALAR, K_BOOL, K_ARRAY) else S_ANY)
        for at in arr.atoms() | v.atoms() | idx_atoms:
            va = v.a(at)
            if idx is not None:
                va = alg_weaken(va, idx.a(at))
            alg[at] = alg_lub(ZERO if fresh_empty else arr.a(at), va)
        kind = arr.kind

        def pconst_store():
            ap = None
            k_, val_ = None, None
            if idx.kind == K_SCALAR and idx.has_const() and isinstance(idx.const, int) and not isinstance(idx.const, bool) and idx.const >= 0:
                k_ = idx.const
                if v.has_const() and isinstance(v.const, (int, float)) and not isinstance(v.const, bool):
                    val_ = v.const
            elif idx.kind == K_SLICE and idx.items is not None and idx.items[2] is None and idx.items[0] is not None and \
                    idx.items[1] is not None and idx.items[0].has_const() and idx.items[1].has_const() and \
                    isinstance(idx.items[0].const, int) and idx.items[0].const >= 0 and idx.items[1].const == idx.items[0].const + 1:
                k_ = idx.items[0].const
                if isinstance(v.parts, tuple) and v.parts and v.parts[0] == "elems" and len(v.parts[1]) == 1:
                    val_ = v.parts[1][0]
                elif v.shape == () and v.has_const() and isinstance(v.const, (int, float)) and not isinstance(v.const, bool):
                    val_ = v.const
            if k_ is not None and val_ is not None:
                ld = dict(arr.parts[2])
                ld[k_] = val_
                ap = ("pconst", arr.parts[1], tuple(sorted(ld.items())))
            elif idx.kind == K_SLICE and idx.items is not None and idx.items[2] is None and idx.items[1] is None and \
                    idx.items[0] is not None and idx.items[0].has_const() and isinstance(idx.items[0].const, int) and \
                    not isinstance(idx.items[0].const, bool) and idx.items[0].const >= 0 and isinstance(v.parts, tuple) and v.parts and \
                    v.parts[0] == "pconst":
                # x[k:] = (piecewise-constant tail): elements below k keep their values, the rest are the tail's
                k0 = idx.items[0].const
                ld = {i: (dict(arr.parts[2]).get(i, arr.parts[1])) for i in range(k0)}
                ld.update({i + k0: v_ for i, v_ in v.parts[2]})
                if len(ld) <= 4:
                    ap = ("pconst", v.parts[1], tuple(sorted(ld.items())))
            return ap

        # placeholder arrays (np.ones_like / np.empty ...) that are overwritten completely: x[:-1] = ..; x[-1] = ..
        cov = None
        full_sv = None
        if isinstance(arr.note, tuple) and arr.note and arr.note[0] == "init" and idx is not None and arr.shape is not None and len(arr.shape) == 1:
            reg = None
            if idx.kind == K_SLICE and idx.items is not None:
                lo, up, stp = idx.items
                lc = lo.const if (lo is not None and lo.has_const()) else ("none" if lo is None else "?")
                uc = up.const if (up is not None and up.has_const()) else ("none" if up is None else "?")
                if stp is None:
                    reg = {("none", -1): "all-but-last", (1, "none"): "all-but-first", ("none", "none"): "all", (0, "none"): "all",
                           (0, -1): "all-but-last"}.get((lc, uc))
            elif idx.kind == K_SCALAR and idx.has_const() and idx.const in (0, -1):
                reg = "first" if idx.const == 0 else "last"
            if reg is not None:
                _, stored, regions = arr.note
                stored = v if stored is None else join_av(stored, v)
                regions = regions | frozenset([reg])
                full = "all" in regions or {"all-but-last", "last"} <= regions or {"all-but-first", "first"} <= regions
                cov = ("init", stored, regions)
                if full:
                    sv = self.api.as_num(stored)
                    if isinstance(arr.parts, tuple) and arr.parts and arr.parts[0] == "pconst":
                        return arr.replace(alg=dict(sv.alg), sign=sv.sign, mono=frozenset(), f0=False, const=_NOCONST, parts=pconst_store(),
                                           tags=arr.tags | stored.tags | idx.tags, indef=arr.indef or stored.indef, note=cov)
                    # every element has been overwritten: the placeholder's own type no longer enters (the first-element and piece
                    # bookkeeping below still applies to this store)
                    full_sv = (sv, stored)
        keep_f0 = False
        if idx is not None and idx.kind == K_SCALAR and idx.has_const() and idx.const == 0 and not isinstance(idx.const, bool) and \
                arr.kind == K_ARRAY and arr.shape is not None and len(arr.shape) == 1 and v.has_const() and \
                isinstance(v.const, (int, float)) and not isinstance(v.const, bool) and v.const == 0:
            keep_f0 = True              # x[0] = 0 on a 1-D array: the first element is exactly zero from here on
        elif arr.f0 and idx is not None:
            last = idx.items[-1] if (idx.kind == K_TUPLE and idx.items) else idx
            if last is not None and last.kind == K_SLICE and last.items and last.items[0] is not None:
                lo = last.items[0]
                keep_f0 = lo.has_const() and isinstance(lo.const, int) and lo.const >= 1
        if arr.kind == K_LIST:
            return arr.replace(elem=join_av(arr.elem, v) if arr.elem is not None else v, items=None, parts=None,
                               tags=arr.tags | v.tags, indef=arr.indef or v.indef, mono=frozenset(), note=None,
                               shape=None, alg=alg, sign=sign_join(arr.sign, v.sign) if v.kind in (K_SCALAR, K_BOOL, K_ARRAY) else S_ANY)
        ap = None
        if isinstance(arr.parts, tuple) and arr.parts and arr.parts[0] == "ap" and idx is not None:
            if idx.kind == K_SLICE and idx.items is not None and idx.items[0] is not None and idx.items[0].has_const() and \
                    idx.items[0].const == 1 and idx.items[1] is None and idx.items[2] is None and isinstance(v.parts, tuple) and \
                    v.parts[0] == "ap-tail" and v.parts[1] == arr.parts[1]:
                ap = ("ap", arr.parts[1], arr.parts[2], v.parts[2])          # x[1:] = (its own tail, shifted)
            elif idx.kind == K_SLICE and idx.items is not None and idx.items[1] is None and idx.items[2] is None and \
                    (idx.items[0] is None or (idx.items[0].has_const() and idx.items[0].const == 0)) and isinstance(v.parts, tuple) and \
                    v.parts and v.parts[0] == "ap":
                ap = v.parts                                                   # x[0:] = (the whole progression, shifted): every element replaced
            elif idx.kind == K_SLICE and idx.items is not None and idx.items[0] is not None and idx.items[0].has_const() and \
                    isinstance(v.parts, tuple) and v.parts and v.parts[0] == "ap-tail-k" and idx.items[0].const == v.parts[1] and \
                    idx.items[1] is None and idx.items[2] is None and v.parts[2] == arr.parts[1]:
                # x[k:] = (its own elements from k on, shifted) with k >= 2: the same progression when the shift is 0, otherwise a progression
                # broken at k (elements 1..k-1 keep the old offset): recorded as such, a definite shape
                ap = arr.parts if v.parts[3] == arr.parts[3] else ("ap-broken", v.parts[1], arr.parts[1], arr.parts[2], arr.parts[3], v.parts[3])
            elif idx.kind == K_SCALAR and idx.has_const() and idx.const == 0 and v.has_const() and isinstance(v.const, (int, float)) and \
                    not isinstance(v.const, bool):
                ap = ("ap", arr.parts[1], v.const, arr.parts[3])             # x[0] = c
            elif idx.kind == K_SLICE and idx.items is not None and idx.items[2] is None and \
                    (idx.items[0] is None or (idx.items[0].has_const() and idx.items[0].const == 0)) and idx.items[1] is not None and \
                    idx.items[1].has_const() and idx.items[1].const == 1 and not isinstance(idx.items[1].const, bool) and v.shape == () and \
                    v.has_const() and isinstance(v.const, (int, float)) and not isinstance(v.const, bool):
                ap = ("ap", arr.parts[1], v.const, arr.parts[3])             # x[:1] = c  (the same element)
        if ap is None and isinstance(arr.parts, tuple) and arr.parts and arr.parts[0] == "non-ap" and idx is not None and idx.kind == K_SLICE and \
                idx.items is not None and idx.items[0] is not None and idx.items[0].has_const() and isinstance(idx.items[0].const, int) and \
                idx.items[0].const >= 1:
            ap = arr.parts          # element 0 (c / b of the progression's first element) is not touched by a store from position >= 1 on
        if ap is None and isinstance(arr.parts, tuple) and arr.parts and arr.parts[0] == "pconst" and idx is not None:
            ap = pconst_store()
        # an uninitialised 1-D buffer filled piece by piece: x[0] = a; x[1:-1] = middle; x[-1] = b  (each region once, nothing else) is
        # the assembly [a, middle..., b] that np.insert / np.concatenate would build
        if ap is None and arr.kind == K_ARRAY and arr.shape is not None and len(arr.shape) == 1 and idx is not None and \
                (fresh_empty or (isinstance(arr.parts, tuple) and arr.parts and arr.parts[0] == "build")):
            region = None

            def from_end(x):
                """-k when the index is provably (length - k), k >= 1: x[n_items + 1] of a buffer of n_items + 2 slots is x[-1]"""
                if x is None or x.has_const() or x.sym is None or arr.shape[0] is None:
                    return None
                d_ = LinExpr(arr.shape[0]) - x.sym
                return -int(d_.c) if (d_.is_const() and d_.c >= 1 and d_.c == int(d_.c)) else None
            if idx.kind == K_SCALAR and idx.has_const() and idx.const in (0, -1) and not isinstance(idx.const, bool):
                region = "first" if idx.const == 0 else "last"
            elif idx.kind == K_SCALAR and from_end(idx) == -1:
                region = "last"
            elif idx.kind == K_SLICE and idx.items is not None and idx.items[2] is None and idx.items[0] is not None and \
                    idx.items[1] is not None and idx.items[0].has_const() and idx.items[0].const == 1 and \
                    ((idx.items[1].has_const() and idx.items[1].const == -1) or from_end(idx.items[1]) == -1):
                region = "mid"
            elif idx.kind == K_SLICE and idx.items is not None and idx.items[2] is None and idx.items[0] is not None and \
                    idx.items[1] is None and idx.items[0].has_const() and idx.items[0].const == 1 and not isinstance(idx.items[0].const, bool):
                region = "rest"         # x[1:] = ...
            elif idx.kind == K_SLICE and idx.items is not None and idx.items[2] is None and idx.items[0] is None and \
                    idx.items[1] is not None and idx.items[1].has_const() and idx.items[1].const == -1:
                region = "head"         # x[:-1] = ...
            cur = dict(arr.parts[1]) if not fresh_empty else {}
            clash = {"mid": ("rest", "head"), "rest": ("mid", "head", "last"), "head": ("mid", "rest", "first"), "first": ("head",), "last": ("rest",)}
            if region is not None and region not in cur and not any(c_ in cur for c_ in clash.get(region, ())):
                d = self.api._part_desc(v) if region in ("first", "last") else (("arr", v.tags) if v.kind == K_ARRAY else None)
                if d is not None:
                    cur[region] = d
                    if {"first", "mid", "last"} <= set(cur):
                        ap = (cur["first"], cur["mid"], cur["last"])
                    elif {"first", "rest"} <= set(cur):
                        ap = (cur["first"], cur["rest"])             # [a, rest...]: what np.insert(rest, 0, a) builds
                    elif {"head", "last"} <= set(cur):
                        ap = (cur["head"], cur["last"])
                    else:
                        ap = ("build", tuple(sorted(cur.items())))
        if full_sv is not None:
            sv, stored = full_sv
            return arr.replace(alg=dict(sv.alg), sign=sv.sign, mono=frozenset(), f0=keep_f0, const=_NOCONST, parts=ap,
                               tags=arr.tags | stored.tags | idx.tags, indef=arr.indef or stored.indef, note=cov)
        return arr.replace(note=cov if cov is not None else (arr.note if not (isinstance(arr.note, tuple) and arr.note and arr.note[0] == "init") else None),
                           parts=ap,
                           alg=alg, sign=sign_join(arr.sign, v.sign), mono=frozenset(), f0=keep_f0, const=_NOCONST,
                           tags=arr.tags | v.tags | (idx.tags if idx is not None else frozenset()),
                           indef=arr.indef or v.indef, kind=kind)

    def mutate(self, fr, target, node, how, update, strong=False, index=None, value=None):
        """An in-place effect on the storage `target` refers to; updates every alias."""
        state = fr.state
        if value is not None and target.kind == K_ARRAY and target.dtype in ("int", "bool") and \
                self.api.as_num(value).dtype in ("real", "complex"):
            self.emit("dtype-truncation", fr, node, target=target, value=value, how=how)
        toks = frozenset(t for t in target.origin if t not in ("lit", "?"))
        self.emit("mutation", fr, node, origins=target.origin, how=how, target=target, index=index, value=value)
        structural = how in ("augassign", "subscript-store", "augassign-subscript", "out=")     # these compute `parts` themselves
        new_t = update(target)
        if not structural and new_t.parts is not None:
            new_t = new_t.replace(parts=None)

        def visit(av):
            if av.kind in (K_ARRAY, K_LIST, K_TOP, K_DICT) and (av.origin & toks):
                if strong and av.origin == target.origin:
                    return new_t.replace(shape=av.shape if new_t.shape is None else new_t.shape)
                u = update(av)
                if u.parts is not None and not (structural and av.origin == target.origin and av.shape == target.shape):
                    u = u.replace(parts=None)          # another view of the storage: its own piece structure is no longer known
                return u
            return None
        for k, av in list(state.env.items()):
            n = visit(av)
            if n is not None:
                state.env[k] = n
        for o in state.heap.values():
            for k, av in list(o.attrs.items()):
                n = visit(av)
                if n is not None:
                    o.attrs[k] = n
        return new_t

    # ------------------------------------------------------------------ iteration
    def iter_elem(self, it, fr, node):
        """(element AV, trip-count pc, definitely_nonempty)"""
        trip = {}
        for at in it.atoms():
            c = alg_shape(it.a(at)) if it.kind != K_SCALAR else it.a(at)
            if it.note == "range":
                c = it.a(at)
            if c[0] not in ("const", "zero"):
                trip[at] = c
        if it.tags - frozenset(["loopvar"]):
            trip["__tags__"] = it.tags
        if it.note == "range":
            e = AV(kind=K_SCALAR, dtype="int", shape=(), sym=LinExpr(fresh_atom("$i")), sign=it.sign,
                   alg=dict(it.alg), tags=it.tags | frozenset(["loopvar"]), indef=it.indef)
            return e, trip, False
        if it.note == "enumerate" and it.elem is not None:
            i = AV(kind=K_SCALAR, dtype="int", shape=(), sym=LinExpr(fresh_atom("$i")), sign=S_NONNEG,
                   tags=frozenset(["loopvar"]))
            return AV(kind=K_TUPLE, items=(i, it.elem)), trip, False
        if it.items is not None:
            e = None
            for x in it.items:
                e = join_av(e, x)
            if e is None:
                e = top_av(False, "empty iteration", self.atoms)
            return e, trip, len(it.items) > 0
        if it.kind == K_ARRAY:
            sh = it.shape[1:] if it.shape else None
            return it.replace(shape=sh, kind=K_SCALAR if sh == () else K_ARRAY, const=_NOCONST, sym=None, parts=None,
                              tags=it.tags | frozenset(["loopvar"]),         # the element varies with the iteration, like x[i] does
                              origin=it.origin if sh not in ((), None) else frozenset(["lit"])), trip, False
        if it.elem is not None:
            return it.elem, trip, False
        if it.kind == K_STR:
            return AV(kind=K_STR), trip, False
        return top_av(True, "iteration over unknown", self.atoms).replace(tags=it.tags), trip, False

    # ------------------------------------------------------------------ expressions
    def ev(self, e, fr):
        m = getattr(self, "ex_" + type(e).__name__, None)
        if m is None:
            return self.unmodelled(fr, e, "expression " + type(e).__name__)
        v = m(e, fr)
        hook = getattr(self, "expr_hook", None)
        if hook is not None:
            v2 = hook(fr, e, v)
            if v2 is not None:
                return v2
        return v

    def ex_Constant(self, e, fr):
        if e.value is Ellipsis:
            return AV(kind=K_SLICE, note="ellipsis")
        return const_av(e.value)

    def ex_Name(self, e, fr):
        env = fr.state.env
        if e.id in env:
            return env[e.id]
        r = self.P.resolve_name(fr.module, e.id, fr.limports)
        if r is not None:
            return self.ref_av(r)
        if e.id in BUILTINS:
            if e.id == "True":
                return const_av(True)
            if e.id == "False":
                return const_av(False)
            if e.id == "None":
                return const_av(None)
            return AV(kind=K_FUNC, ref=("builtin", e.id))
        if e.id == "__name__":
            return AV(kind=K_STR)
        mv = self.module_value(fr, e.id)
        if mv is not None:
            return mv
        self.emit("unbound-name", fr, e, name=e.id)
        return top_av(True, "unbound name %s" % e.id, self.atoms)

    # ------------------------------------------------------------------ module-level data
    _MUTATORS = {"append", "extend", "insert", "pop", "remove", "clear", "update", "setdefault", "popitem", "sort", "reverse", "add", "discard",
                 "fill", "put", "resize", "itemset", "move_to_end", "appendleft", "popleft"}

    def module_value(self, fr, name):
        """A name bound once at the top level of the module to a data expression (a table of constants, functions, lambdas; a number built
        from library constants).  When nothing in the module ever writes through the name it is a constant and its value is the
        interpretation of that expression.  When some function stores into it (a memo, a registry filled at run time) its content at the
        time of a call is whatever earlier calls left there: the value is *state kept between calls* -- unknown content, origin `g:<module>.<name>`
        so that an in-place effect on anything read from it is visible to the rules."""
        mod = fr.module
        key = (mod.name, name)
        cache = self.__dict__.setdefault("_modvals", {})
        if key in cache:
            return cache[key]
        cache[key] = None                # (re-entrancy: a table that mentions itself)
        assigns = [st for st in mod.tree.body if isinstance(st, (ast.Assign, ast.AnnAssign)) and
                   ((isinstance(st, ast.Assign) and len(st.targets) == 1 and isinstance(st.targets[0], ast.Name) and st.targets[0].id == name) or
                    (isinstance(st, ast.AnnAssign) and isinstance(st.target, ast.Name) and st.target.id == name and st.value is not None))]
        if len(assigns) != 1:
            return None
        written = False
        for fn_ in ast.walk(mod.tree):
            if not isinstance(fn_, (ast.FunctionDef, ast.Lambda)):
                continue
            local = set()
            if isinstance(fn_, ast.FunctionDef):
                local = {a.arg for a in fn_.args.args + fn_.args.kwonlyargs} | {n.id for n in ast.walk(fn_) if isinstance(n, ast.Name) and isinstance(n.ctx, ast.Store)}
                globs = {g for n in ast.walk(fn_) if isinstance(n, ast.Global) for g in n.names}
                if name in globs:
                    written = True
                    break
                if name in local:
                    continue
            for n in ast.walk(fn_):
                base = None
                if isinstance(n, (ast.Subscript, ast.Attribute)) and isinstance(n.ctx, (ast.Store, ast.Del)):
                    base = n.value
                elif isinstance(n, ast.Call) and isinstance(n.func, ast.Attribute) and n.func.attr in self._MUTATORS:
                    base = n.func.value
                while isinstance(base, (ast.Subscript, ast.Attribute)):
                    base = base.value
                if isinstance(base, ast.Name) and base.id == name:
                    written = True
                    break
            if written:
                break
        tok = "g:%s.%s" % (mod.name, name)
        rhs = assigns[0].value
        if written:
            kind = K_DICT if isinstance(rhs, (ast.Dict, ast.DictComp)) or (isinstance(rhs, ast.Call) and ast.unparse(rhs.func).split(".")[-1] in
                                                                           ("dict", "OrderedDict", "defaultdict")) else \
                (K_LIST if isinstance(rhs, (ast.List, ast.ListComp)) else K_TOP)
            elem = top_av(True, "state kept between calls in %s" % name, self.atoms).replace(origin=frozenset([tok]), tags=frozenset(["modstate"]))
            if kind == K_DICT:
                v = AV(kind=K_DICT, dvals={}, dmust=frozenset(), dmay=None, elem=elem, origin=frozenset([tok]), tags=frozenset(["modstate", "modstate-container"]))
            elif kind == K_LIST:
                v = AV(kind=K_LIST, elem=elem, origin=frozenset([tok]), tags=frozenset(["modstate", "modstate-container"]))
            else:
                v = elem.replace(tags=frozenset(["modstate", "modstate-container"]))
            self.emit("module-state", fr, assigns[0], name=name, module=mod.name, what="read of state kept between calls")
            cache[key] = v
            return v
        try:
            mfr = Frame(fr.fi, State(), self)
            mfr.module = mod
            v = self.ev(rhs, mfr)
        except Exception:
            return None
        cache[key] = v
        return v

    def ref_av(self, r):
        if r[0] == "func":
            return AV(kind=K_FUNC, ref=r)
        if r[0] == "class":
            return AV(kind=K_CLASS, ref=r)
        if r[0] == "module":
            return AV(kind=K_MODULE, ref=r)
        if r[0] == "lib":
            c = self.api.lib_constant(r[1])
            if c is not None:
                return c
            return AV(kind=K_FUNC, ref=r)
        return AV(kind=K_TOP)

    def ex_Attribute(self, e, fr):
        # static dotted resolution first (np.fft.fft, dh.pseudo_response_spectra, eqsig.im...)
        root = e
        while isinstance(root, ast.Attribute):
            root = root.value
        if isinstance(root, ast.Name) and root.id not in fr.state.env:
            r = self.P.resolve_expr(fr.module, e, fr.limports)
            if r is not None:
                if r[0] == "func" and r[1].cls is not None and "classmethod" in [ast.unparse(d) for d in r[1].node.decorator_list]:
                    return AV(kind=K_FUNC, ref=("bound", r[1], AV(kind=K_CLASS, ref=("class", r[1].cls))))     # Class.method binds the class
                return self.ref_av(r)
        base = self.ev(e.value, fr)
        return self.load_attr(fr, base, e.attr, e)

    def load_attr(self, fr, base, attr, node):
        state = fr.state
        if base.kind == K_OBJ and base.obj in state.heap:
            o = state.heap[base.obj]
            if o.cls is not None:
                meth = o.cls.find_method(attr)
                if meth is not None:
                    if meth.is_property:
                        self.emit("attr-read", fr, node, obj=o.id, attr=attr, via="property", is_param=o.is_param)
                        ret, _, _ = self.call_function(meth, {meth.params[0]: base}, state, fr, node, self_obj=o)
                        return ret
                    decos = [ast.unparse(d) for d in meth.node.decorator_list]
                    if "staticmethod" in decos:
                        return AV(kind=K_FUNC, ref=("func", meth))
                    if "classmethod" in decos:
                        return AV(kind=K_FUNC, ref=("bound", meth, AV(kind=K_CLASS, ref=("class", o.cls))))
                    return AV(kind=K_FUNC, ref=("bound", meth, base))
            if attr in o.attrs:
                self.emit("attr-read", fr, node, obj=o.id, attr=attr, via="plain", is_param=o.is_param)
                v = o.attrs[attr]
                return v
            if o.cls is not None:
                ce = o.cls.find_class_attr(attr)
                if ce is not None:
                    self.emit("attr-read", fr, node, obj=o.id, attr=attr, via="class-attr", is_param=o.is_param)
                    try:
                        return const_av(ast.literal_eval(ce))
                    except Exception:
                        return top_av(True, "class attribute", self.atoms)
            self.emit("attr-read", fr, node, obj=o.id, attr=attr, via="missing", is_param=o.is_param)
            return top_av(True, "attribute %s not modelled on object" % attr, self.atoms)
        if base.kind == K_OBJ and base.note == "dtype" and attr == "names":
            e = AV(kind=K_STR, tags=frozenset(["dtype-names"]))
            return AV(kind=K_TUPLE, elem=e, tags=frozenset(["dtype-names"]))
        if base.kind == K_MODULE and base.ref:
            r = self.P.module_attr(base.ref[1], attr) if base.ref[1] in self.P.modules else ("lib", base.ref[1] + "." + attr)
            if r is not None:
                return self.ref_av(r)
        if base.kind == K_FUNC and base.ref and base.ref[0] == "lib":
            return self.ref_av(("lib", base.ref[1] + "." + attr))
        if base.kind == K_CLASS and base.ref:
            meth = base.ref[1].find_method(attr)
            if meth is not None:
                if "classmethod" in [ast.unparse(d) for d in meth.node.decorator_list]:
                    return AV(kind=K_FUNC, ref=("bound", meth, base))        # Class.method(...) binds the class itself
                return AV(kind=K_FUNC, ref=("func", meth))
        if base.kind in (K_ARRAY, K_SCALAR, K_TOP, K_BOOL) and base.kind != K_TOP or (base.kind == K_TOP and attr in self.api.ND_ATTRS):
            v = self.api.nd_attr(self, fr, base, attr, node)
            if v is not None:
                return v
        if base.kind in (K_ARRAY, K_SCALAR, K_LIST, K_STR, K_DICT, K_TUPLE, K_TOP, K_BOOL, K_OBJ):
            return AV(kind=K_FUNC, ref=("method", attr, base))
        if base.kind == K_FUNC and attr in ("__name__", "__qualname__", "__module__", "__doc__"):
            return AV(kind=K_STR, tags=frozenset(["func-name"]))       # some text: two different callables may share it
        return self.unmodelled(fr, node, "attribute %s of %s" % (attr, base.kind))

    def ex_Tuple(self, e, fr):
        items = tuple(self.ev(x, fr) for x in e.elts)
        tags = frozenset().union(*[i.tags for i in items]) if items else frozenset()
        return AV(kind=K_TUPLE, items=items, origin=frozenset(["lit"]), tags=tags,
                  indef=any(i.indef for i in items))

    def ex_List(self, e, fr):
        items = tuple(self.ev(x, fr) for x in e.elts)
        elem = None
        for i in items:
            elem = join_av(elem, i)
        tags = frozenset().union(*[i.tags for i in items]) if items else frozenset()
        num = all(i.kind in (K_SCALAR, K_BOOL, K_ARRAY) for i in items)
        sign = S_ZERO if num else S_ANY  # an empty list / a list of literal zeros is compatible with every class
        for i in items:
            sign = sign_join(sign, i.sign) if num else S_ANY
        return AV(kind=K_LIST, items=items, elem=elem, origin=frozenset([self.alloc_tok(fr, e)]), tags=tags,
                  indef=any(i.indef for i in items), alg=self.api.alg_lub_many(list(items)) if (items and num) else {},
                  sign=sign, mono=frozenset([0]) if not items else frozenset())

    def ex_Dict(self, e, fr):
        dv = {}
        ok = True
        for k, v in zip(e.keys, e.values):
            vv = self.ev(v, fr)
            if isinstance(k, ast.Constant) and isinstance(k.value, str):
                dv[k.value] = vv
            else:
                try:
                    kk = ast.literal_eval(k) if k is not None else None          # numbers, booleans, None, tuples of those
                    hash(kk)
                    if k is None:
                        raise ValueError
                    dv[kk] = vv
                except Exception:
                    ok = False
        ks = frozenset(dv)
        return AV(kind=K_DICT, dvals=dv, dmust=ks, dmay=ks if ok else None,
                  origin=frozenset([self.alloc_tok(fr, e)]))

    def ex_Set(self, e, fr):
        for x in e.elts:
            self.ev(x, fr)
        return AV(kind=K_TOP, note="set")

    def alloc_tok(self, fr, node):
        return "a@%s:%s:%s" % (fr.fi.qualname, getattr(node, "lineno", 0), getattr(node, "col_offset", 0))

    def ex_JoinedStr(self, e, fr):
        for v in e.values:
            if isinstance(v, ast.FormattedValue):
                self.ev(v.value, fr)
        return AV(kind=K_STR)

    def ex_Lambda(self, e, fr):
        return self.local_function(e, fr)

    def ex_Starred(self, e, fr):
        return self.ev(e.value, fr)

    def ex_IfExp(self, e, fr):
        t = self.ev(e.test, fr)
        tv = truthiness(t)
        if tv is True:
            return self.ev(e.body, fr)
        if tv is False:
            return self.ev(e.orelse, fr)
        a, b = self.ev(e.body, fr), self.ev(e.orelse, fr)
        return weaken_av(join_av(a, b), self.cond_pc(t))

    def ex_ListComp(self, e, fr):
        saved = dict(fr.state.env)
        for g in e.generators:
            it = self.ev(g.iter, fr)
            elem, trip, _ = self.iter_elem(it, fr, e)
            self.assign(g.target, elem, fr, fr.cur_stmt, quiet=True)
            for c in g.ifs:
                self.ev(c, fr)
        v = self.ev(e.elt, fr)
        fr.state.env = saved
        return AV(kind=K_LIST, elem=v, origin=frozenset([self.alloc_tok(fr, e)]), tags=v.tags, indef=v.indef,
                  alg=dict(v.alg))

    ex_GeneratorExp = ex_ListComp

    def ex_DictComp(self, e, fr):
        # {k: v for ...}: a dictionary whose keys are not enumerated; every value is the join element
        saved = dict(fr.state.env)
        if len(e.generators) == 1 and isinstance(e.generators[0].target, ast.Name):
            # ... unless it runs over the keys of a dictionary all of whose keys are known (or a short literal sequence of constants): then it
            # is run key by key, exactly
            g = e.generators[0]
            it = self.ev(g.iter, fr)
            keys = None
            if it.kind == K_DICT and it.dmay is not None and it.elem is None and it.dvals is not None and set(it.dmay) <= set(it.dvals) and len(it.dvals) <= 12:
                keys = [const_av(k_) for k_ in it.dvals if k_ in it.dmay]
                certain_ = {k_: (k_ in (it.dmust or ())) for k_ in it.dvals}
            elif it.kind in (K_TUPLE, K_LIST) and it.items is not None and len(it.items) <= 12 and all(x is not None and x.has_const() for x in it.items):
                keys = list(it.items)
                certain_ = {x.const: True for x in keys}
            if keys is not None:
                dv, must, ok_ = {}, set(), True
                for kav in keys:
                    fr.state.env = dict(saved)
                    fr.state.env[g.target.id] = kav
                    verdicts = [truthiness(self.ev(c, fr)) for c in g.ifs]
                    if any(v_ is False for v_ in verdicts):
                        continue
                    kk = self.ev(e.key, fr)
                    if not kk.has_const():
                        ok_ = False
                        break
                    vv = self.ev(e.value, fr)
                    dv[kk.const] = join_av(dv[kk.const], vv) if kk.const in dv else vv
                    if all(v_ is True for v_ in verdicts) and certain_.get(kav.const, False):
                        must.add(kk.const)
                fr.state.env = saved
                if ok_:
                    return AV(kind=K_DICT, dvals=dv, dmust=frozenset(must), dmay=frozenset(dv), origin=frozenset([self.alloc_tok(fr, e)]))
        for g in e.generators:
            it = self.ev(g.iter, fr)
            elem, trip, _ = self.iter_elem(it, fr, e)
            self.assign(g.target, elem, fr, fr.cur_stmt, quiet=True)
            for c in g.ifs:
                if truthiness(self.ev(c, fr)) is False:
                    fr.state.env = saved
                    return AV(kind=K_DICT, dvals={}, dmust=frozenset(), dmay=frozenset(), origin=frozenset([self.alloc_tok(fr, e)]))
        self.ev(e.key, fr)
        v = self.ev(e.value, fr)
        fr.state.env = saved
        return AV(kind=K_DICT, elem=v, dvals={}, dmust=frozenset(), dmay=None, origin=frozenset([self.alloc_tok(fr, e)]))

    def ex_Slice(self, e, fr):
        parts = []
        for p in (e.lower, e.upper, e.step):
            parts.append(self.ev(p, fr) if p is not None else None)
        alg = {}
        tags = frozenset()
        indef = False
        for p in parts:
            if p is not None and self.api.definitely_not_integer(p):
                # x[a:b] with a bound that is a float for certain (the result of `/`, a float literal ...): TypeError for every input
                self.emit("type-error", fr, e, what="slice bound is a float (`%s`): slice indices must be integers" % " ".join(ast.unparse(e).split()))
            if p is not None and p.kind == K_NONE and False:
                pass
        for p in parts:
            if p is not None:
                for at in p.atoms():
                    alg[at] = alg_lub(alg.get(at, CONST), p.a(at))
                tags |= p.tags
                indef = indef or p.indef
        note = None
        if e.lower is not None and e.upper is not None and e.step is None and isinstance(e.upper, ast.BinOp) and isinstance(e.upper.op, ast.Add):
            # x[a:a + k]: k elements whatever the offset a is (bounds assumed inside the array, as everywhere): kept for offsets that have no
            # symbolic value of their own (an offset chosen by a conditional expression, joined over branches)
            lo_txt = ast.dump(e.lower)
            for a_, k_ in ((e.upper.left, e.upper.right), (e.upper.right, e.upper.left)):
                if ast.dump(a_) == lo_txt and not any(isinstance(x, ast.Call) for x in ast.walk(a_)):
                    kv = self.ev(k_, fr)
                    if kv.sym is not None and kv.kind == K_SCALAR:
                        note = ("span", kv.sym)
                    break
        return AV(kind=K_SLICE, items=tuple(parts), alg=alg, tags=tags, indef=indef, note=note)

    def ev_index(self, s, fr):
        return self.ev(s, fr)

    def ex_UnaryOp(self, e, fr):
        v = self.ev(e.operand, fr)
        if isinstance(e.op, ast.Not):
            tv = truthiness(v)
            if tv is not None:
                return const_av(not tv)
            return AV(kind=K_BOOL, dtype="bool", shape=(), alg=dict(v.alg), tags=v.tags, indef=v.indef)
        if isinstance(e.op, ast.USub):
            return self.api.negate(v)
        if isinstance(e.op, ast.UAdd):
            return v
        if isinstance(e.op, ast.Invert):
            return v.replace(const=_NOCONST)
        return self.unmodelled(fr, e, "unary op")

    @staticmethod
    def _adjacent_pair(a, b):
        """x[1:] and x[:-1] (either order) of one and the same expression x"""
        def sl(n):
            s_ = n.slice if isinstance(n, ast.Subscript) else None
            if isinstance(s_, ast.Tuple) and len(s_.elts) == 2 and isinstance(s_.elts[0], ast.Constant) and s_.elts[0].value is Ellipsis:
                s_ = s_.elts[1]                 # y[..., 1:] / y[..., :-1]: the same pair along the last axis
            if isinstance(n, ast.Subscript) and isinstance(s_, ast.Slice) and s_.step is None:
                lo, up = s_.lower, s_.upper
                one = lambda c, v: isinstance(c, ast.Constant) and c.value == v and not isinstance(c.value, bool)
                neg1 = isinstance(up, ast.UnaryOp) and isinstance(up.op, ast.USub) and one(up.operand, 1)
                if one(lo, 1) and up is None:
                    return "tail", ast.dump(n.value)
                if lo is None and (neg1 or one(up, -1)):
                    return "head", ast.dump(n.value)
            return None, None
        (ka, xa), (kb, xb) = sl(a), sl(b)
        return ka is not None and kb is not None and ka != kb and xa == xb

    def ex_BinOp(self, e, fr):
        l = self.ev(e.left, fr)
        r = self.ev(e.right, fr)
        v = self.binop(e.op, l, r, fr, e)
        if isinstance(e.op, ast.Add) and self._adjacent_pair(e.left, e.right) and v.kind == K_ARRAY:
            v = v.replace(tags=v.tags | frozenset(["pairsum"]))        # y[1:] + y[:-1]: the integrand sums of the trapezoid rule
        return v

    def binop(self, op, l, r, fr, node):
        return self.api.binop(self, fr, op, l, r, node)

    def ex_BoolOp(self, e, fr):
        # short-circuit: later operands are evaluated only if needed
        vals = []
        for i, x in enumerate(e.values):
            v = self.ev(x, fr)
            tv = truthiness(v)
            if isinstance(e.op, ast.Or) and tv is True:
                if not vals:
                    return v
                vals.append(v)
                break
            if isinstance(e.op, ast.And) and tv is False:
                if not vals:
                    return v
                vals.append(v)
                break
            if tv is not None and i < len(e.values) - 1:
                continue  # neutral operand
            vals.append(v)
        if len(vals) == 1:
            return vals[0]
        out = None
        for v in vals:
            out = join_av(out, v)
        # the selection among operands depends on every operand's truth value
        pc = {}
        for v in vals[:-1]:
            for at, c in self.cond_pc(v).items():
                pc_merge(pc, at, c)
        return weaken_av(out.replace(const=_NOCONST), pc)

    def ex_Compare(self, e, fr):
        left = self.ev(e.left, fr)
        res = None
        for op, comp in zip(e.ops, e.comparators):
            right = self.ev(comp, fr)
            r = self.api.compare(self, fr, op, left, right, e)
            res = r if res is None else self.api.logical_and(res, r)
            left = right
        return res

    def ex_Subscript(self, e, fr):
        base = self.ev(e.value, fr)
        idx = self.ev_index(e.slice, fr)
        return self.api.subscript(self, fr, base, idx, e)

    def ex_Call(self, e, fr):
        f = self.ev(e.func, fr)
        args = []
        for a in e.args:
            if isinstance(a, ast.Starred):
                sv = self.ev(a.value, fr)
                if sv.items is not None:
                    args.extend(sv.items)
                else:
                    args.append(top_av(True, "star-args", self.atoms))
            else:
                args.append(self.ev(a, fr))
        kwargs = {}
        for k in e.keywords:
            v = self.ev(k.value, fr)
            if k.arg is None:
                if v.kind == K_DICT and v.dvals is not None and v.dmay is not None:
                    kwargs.update(v.dvals)
                else:
                    kwargs["**"] = v
            else:
                kwargs[k.arg] = v
        return self.call(fr, f, args, kwargs, e)

    # ------------------------------------------------------------------ calls
    def call(self, fr, f, args, kwargs, node):
        ref = f.ref
        if f.kind == K_CLASS and ref:
            return self.instantiate(fr, ref[1], args, kwargs, node)
        if f.kind != K_FUNC or ref is None:
            return self.unmodelled(fr, node, "call of non-resolved callable %s" % ast.unparse(node.func))
        t = ref[0]
        if t == "set":
            # one of a few known callables: the call may be any of them, the result is the join of theirs
            out = None
            for m_ in ref[1]:
                out = join_av(out, self.call(fr, f.replace(ref=m_), args, kwargs, node))
            return out
        if t == "func":
            return self.call_user(fr, ref[1], args, kwargs, node)
        if t == "bound":
            return self.call_user(fr, ref[1], [ref[2]] + list(args), kwargs, node, self_av=ref[2])
        if t == "lib":
            return self.api.call_lib(self, fr, ref[1], args, kwargs, node)
        if t == "builtin":
            return self.api.call_builtin(self, fr, ref[1], args, kwargs, node)
        if t == "method":
            return self.api.call_method(self, fr, ref[1], ref[2], args, kwargs, node)
        if t == "opaque-callable":
            return self.api.call_opaque(self, fr, ref, args, kwargs, node)
        if t == "closure":
            return ref[1](self, fr, args, kwargs, node)
        if t == "opaque":
            return self.unmodelled(fr, node, "call of local function/lambda")
        return self.unmodelled(fr, node, "call kind %s" % t)

    def bind(self, fi, args, kwargs, fr, node):
        bound = {}
        params = fi.params
        args = list(args)
        extra_pos = []
        for i, a in enumerate(args):
            if i < len(params):
                bound[params[i]] = a
            else:
                extra_pos.append(a)
        extra_kw = {}
        for k, v in kwargs.items():
            if k == "**":
                continue
            if k in params or k in fi.kwonly:
                bound[k] = v
            else:
                extra_kw[k] = v
        for p in list(params) + list(fi.kwonly):
            if p not in bound:
                if p in fi.defaults:
                    bound[p] = self.ev_default(fi, fi.defaults[p])
                else:
                    self.emit("missing-arg", fr, node, callee=fi.qualname, param=p)
                    bound[p] = top_av(True, "missing argument", self.atoms)
        if fi.vararg:
            bound[fi.vararg] = AV(kind=K_TUPLE, items=tuple(extra_pos))
        elif extra_pos:
            self.emit("arity", fr, node, callee=fi.qualname)
        if fi.kwarg:
            unknown = "**" in kwargs
            ks = frozenset(extra_kw)
            bound[fi.kwarg] = AV(kind=K_DICT, dvals=dict(extra_kw), dmust=ks, dmay=None if unknown else ks)
        elif extra_kw:
            self.emit("bad-keyword", fr, node, callee=fi.qualname, names=sorted(extra_kw))
        return bound

    def ev_default(self, fi, expr):
        try:
            return const_av(ast.literal_eval(expr))
        except Exception:
            pass
        if isinstance(expr, ast.Tuple):
            try:
                return AV(kind=K_TUPLE, items=tuple(const_av(ast.literal_eval(x)) for x in expr.elts))
            except Exception:
                pass
        return top_av(True, "non-literal default", self.atoms)

    def call_user(self, fr, fi, args, kwargs, node, self_av=None):
        if getattr(fi, "_is_gen", None) is None:
            fi._is_gen = any(isinstance(n, (ast.Yield, ast.YieldFrom)) for n in ast.walk(fi.node))
        if fi._is_gen and not any(ast.unparse(d).split(".")[-1] == "contextmanager" for d in fi.node.decorator_list):
            # a generator function: the call makes a generator object, whose lazily produced items this interpreter does not follow
            return self.unmodelled(fr, node, "generator %s" % fi.name).replace(tags=frozenset().union(*[a.tags for a in args if a is not None]) if args else frozenset())
        bound = self.bind(fi, args, kwargs, fr, node)
        self_obj = None
        if fi.cls is not None and fi.params:
            sv = bound.get(fi.params[0])
            if sv is not None and sv.kind == K_OBJ and sv.obj in fr.state.heap:
                self_obj = fr.state.heap[sv.obj]
        ret, _, _ = self.call_function(fi, bound, fr.state, fr, node, self_obj=self_obj)
        return ret

    def instantiate(self, fr, ci, args, kwargs, node):
        o = self.new_obj(fr.state, ci, site=self.alloc_tok(fr, node))
        self.emit("alloc", fr, node, obj=o.id, cls=ci.qualname)
        oav = self.obj_av(o)
        init = ci.find_method("__init__")
        if init is not None:
            bound = self.bind(init, [oav] + list(args), kwargs, fr, node)
            self.call_function(init, bound, fr.state, fr, node, self_obj=o)
        return oav


def pc_merge(pc, at, c):
    if at == "__tags__":
        pc[at] = pc.get(at, frozenset()) | c
    else:
        pc[at] = alg_lub_pc(pc.get(at, CONST), c)


def alg_lub_pc(a, b):
    """Combine two condition classes (both conditions influence the value)."""
    if a[0] in ("const", "zero"):
        return b
    if b[0] in ("const", "zero"):
        return a
    if is_top(a) or is_top(b):
        return TOP((not is_top(a) or a[1]) and (not is_top(b) or b[1]))
    (ka, pa), (kb, pb) = hom_form(a), hom_form(b)
    if not (ka == Exp(0)) or not (kb == Exp(0)):
        return TOPD
    return HOM(0, "even" if (pa == "even" and pb == "even") else "none")


def _as_load(t):
    t2 = copy.copy(t)
    t2.ctx = ast.Load()
    return t2

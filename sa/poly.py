"""Polynomial normal form of a *single expression's syntax* (2.7b of DESIGN.md).

An expression over + - * / ** and unary minus is flattened into a sum of monomials with rational
coefficients; everything else (calls, subscripts, attributes) is an opaque atom named by a canonical
string.  Local single-assignment names can be inlined through `env`.  NumPy broadcasting subscripts
([:, np.newaxis], [np.newaxis, :]) and parentheses never enter the form.  No values are involved.
"""
import ast
from fractions import Fraction


class Poly(object):
    __slots__ = ("t",)

    def __init__(self, terms=None):
        d = {}
        for m, c in (terms or {}).items():
            if c != 0:
                d[m] = Fraction(c)
        self.t = d

    @staticmethod
    def const(c):
        return Poly({(): Fraction(c)})

    @staticmethod
    def atom(name):
        return Poly({((name, Fraction(1)),): 1})

    def __add__(self, o):
        d = dict(self.t)
        for m, c in o.t.items():
            d[m] = d.get(m, 0) + c
        return Poly(d)

    def __neg__(self):
        return Poly({m: -c for m, c in self.t.items()})

    def __sub__(self, o):
        return self + (-o)

    def __mul__(self, o):
        d = {}
        for m1, c1 in self.t.items():
            for m2, c2 in o.t.items():
                m = _mmul(m1, m2)
                d[m] = d.get(m, 0) + c1 * c2
        return Poly(d)

    def is_monomial(self):
        return len(self.t) == 1

    def is_const(self):
        return all(m == () for m in self.t)

    def const_value(self):
        return self.t.get((), Fraction(0)) if self.is_const() else None

    def inverse(self):
        if not self.is_monomial():
            return Poly.atom("(" + self.canon() + ")").power(Fraction(-1))
        (m, c), = self.t.items()
        return Poly({tuple((a, -e) for a, e in m): 1 / c})

    def power(self, e):
        e = Fraction(e)
        if e.denominator == 1 and e >= 0 and (len(self.t) <= 4 and e <= 6):
            r = Poly.const(1)
            for _ in range(int(e)):
                r = r * self
            return r
        if self.is_monomial():
            (m, c), = self.t.items()
            if c == 1 or e.denominator == 1:
                return Poly({tuple((a, x * e) for a, x in m): c ** int(e) if e.denominator == 1 else 1})
        return Poly({((("(" + self.canon() + ")"), e),): 1})

    def canon(self):
        parts = []
        for m, c in sorted(self.t.items(), key=lambda kv: _mstr(kv[0])):
            ms = _mstr(m)
            parts.append(("%s" % c) + ("*" + ms if ms else ""))
        return " + ".join(parts) if parts else "0"

    def __eq__(self, o):
        return isinstance(o, Poly) and self.t == o.t

    def __hash__(self):
        return hash(tuple(sorted(self.t.items(), key=lambda kv: _mstr(kv[0]))))

    def __repr__(self):
        return "Poly(%s)" % self.canon()

    def atoms(self):
        s = set()
        for m in self.t:
            for a, _ in m:
                s.add(a)
        return s

    def degree_of(self, atom):
        """exponent of `atom` if the same in every monomial, else None"""
        ds = set()
        for m in self.t:
            ds.add(dict(m).get(atom, Fraction(0)))
        return ds.pop() if len(ds) == 1 else None

    def subst_atoms(self, f):
        """rename atoms through f(name) -> name"""
        d = {}
        for m, c in self.t.items():
            mm = ()
            for a, e in m:
                mm = _mmul(mm, ((f(a), e),))
            d[mm] = d.get(mm, 0) + c
        return Poly(d)


def _mmul(m1, m2):
    d = dict(m1)
    for a, e in m2:
        d[a] = d.get(a, 0) + e
    return tuple(sorted((a, e) for a, e in d.items() if e != 0))


def _mstr(m):
    return "*".join(a if e == 1 else "%s^%s" % (a, e) for a, e in m)


_NEWAXIS = {"np.newaxis", "numpy.newaxis", "None"}
_IDENTITY_CALLS = {"np.array", "numpy.array", "np.asarray", "numpy.asarray", "float", "np.copy", "numpy.copy",
                   "np.asfarray", "np.float64"}


def _strip_broadcast(e):
    """x[:, np.newaxis] / x[np.newaxis, :] / x[..., None]  ->  x"""
    while isinstance(e, ast.Subscript):
        sl = e.slice
        comps = sl.elts if isinstance(sl, ast.Tuple) else [sl]
        ok = True
        has_new = False
        for c in comps:
            if isinstance(c, ast.Slice) and c.lower is None and c.upper is None and c.step is None:
                continue
            if ast.unparse(c) in _NEWAXIS:
                has_new = True
                continue
            if isinstance(c, ast.Constant) and c.value is Ellipsis:
                continue
            ok = False
        if ok and has_new:
            e = e.value
        else:
            break
    return e


_UFUNC_BINOPS = {}
for _m in ("np", "numpy"):
    _UFUNC_BINOPS.update({_m + ".add": ast.Add, _m + ".subtract": ast.Sub, _m + ".multiply": ast.Mult, _m + ".divide": ast.Div,
                          _m + ".true_divide": ast.Div, _m + ".power": ast.Pow})


class Normaliser(object):
    def __init__(self, env=None, opaque_calls=True, rename=None, const_names=None):
        self.env = env or {}
        self.rename = rename or {}
        self.const_names = const_names or {}
        self.stacks = {}

    def poly(self, e):
        e = _strip_broadcast(e)
        # element k of a stack written out: np.stack([e0, e1, ...])[k] (also through a broadcasting subscript that keeps axis 0) is e_k
        if isinstance(e, ast.Subscript) and isinstance(e.slice, ast.Constant) and isinstance(e.slice.value, int) and not isinstance(e.slice.value, bool):
            base = e.value
            if isinstance(base, ast.Name) and base.id in self.stacks:
                elts = self.stacks[base.id]
                if -len(elts) <= e.slice.value < len(elts):
                    return self.poly(elts[e.slice.value])
            base = _strip_broadcast(base)
            if isinstance(base, ast.Call) and ast.unparse(base.func) in ("np.stack", "numpy.stack", "np.array", "numpy.array", "np.vstack", "numpy.vstack") \
                    and len(base.args) == 1 and not base.keywords and isinstance(base.args[0], (ast.List, ast.Tuple)) and \
                    -len(base.args[0].elts) <= e.slice.value < len(base.args[0].elts):
                return self.poly(base.args[0].elts[e.slice.value])
        if isinstance(e, ast.Constant):
            if isinstance(e.value, bool) or not isinstance(e.value, (int, float)):
                return Poly.atom(repr(e.value))
            return Poly.const(Fraction(repr(e.value)) if isinstance(e.value, float) else e.value)
        if isinstance(e, ast.Name):
            if e.id in self.env:
                return self.env[e.id]
            if e.id in self.const_names:
                return Poly.const(self.const_names[e.id])
            return Poly.atom(self.rename.get(e.id, e.id))
        if isinstance(e, ast.UnaryOp):
            if isinstance(e.op, ast.USub):
                return -self.poly(e.operand)
            if isinstance(e.op, ast.UAdd):
                return self.poly(e.operand)
        if isinstance(e, ast.BinOp):
            if isinstance(e.op, ast.Add):
                return self.poly(e.left) + self.poly(e.right)
            if isinstance(e.op, ast.Sub):
                return self.poly(e.left) - self.poly(e.right)
            if isinstance(e.op, ast.Mult):
                return self.poly(e.left) * self.poly(e.right)
            if isinstance(e.op, ast.Div):
                return self.poly(e.left) * self.poly(e.right).inverse()
            if isinstance(e.op, ast.Pow):
                ex = self.poly(e.right)
                cv = ex.const_value()
                if cv is not None:
                    return self.poly(e.left).power(cv)
                return Poly.atom("(%s)**(%s)" % (self.poly(e.left).canon(), ex.canon()))
        if isinstance(e, ast.Call) and ast.unparse(e.func) in _IDENTITY_CALLS and e.args:
            return self.poly(e.args[0])  # coercions do not change the value
        if isinstance(e, ast.Call) and ast.unparse(e.func) in _UFUNC_BINOPS and len(e.args) == 2 and not e.keywords:
            # the function spelling of an arithmetic operator
            return self.poly(ast.copy_location(ast.BinOp(left=e.args[0], op=_UFUNC_BINOPS[ast.unparse(e.func)](), right=e.args[1]), e))
        if isinstance(e, ast.Call) and ast.unparse(e.func) in ("np.negative", "numpy.negative") and len(e.args) == 1 and not e.keywords:
            return -self.poly(e.args[0])
        if isinstance(e, ast.Call) and ast.unparse(e.func) in ("np.outer", "numpy.outer") and len(e.args) == 2 and not e.keywords:
            return self.poly(e.args[0]) * self.poly(e.args[1])      # outer product of two vectors = their broadcast product
        if isinstance(e, ast.Call) and ast.unparse(e.func) in ("np.flip", "np.flipud", "numpy.flip", "numpy.flipud") and len(e.args) == 1 and \
                all(k.arg == "axis" and isinstance(k.value, ast.Constant) and k.value.value == 0 for k in e.keywords):
            p = self.poly(e.args[0])            # reversal is linear: flip(c * x) = c * flip(x); one spelling for flip / flipud / axis=0
            if p.is_monomial():
                (m, c), = p.t.items()
                inner = Poly({m: 1})
                return Poly.atom("np.flip(%s)" % self._fmt(inner)) * Poly.const(c)
            return Poly.atom("np.flip(%s)" % p.canon())
        if isinstance(e, ast.Call) and ast.unparse(e.func) in ("np.arange", "numpy.arange") and not e.keywords and 1 <= len(e.args) <= 3:
            a = list(e.args)                    # arange(0, n, 1) = arange(0, n) = arange(n)
            if len(a) == 3 and isinstance(a[2], ast.Constant) and a[2].value == 1:
                a = a[:2]
            if len(a) == 2 and isinstance(a[0], ast.Constant) and a[0].value == 0:
                a = a[1:]
            return Poly.atom("np.arange(%s)" % ", ".join(self.arg(x) for x in a))
        if isinstance(e, ast.Call) and ast.unparse(e.func) in ("operator.index", "index") and len(e.args) == 1 and not e.keywords:
            return self.poly(e.args[0])         # operator.index(k) is k for every integer (and raises for anything else)
        if isinstance(e, ast.Call) and isinstance(e.func, ast.Attribute) and e.func.attr == "astype" and len(e.args) == 1 and \
                ast.unparse(e.args[0]) in ("float", "np.float64", "numpy.float64", "'float'", "'float64'", "np.double", "'f8'"):
            return self.poly(e.func.value)  # a cast to float does not change the value
        return Poly.atom(self.opaque(e))

    def _fmt(self, p):
        if p.is_monomial():
            (m, c), = p.t.items()
            if c == 1 and len(m) == 1 and m[0][1] == 1:
                return m[0][0]
        return p.canon()

    def opaque(self, e):
        """canonical name of a non-arithmetic expression (arguments normalised recursively)"""
        if isinstance(e, ast.Attribute):
            s = ast.unparse(e)
            if s in ("np.pi", "numpy.pi", "math.pi"):
                return "pi"
            if s in self.rename:
                return self.rename[s]
            return self.opaque(e.value) + "." + e.attr if not isinstance(e.value, ast.Name) else \
                self.rename.get(e.value.id, e.value.id) + "." + e.attr
        if isinstance(e, ast.Name):
            p = self.poly(e)
            return p.canon() if not (p.is_monomial() and len(p.atoms()) == 1 and list(p.t.values()) == [1]) else list(p.atoms())[0]
        if isinstance(e, ast.Call):
            fn = ast.unparse(e.func)
            if isinstance(e.func, ast.Attribute):
                root = e.func.value
                while isinstance(root, ast.Attribute):
                    root = root.value
                if not isinstance(root, ast.Name) or root.id in self.env:
                    fn = "(%s).%s" % (self.arg(e.func.value), e.func.attr)      # method on a computed receiver: normalise the receiver too
            fn = {"np.abs": "abs", "numpy.abs": "abs", "np.absolute": "abs"}.get(fn, fn)
            args = [self.arg(a) for a in e.args]
            kws = sorted("%s=%s" % (k.arg, self.arg(k.value)) for k in e.keywords)
            return "%s(%s)" % (fn, ", ".join(args + kws))
        if isinstance(e, ast.Subscript):
            return "%s[%s]" % (self.arg(e.value), self.sub(e.slice))
        if isinstance(e, ast.Constant):
            return repr(e.value)
        return " ".join(ast.unparse(e).split())

    def arg(self, a):
        if isinstance(a, (ast.Tuple, ast.List)):
            inner = ", ".join(self.arg(x) for x in a.elts)
            return ("(%s)" if isinstance(a, ast.Tuple) else "[%s]") % inner
        if isinstance(a, ast.Starred):
            return "*" + self.arg(a.value)
        if isinstance(a, (ast.BinOp, ast.UnaryOp, ast.Name, ast.Constant, ast.Call)):
            p = self.poly(a)        # calls too: interpreted ones (coercions, flip, outer, arange) are normalised, others come back as one atom
            if p.is_monomial():
                (m, c), = p.t.items()
                if c == 1 and len(m) == 1 and m[0][1] == 1:
                    return m[0][0]
                if m == ():
                    return str(c)
            return p.canon()
        return self.opaque(a)

    def sub(self, s):
        if isinstance(s, ast.Tuple):
            return ", ".join(self.sub(x) for x in s.elts)
        if isinstance(s, ast.Slice):
            return ":".join("" if p is None else self.arg(p) for p in (s.lower, s.upper)) + \
                ("" if s.step is None else ":" + self.arg(s.step))
        return self.arg(s)


def straightline_env(stmts, norm=None, stop_at=None, exclude=()):
    """Inline environment from single-assignment `name = expr` statements of a block (in order)."""
    norm = norm or Normaliser()
    counts = {}
    for st in stmts:
        for n in ast.walk(st):
            if isinstance(n, ast.Name) and isinstance(n.ctx, ast.Store):
                counts[n.id] = counts.get(n.id, 0) + 1
    def visit(block):
        for st in block:
            if st is stop_at:
                return False
            if isinstance(st, ast.Assign) and len(st.targets) == 1 and isinstance(st.targets[0], ast.Name) and \
                    counts.get(st.targets[0].id) == 1 and st.targets[0].id not in exclude:
                norm.env[st.targets[0].id] = norm.poly(st.value)
            for fld in ("body", "orelse", "finalbody"):
                sub = getattr(st, fld, None)
                if isinstance(sub, list) and sub and isinstance(sub[0], ast.stmt) and not isinstance(st, (ast.FunctionDef, ast.ClassDef)):
                    if visit(sub) is False:
                        return False
            for h in getattr(st, "handlers", []) or []:
                if visit(h.body) is False:
                    return False
        return True
    visit(stmts)
    return norm

"""Typing obligations: analyse one entry point with abstract arguments and compare components of the derived
abstract result with the expectation read off the property statement."""
import ast
import os

from .program import AnalysisError
from .interp import Interp, State, Frame
from .entries import *  # noqa
from .values import *  # noqa


class Run(object):
    def __init__(self, I, st, ret, flow, fi):
        self.I, self.st, self.ret, self.flow, self.fi = I, st, ret, flow, fi

    def events(self, kind, fn=None):
        """events of one kind; with `fn`, those that happen in that function -- or in code the pinned tree does not have (a helper, a method
        of a carrier class introduced later) that runs on its behalf: entered from `fn` through functions that are all new"""
        if fn is None:
            return [e for e in self.I.events if e.kind == kind]
        from .normalise import pinned
        pin = pinned()

        def on_behalf(e):
            if e.fn == fn:
                return True
            if e.fn is None or e.fn in pin or not e.stack or fn not in e.stack:
                return False
            k = len(e.stack) - 1 - e.stack[::-1].index(fn)
            tail = e.stack[k + 1:]
            if tail and getattr(e, "callee", None) == tail[-1]:
                tail = tail[:-1]            # a call event is logged with its callee already on the stack
            return all(q not in pin for q in tail)
        return [e for e in self.I.events if e.kind == kind and on_behalf(e)]

    def returns(self):
        return [v for v, _ in (self.flow.returns if self.flow else [])]

    def final_attr(self, name):
        """the attribute of the receiver when the call returns normally (joined over the paths); None when not derivable"""
        st2 = getattr(self, "final", None)
        so = getattr(self, "self_obj", None)
        if st2 is None or so is None:
            return None
        o = st2.heap.get(so.id)
        return o.attrs.get(name) if o is not None else None


def analyse(chk, qual, build=None, atoms=(R, DT), self_cls=None, flags="cold", listeners=None, setup=None):
    """build(I, st, fi) -> dict of explicit abstract args (others: literal defaults)."""
    P = chk.P
    fi = P.fn(qual)
    I = Interp(P, listeners=listeners)
    I.atoms = set(atoms)
    if setup:
        setup(I)
    st = State()
    pos = []
    self_obj = None
    if self_cls is not None:
        self_obj, oav = make_signal(I, st, P.cls(self_cls), name="self", flags=flags, is_param=False)
        pos = [oav]
    args = build(I, st, fi) if build else {}
    kwav = args.pop(fi.kwarg, None) if (fi.kwarg and fi.kwarg in args) else None
    if kwav is not None and kwav.kind == K_DICT and kwav.dvals:
        # keywords the caller passes land on the parameters that name them (positional-or-keyword or keyword-only); only the rest is
        # collected by **kwargs -- exactly what the call `f(..., **{...})` does
        named = [k for k in kwav.dvals if k in fi.params or k in fi.kwonly]
        if named:
            for k in named:
                args.setdefault(k, kwav.dvals[k])
            rest = {k: v for k, v in kwav.dvals.items() if k not in named}
            ks = frozenset(rest)
            kwav = kwav.replace(dvals=rest, dmust=(kwav.dmust or frozenset()) & ks, dmay=(kwav.dmay & ks) if kwav.dmay is not None else None)
    bound = I.bind(fi, pos, args, None, None)
    if kwav is not None:
        bound[fi.kwarg] = kwav
    ret, st2, flow = I.run(fi, bound, st, self_obj=self_obj)
    chk.absorb_interp(I)
    chk.files.add(fi.module.relpath)
    r = Run(I, st, ret, flow, fi)
    r.self_obj = self_obj
    r.final = st2
    return r


def read_property(chk, cls_q, prop, atoms=(R, DT), flags="cold", prepare=None):
    """Abstract value of <object>.<prop> on a generic signal object of class cls_q."""
    P = chk.P
    ci = P.cls(cls_q)
    I = Interp(P)
    I.atoms = set(atoms)
    st = State()
    o, oav = make_signal(I, st, ci, name="self", flags=flags, is_param=False)
    if prepare:
        prepare(I, st, o)
    m = ci.find_method(prop)
    if m is None:
        raise AnalysisError("no attribute %s on %s" % (prop, cls_q))
    fr = Frame(m, st, I)
    v = I.load_attr(fr, oav, prop, m.node)
    chk.absorb_interp(I)
    chk.files.add(m.module.relpath)
    return v, I, m


def _fmt(av, atoms):
    return repr(av.describe(atoms)) if av is not None else "None"


def expect(chk, rule, construct, av, loc=None, atoms=(R, DT), **exp):
    """One obligation per expectation key.  T from modelled operations refutes; T? (unmodelled) is inconclusive."""
    out = []

    def ob(what, want, ok, derived, indef=False):
        out.append(chk.ob(rule, "%s[%s]" % (construct, what), want, ok, derived=derived, loc=loc,
                          inconclusive=(not ok and indef)))
    if av is None:
        ob("value", "a value", False, "no value derived", indef=True)
        return out
    # a value whose structure the engine lost (unknown kind, an array of unknown shape) is *imprecisely known*: what is not derived for it is
    # not a fact about the code (joins of differently spelled paths, fast paths with fall-backs, buffers filled piecewise); only a definite
    # contradicting component (another length, another kind, another degree ...) refutes
    ind = av.indef or av.kind == K_TOP or (av.kind == K_ARRAY and (av.shape is None or any(d_ is None for d_ in av.shape))) or \
        "alloc:empty-written" in av.tags       # (derived through an uninitialised buffer filled piece by piece: one abstract element summarises it)
    for key, want in exp.items():
        if key == "length":
            w = LinExpr(want)
            ln = av.length()
            okl = ln is not None and ln == w
            und = False
            if ln is not None and not okl:
                # two different spellings of a length are compared as symbolic integers (constant-folded over sample values): a witness value
                # refutes; spellings that agree on every sample (max[S, S+n-1] - min[S, S+n-1] + 1 against n) are not a refutation
                from .values import compare_index_exprs
                try:
                    verdict, why = compare_index_exprs(ln, w)
                except Exception:
                    verdict, why = "unknown", "not comparable"
                und = verdict != "differ"
            ob("len", "length %r" % w, okl, "length %r" % (ln,), indef=(ln is None and ind) or und)
        elif key == "shape":
            w = tuple(LinExpr(x) for x in want)
            ob("shape", "shape %r" % (w,), av.shape is not None and tuple(av.shape) == w, "shape %r" % (av.shape,),
               indef=(av.shape is None and ind))
        elif key == "lin":
            for at in want:
                a = av.a(at)
                ob("lin:" + at, "linear in " + at, a[0] in ("lin", "zero"), alg_str(a), indef=is_top(a) and (not a[1] or ind))
        elif key == "const_in":
            for at in want:
                a = av.a(at)
                ob("const:" + at, "independent of " + at, a[0] in ("const", "zero"), alg_str(a),
                   indef=is_top(a) and (not a[1] or ind))
        elif key == "deg":
            for at, k in want.items():
                a = av.a(at)
                d = alg_degree(a)
                ob("deg:" + at, "degree %r in %s" % (Exp(k), at), d == "any" or (d is not None and d == Exp(k)),
                   alg_str(a), indef=is_top(a) and (not a[1] or ind))
        elif key == "parity":
            for at, p in want.items():
                a = av.a(at)
                d = alg_parity(a)
                ob("parity:" + at, "%s in %s" % (p, at), d in ("any", p), alg_str(a), indef=is_top(a) and (not a[1] or ind))
        elif key == "sign":
            ok = {"nonneg": is_nonneg(av.sign), "pos": av.sign == S_POS, "zero": av.sign == S_ZERO,
                  "nonpos": av.sign in (S_ZERO, S_NEG, S_NONPOS)}[want]
            ob("sign", want, ok, av.sign, indef=ind)
        elif key == "mono":
            # (the order lattice is {nondecreasing, unknown}: "not derived" is never a derived decrease -- a cumulative measure that loses
            # its monotonicity loses a definite component as well: the sign of its increments, its parity, its cumulative tag)
            ob("mono", "nondecreasing along axis %s" % want, want in av.mono, "axes %s" % sorted(av.mono), indef=True)
        elif key == "f0":
            ob("first", "first element exactly zero", bool(av.f0), "f0=%s" % av.f0, indef=ind)
        elif key == "tags_has":
            for t in want:
                # provenance (p:<parameter>, attr:<attribute>, user-*) is a dataflow fact: a precisely known value without it does not depend
                # on that input.  A construction tag (cum, interp:linear, pad ...) names ONE way of building the value: its absence is "built
                # another way", which is not a refutation (DESIGN 9.23)
                # ... unless a DIFFERENT member of the same family is present (quad:rectangle where quad:trapezoid is wanted, sel:first
                # where sel:last is): that is a located other construction
                fam = t.split(":")[0] + ":" if ":" in t else None
                rival = fam is not None and any(x.startswith(fam) and x != t for x in av.tags)
                constr = not t.startswith(("p:", "attr:", "user-", "stored:", "ret:", "kw:")) and not rival
                ob("via:" + t, "derives through %s" % t, t in av.tags, "tags %s" % sorted(x for x in av.tags if x.split(":")[0] == t.split(":")[0]),
                   indef=ind or constr)
        elif key == "tags_not":
            for t in want:
                ob("not-via:" + t, "does not derive through %s" % t, t not in av.tags, "tags %s" % sorted(x for x in av.tags if x.split(":")[0] == t.split(":")[0]))
        elif key == "kind":
            ob("kind", want, av.kind == want, av.kind, indef=(av.kind == K_TOP and ind))
        elif key == "dtype":
            ob("dtype", want, av.dtype == want, av.dtype, indef=(av.dtype == "top" and ind))
        elif key == "items":
            ob("arity", "%d results" % want, av.items is not None and len(av.items) == want,
               "items=%s" % (None if av.items is None else len(av.items)), indef=ind)
        else:
            raise AnalysisError("unknown expectation key " + key)
    return out


def item(av, i):
    if av is None or av.items is None or i >= len(av.items):
        return None
    return av.items[i]


def unmodelled_in(run, chk, rule, construct):
    """Turn unmodelled constructs met while analysing an anchored entry into an inconclusive obligation."""
    ill = [e for e in run.I.events if e.kind in ("type-error", "index-error") and not getattr(e, "operand", None) is not None and False or
           e.kind in ("type-error", "index-error")]
    seen_ = set()
    for e in ill:
        if (e.loc, e.what) in seen_ or len(seen_) >= 3:
            continue
        seen_.add((e.loc, e.what))
        chk.ob(rule, construct + "[well-typed]", "no operation on the path raises for every input (wrong operand kind, index past a tuple, float where an integer is required)",
               False, derived=e.what, loc=e.loc, stmt=e.stmt, detail="the call cannot return: it raises")
    # two operands whose lengths are the same named length with different constant offsets (n-1 against n-2), neither of them 1: the
    # element-wise operation cannot broadcast -- ValueError for every record (but the two or three shortest)
    sm = [e for e in run.I.events if e.kind == "shape-mismatch" and e.dims and all(d is not None for d in e.dims) and
          (e.dims[0] - e.dims[1]).is_const() and (e.dims[0] - e.dims[1]).c != 0]
    for e in sm[:2]:
        chk.ob(rule, construct + "[broadcast]", "the operands of an element-wise operation have the same length", False,
               derived="lengths %r and %r" % (e.dims[0], e.dims[1]), loc=e.loc, stmt=e.stmt, detail="the operation raises for every record")
    # a value held in module-level state (a memo dictionary, a module-level table) is modified in place: the next call -- with other
    # arguments, from another object -- finds it modified (results depend on the calls made before)
    # (arithmetic in place on an ARRAY taken out of the store; filling / clearing the store itself -- memo[key] = v, memo.clear() -- is what a
    # memo does and is not meant)
    gm = [e for e in run.I.events if e.kind == "mutation" and any(str(t_).startswith("g:") for t_ in (e.origins or ())) and
          (str(e.how).startswith("augassign") or e.how == "out=" or
           (e.how == "subscript-store" and e.target is not None and e.target.kind == K_ARRAY))]
    for e in gm[:2]:
        chk.ob(rule, construct + "[module state]", "no value kept in module-level state is modified in place", False,
               derived="in-place %s on a value held in %s" % (e.how, sorted(str(t_) for t_ in e.origins if str(t_).startswith("g:"))[:2]),
               loc=e.loc, stmt=e.stmt, detail="later calls see the modified value")
    ui = [e for e in run.I.events if e.kind == "uninit-read"]
    for e in ui[:2]:
        chk.ob(rule, construct + "[initialised]", "a buffer from np.empty is completely written before it is read", False, derived=e.what,
               loc=e.loc, stmt=e.stmt, detail="the unwritten elements hold whatever was in memory")
    um = [e for e in run.I.events if e.kind == "unmodelled"]
    if um:
        chk.ob(rule, construct + "[modelled]", "every construct on the path is modelled", False,
               derived="; ".join("%s %s" % (e.loc, e.what) for e in um[:4]), inconclusive=True, loc=um[0].loc)
    return um


def const_values(fi, P):
    """Numeric literals used in fi's body, with module-level constant names resolved."""
    out = []
    modconst = {}
    for st in fi.module.tree.body:
        if isinstance(st, ast.Assign) and len(st.targets) == 1 and isinstance(st.targets[0], ast.Name) and \
                isinstance(st.value, ast.Constant) and isinstance(st.value.value, (int, float)):
            modconst[st.targets[0].id] = st.value.value
    for n in ast.walk(fi.node):
        if isinstance(n, ast.Constant) and isinstance(n.value, (int, float)) and not isinstance(n.value, bool):
            out.append(n.value)
        elif isinstance(n, ast.Name) and n.id in modconst and isinstance(n.ctx, ast.Load):
            out.append(modconst[n.id])
    return out


def check_forwarder(chk, rule, qual, callee_qual, roles=None, allow_const=True, self_map=None):
    """`qual` must be a pure forwarder: `return callee(<bare parameters>)`, each bound to the callee parameter of the
    same role (same name unless `roles` = {callee_param: caller_param} says otherwise); nothing is rescaled on the way."""
    from .program import local_imports_of
    P = chk.P
    fi, callee = P.fn(qual), P.fn(callee_qual)
    chk.files.add(fi.module.relpath)
    construct = "%s:%s -> %s" % (fi.module.relpath, qual.split(".", 1)[1], callee.name)
    roles = roles or {}
    rets = [n for n in ast.walk(fi.node) if isinstance(n, ast.Return)]
    calls = []
    li = local_imports_of(fi)
    for n in ast.walk(fi.node):
        if isinstance(n, ast.Call):
            r = P.resolve_expr(fi.module, n.func, li)
            if r and r[0] == "func" and r[1] is callee:
                calls.append(n)
            elif isinstance(n.func, ast.Attribute) and isinstance(n.func.value, ast.Name) and fi.cls is not None and \
                    fi.params and n.func.value.id == fi.params[0] and callee.cls is not None and n.func.attr == callee.name:
                calls.append(n)
    if len(calls) != 1:
        chk.ob(rule, construct, "exactly one call of the forwarded function", False, derived="%d calls" % len(calls), loc=fi.loc())
        return
    call = calls[0]
    returned = any(r.value is call for r in rets) or (not rets and True)
    if rets and not returned:
        # result may be bound to names and returned unchanged (tuple unpack + same order)
        returned = _returned_unchanged(fi, call)
    cparams = list(callee.params)
    if callee.cls is not None:
        cparams = cparams[1:]
    binding = {}
    for i, a in enumerate(call.args):
        if i < len(cparams):
            binding[cparams[i]] = a
    for k in call.keywords:
        if k.arg:
            binding[k.arg] = k.value
    bad = []
    used = set()
    from .poly import Normaliser as _N, Poly as _P
    assigns = {}
    for n in ast.walk(fi.node):
        if isinstance(n, ast.Assign) and len(n.targets) == 1 and isinstance(n.targets[0], ast.Name):
            assigns.setdefault(n.targets[0].id, []).append(n.value)

    def through_locals(e, depth=0):
        """a local that is assigned a bare parameter on some path (possibly through value-preserving coercions, possibly
        substituted by something else on other paths: a default / sentinel) stands for that parameter"""
        if isinstance(e, ast.Name) and e.id not in fi.params and e.id in assigns and depth < 4:
            cands = set()
            for v in assigns[e.id]:
                pv = _N().poly(v)
                ats = sorted(pv.atoms())
                if len(ats) == 1 and pv == _P.atom(ats[0]) and ats[0] in fi.params:
                    cands.add(ats[0])
                elif isinstance(v, ast.Name):
                    r = through_locals(v, depth + 1)
                    if isinstance(r, ast.Name) and r.id in fi.params:
                        cands.add(r.id)
            if len(cands) == 1:
                return ast.Name(id=cands.pop(), ctx=ast.Load())
        pv = _N().poly(e) if isinstance(e, ast.Call) else None
        if pv is not None:
            ats = sorted(pv.atoms())
            if len(ats) == 1 and pv == _P.atom(ats[0]) and ats[0] in fi.params:
                return ast.Name(id=ats[0], ctx=ast.Load())
        return e
    # a forwarded parameter may be re-bound to a value-preserving coercion of itself or substituted wholesale, never rescaled
    for pn in fi.params:
        for v in assigns.get(pn, []):
            names = {x.id for x in ast.walk(v) if isinstance(x, ast.Name)}
            if pn in names and _N().poly(v) != _P.atom(pn):
                bad.append("%s is re-bound to %s before the call" % (pn, " ".join(ast.unparse(v).split())[:60]))
    for cp, expr in binding.items():
        expr = through_locals(expr)
        if isinstance(expr, ast.Name) and expr.id in fi.params:
            want = roles.get(cp, cp)
            used.add(expr.id)
            if expr.id != want:
                bad.append("%s <- %s (role %s expected)" % (cp, expr.id, want))
        elif isinstance(expr, ast.Constant) and allow_const:
            continue
        elif self_map and cp in self_map and ast.unparse(expr) == self_map[cp]:
            continue
        else:
            bad.append("%s <- %s (not a bare parameter)" % (cp, ast.unparse(expr)))
    mine = [p for p in fi.params if not (fi.cls is not None and p == fi.params[0])]
    missing = [p for p in mine if p not in used and roles.get("__ignore__", ()) is not None and p not in roles.get("__ignore__", ())]
    ok = not bad and not missing and returned
    chk.ob(rule, construct, "pure role-correct forwarder", ok,
           derived="; ".join(bad) or ("parameters not forwarded: %s" % missing if missing else
                                      ("result not returned unchanged" if not returned else "all parameters forwarded by role")),
           loc=fi.loc(call), stmt=" ".join(ast.unparse(call).split()))


def _returned_unchanged(fi, call):
    names = None
    for st in ast.walk(fi.node):
        if isinstance(st, ast.Assign) and st.value is call and len(st.targets) == 1:
            t = st.targets[0]
            if isinstance(t, ast.Name):
                names = [t.id]
            elif isinstance(t, ast.Tuple) and all(isinstance(e, ast.Name) for e in t.elts):
                names = [e.id for e in t.elts]
    if names is None:
        return False
    for st in ast.walk(fi.node):
        if isinstance(st, ast.Return) and st.value is not None:
            v = st.value
            got = [v.id] if isinstance(v, ast.Name) else ([e.id for e in v.elts] if isinstance(v, ast.Tuple) and all(isinstance(e, ast.Name) for e in v.elts) else None)
            if got == names:
                return True
    return False


_FLIP = {"Gt": "Lt", "Lt": "Gt", "GtE": "LtE", "LtE": "GtE", "Eq": "Eq", "NotEq": "NotEq"}


def against_const(e, const):
    """Normalise a comparison event to `value OP const`: returns (OP, value AV) or None."""
    if e.right.has_const() and e.right.const == const and not (e.left.has_const() and e.left.const == const):
        return e.op, e.left
    if e.left.has_const() and e.left.const == const:
        return _FLIP.get(e.op, e.op), e.right
    return None


def no_truncation(chk, rule, qual, build, construct, atoms=(R, DT), self_cls=None, what="integer-typed input"):
    """Run an entry with integer-typed data: no real value may be stored into an integer buffer (NumPy truncates silently).
    One obligation per truncating buffer (identified by its allocation statement), or one discharged obligation."""
    r = analyse(chk, qual, build, atoms=atoms, self_cls=self_cls)
    ev = [e for e in r.I.events if e.kind == "dtype-truncation"]
    sites = {}
    for e in ev:
        tok = sorted(t for t in e.target.origin if t.startswith("a@"))
        key = tok[0] if tok else (e.fn + ":" + (e.stmt or ""))
        sites.setdefault(key, []).append(e)
    for key, es in sorted(sites.items()):
        alloc = _alloc_stmt(chk.P, key)
        e = es[0]
        chk.ob(rule, "%s{buffer %s}" % (construct, alloc or key), "for %s no real value is stored into an integer buffer" % what, False,
               derived="%d store(s) of real values into an integer array, e.g. `%s`" % (len({x.stmt for x in es}), e.stmt), loc=e.loc, stmt=e.stmt,
               detail="NumPy truncates the stored values toward zero")
    if not sites:
        chk.ob(rule, construct, "for %s no real value is stored into an integer buffer" % what, True,
               derived="no truncating store on any path", nontrivial=any(e.kind == "mutation" for e in r.I.events))
    return r


def _alloc_stmt(P, tok):
    """source statement of an allocation-site token a@<qualname>:<line>:<col>"""
    import ast as _ast
    try:
        body = tok[2:]
        qual, line, col = body.rsplit(":", 2)
        fi = P.functions.get(qual)
        if fi is None:
            return None
        for n in _ast.walk(fi.node):
            if isinstance(n, _ast.stmt) and getattr(n, "lineno", None) == int(line) and not isinstance(n, (_ast.If, _ast.For, _ast.While, _ast.FunctionDef)):
                from .program import norm_stmt
                return norm_stmt(n)[:120]       # names the inliner renamed apart are keyed by their source names
    except Exception:
        return None
    return None


_SNAP = {}


def snapshot_attrs(chk):
    """Attributes of the signal classes that hold a *record-derived* value written by some method other than the constructor
    and that the cache protocol (C04's model: flags, guarded storage, memo dicts) does not manage -- snapshots such as the
    deprecated statistics.  Nothing invalidates them, so a function that reads one is computing from a possibly older
    record.  Returns {attr: sorted writer method names}."""
    P = chk.P
    if id(P) in _SNAP:
        return _SNAP[id(P)]
    from .props.c04 import extract_model
    from .autoargs import auto_args
    out = {}
    for cn in ("eqsig.single.Signal", "eqsig.single.AccSignal"):
        ci = P.cls(cn)
        m = extract_model(P, ci, chk)
        if not m.flags:
            _SNAP[("located", id(P))] = False      # no validity flag found: the cache protocol is of a design the model does not know
        managed = set(m.flags) | set(m.memo) | {"_values", "_npts", "_dt"}
        for info in m.flags.values():
            managed |= info["storage"]
        seen = set()
        for c in ci.mro():
            for meth in c.methods.values():
                if meth.name in seen or meth.name.startswith("__") or meth.is_property:
                    continue
                seen.add(meth.name)
                # only methods that store an unmanaged attribute at all (syntactic pre-filter)
                stores = {n.attr for n in ast.walk(meth.node) if isinstance(n, ast.Attribute) and isinstance(n.ctx, ast.Store)
                          and isinstance(n.value, ast.Name) and n.value.id == meth.params[0]} - managed
                if not stores:
                    continue
                I = Interp(P)
                I.atoms = {R, DT}
                st = State()
                o, oav = make_signal(I, st, ci, name="self", flags="unknown", is_param=False)
                try:
                    bound = I.bind(meth, [oav], auto_args(I, st, meth, P, flags="unknown"), None, None)
                    if meth.kwarg:
                        bound[meth.kwarg] = AV(kind=K_DICT, dvals={}, dmust=frozenset(), dmay=None)
                    I.run(meth, bound, st, self_obj=o)
                except AnalysisError:
                    continue
                for e in I.events:
                    if e.kind == "attr-write" and e.obj == o.id and e.attr in stores and e.value is not None:
                        tg = e.value.tags
                        if "attr:_values" in tg or any(t.startswith("stored:") for t in tg) or "p:values" in tg:
                            out.setdefault(e.attr, set()).add(meth.name)
    out = {k: sorted(v) for k, v in out.items()}
    _SNAP[id(P)] = out
    return out


def only_managed_reads(chk, rule, run, construct):
    """Every read of a signal object's state made while analysing `run` goes through a property, a constructor-set attribute or
    managed cache storage: not through a snapshot attribute (see snapshot_attrs) nor an attribute the constructor never set."""
    snap = snapshot_attrs(chk)
    reads = [e for e in run.I.events if e.kind == "attr-read"]
    bad = [e for e in reads if e.via == "missing" or (e.via == "plain" and e.attr in snap)]
    names = sorted({e.attr for e in bad})
    chk.ob(rule, construct + "{state read}", "the signal is read through its managed interface only (no attribute that only a statistics "
           "method writes and no cache clears)", not bad,
           derived=("reads %s (written by %s; nothing invalidates it)" % (names, sorted({w for a in names for w in snap.get(a, ["no constructor"])})))
           if bad else "%d attribute reads, all managed" % len(reads),
           loc=bad[0].loc if bad else run.fi.loc(), stmt=bad[0].stmt if bad else None,
           # which attributes are lazily kept *and invalidated* is read off the validity flags; when no flag is found at all (the protocol
           # was redesigned: counters, stamps ...) an attribute cannot be called unmanaged
           inconclusive=bool(bad) and _SNAP.get(("located", id(chk.P))) is False and not any(e.via == "missing" for e in bad),
           detail="after the record is modified the result is still located on the old series" if bad else None)


def no_int_arith(chk, rule, qual, build, construct, atoms=(R, DT), self_cls=None, what="an integer-typed input", within=None):
    """Run an entry with integer-typed data (build must bind the data with dtype="int"): no difference, product or power of the
    data may be formed in the integer dtype (fixed-width integers wrap around silently: unsigned on any decrease, signed on
    large steps).  `within`: only sites in these functions (qualnames) count."""
    P = chk.P
    fi = P.fn(qual)
    I = Interp(P)
    I.atoms = set(atoms)
    I.watch_int = True
    st = State()
    pos = []
    self_obj = None
    if self_cls is not None:
        self_obj, oav = make_signal(I, st, P.cls(self_cls), name="self", flags="cold", is_param=False)
        pos = [oav]
    args = build(I, st, fi)
    bound = I.bind(fi, pos, args, None, None)
    I.run(fi, bound, st, self_obj=self_obj)
    chk.absorb_interp(I)
    ev = [e for e in I.events if e.kind == "int-arith" and (within is None or e.fn in within)]
    seen = set()
    for e in ev:
        if e.stmt in seen:
            continue
        seen.add(e.stmt)
        chk.ob(rule, "%s{%s}" % (construct, e.stmt), "for %s no difference/product of the data is formed in the integer dtype" % what, False,
               derived="%s of integer-typed data at `%s`" % ({"Sub": "difference", "Mult": "product", "Pow": "power"}[e.op], e.stmt),
               loc=e.loc, stmt=e.stmt, detail="fixed-width integers wrap around silently (uint on any decrease, int16/int32 on large steps)")
    if not ev:
        chk.ob(rule, construct, "for %s no difference/product of the data is formed in the integer dtype" % what, True,
               derived="the data is promoted to float before any difference or product", nontrivial=True)
    return I


def concat_pieces(r, here, src_tag):
    """A two-sided spectrum assembled from four pieces by one np.concatenate / np.hstack: [(length, class)] with class zero / plain /
    mirror (conjugated and reversed) / ?; None when there is no single four-piece join in the functions `here` accepts."""
    cats = [e for e in r.events("lib-call") if here(e) and e.name in ("numpy.concatenate", "numpy.hstack") and e.args and
            getattr(e.args[0], "items", None) and len(e.args[0].items) == 4]
    if len(cats) != 1:
        return None, None

    def piece(v):
        ln = v.shape[0] if v.shape else None
        if v.sign == S_ZERO:
            cls = "zero"
        elif "conj" in v.tags and "flip" in v.tags and src_tag in v.tags:
            cls = "mirror"
        elif src_tag in v.tags and "conj" not in v.tags and "flip" not in v.tags:
            cls = "plain"
        else:
            cls = "?"
        return (repr(ln) if ln is not None else None, cls)
    return [piece(v) for v in cats[0].args[0].items], cats[0]


def sibling_defaults(chk, rule, quals, neutral=None, label=None):
    """Entry points that are documented / stated to agree must agree when called with their options left out: same-named parameters of the
    siblings have the same default.  `neutral`: parameter -> the default that makes the option a no-op, where the property pins it
    (a multiplicative factor of 1, a switch that is off)."""
    P = chk.P
    sig_ = {}
    for q in quals:
        fi = P.functions.get(q) or P.fn(q)
        d = {}
        for pname, dv in fi.defaults.items():
            try:
                d[pname] = ast.literal_eval(dv)
            except Exception:
                d[pname] = " ".join(ast.unparse(dv).split())
        sig_[q] = (fi, d)
    names = sorted({k for _, d in sig_.values() for k in d})
    for pn in names:
        have = {q: d[pn] for q, (fi, d) in sig_.items() if pn in d}
        if len(have) < 2 and not (neutral and pn in neutral):
            continue
        def canon_(v):            # 1 and 1.0 are the same default
            return repr(float(v)) if isinstance(v, (int, float)) and not isinstance(v, bool) else repr(v)
        vals = set(canon_(v) for v in have.values())
        ok = len(vals) == 1
        if ok and neutral and pn in neutral:
            v0 = next(iter(have.values()))
            ok = v0 == neutral[pn] and type(v0) in (type(neutral[pn]), float, int, bool)
        first = sig_[sorted(have)[0]][0]
        chk.ob(rule, "%s{default %s}" % (label or "~".join(q.split(".")[-1] for q in quals), pn),
               "the siblings have the same default for `%s`%s" % (pn, (" (the neutral value %r)" % (neutral[pn],)) if neutral and pn in neutral else ""), ok,
               derived="; ".join("%s: %r" % (q.split(".")[-1], v) for q, v in sorted(have.items())), loc=first.loc())


def leading_zero_tests(chk, rule, fi, base, construct, what="the leading entry", minimum=1):
    """Every test of one literal position of `base` (a parameter name or dotted attribute text) against a number literal in `fi` is the
    test of its FIRST entry against ZERO: `base[0] == 0` / `base[0] != 0` (either operand order).  The functions that special-case a
    leading zero (a zero period, the zero-frequency bin, index 0 of an index array) rely on exactly that test.  One obligation per
    test; none found -> one inconclusive obligation."""
    import ast as _ast
    found = 0
    for n in _ast.walk(fi.node):
        if not (isinstance(n, _ast.Compare) and len(n.ops) == 1 and len(n.comparators) == 1):
            continue
        for a, b in ((n.left, n.comparators[0]), (n.comparators[0], n.left)):
            if isinstance(a, _ast.Subscript) and " ".join(_ast.unparse(a.value).split()) == base and isinstance(a.slice, _ast.Constant) and \
                    type(a.slice.value) is int and isinstance(b, _ast.Constant) and type(b.value) in (int, float):
                found += 1
                ok = a.slice.value == 0 and b.value == 0 and isinstance(n.ops[0], (_ast.Eq, _ast.NotEq))
                chk.ob(rule, "%s{leading-zero test `%s`}" % (construct, " ".join(_ast.unparse(n).split())),
                       "%s is recognised by `%s[0] == 0` (or `!= 0`), nothing else" % (what, base), ok,
                       derived="tests position %d against %r with %s" % (a.slice.value, b.value, type(n.ops[0]).__name__), loc=fi.loc(n),
                       stmt=" ".join(_ast.unparse(n).split()))
                break
    if found < minimum:
        chk.ob(rule, "%s{leading-zero test}" % construct, "a test `%s[0] == 0` is present" % base, False, derived="%d found" % found, inconclusive=True,
               loc=fi.loc())
    return found


def plateau_cleaner_exact(chk, rule):
    """The plateau cleaner keeps exactly the samples that differ from their predecessor: the kept set is read off the *exact* successive
    differences (`diff != 0`, or the complementary `== 0`); the differences are not edited between the subtraction and the test and no
    tolerance enters (a sample that differs by one ulp is a change of value: peak and crossing detection is stated for every series)."""
    qc = "eqsig.fns.peaks_and_crossings.clean_out_non_changing"
    try:
        chk.P.fn(qc)
    except Exception:
        return
    rc = analyse(chk, qc, lambda I, st, fi: dict(values=rec_array("values")))
    c = "eqsig/fns/peaks_and_crossings.py:clean_out_non_changing{kept samples}"
    ev = list(rc.I.events)
    tests = [(k, e) for k, e in enumerate(ev) if e.kind == "compare" and e.op in ("NotEq", "Eq") and "diff" in e.left.tags and
             e.right.has_const() and e.right.const == 0]
    if not tests:
        # the same test spelled as "positions of the non-zero differences": np.flatnonzero(d) / np.nonzero(d) / np.where(d) / np.count_nonzero(d)
        nz = [(k, e) for k, e in enumerate(ev) if e.kind == "lib-call" and e.name in ("numpy.where", "numpy.nonzero", "numpy.flatnonzero", "numpy.count_nonzero")
              and e.args and len(e.args) == 1 and e.args[0].kind == K_ARRAY and "diff" in e.args[0].tags and e.args[0].dtype != "bool"]
        if nz:
            k0, t0 = nz[0]
            edits = [e for e in ev[:k0] if e.kind == "mutation" and (e.origins or frozenset()) & t0.args[0].origin]
            tol = [e for e in ev if e.kind == "lib-call" and e.name in ("numpy.isclose", "numpy.allclose", "math.isclose", "numpy.round", "numpy.around")]
            chk.ob(rule, c, "the differences tested against 0 are the exact successive differences (not edited, no tolerance)", not edits and not tol,
                   derived=("edited before the test: %s" % edits[0].stmt) if edits else (("tolerance / rounding: %s" % tol[0].name) if tol else
                                                                                       "exact differences, non-zero positions by %s" % t0.name),
                   loc=(edits[0].loc if edits else (tol[0].loc if tol else t0.loc)), stmt=(edits[0].stmt if edits else (tol[0].stmt if tol else t0.stmt)))
            return
        chk.ob(rule, c, "the kept samples are those whose difference to the predecessor is not zero", False,
               derived="no test of successive differences against 0 located", inconclusive=True, loc=rc.fi.loc())
        return
    k0, t0 = tests[0]
    edits = [e for e in ev[:k0] if e.kind == "mutation" and (e.origins or frozenset()) & t0.left.origin]
    tol = [e for e in ev if e.kind == "lib-call" and e.name in ("numpy.isclose", "numpy.allclose", "math.isclose", "numpy.round", "numpy.around")]
    ok = not edits and not tol
    chk.ob(rule, c, "the differences tested against 0 are the exact successive differences (not edited, no tolerance)", ok,
           derived=("edited before the test: %s" % edits[0].stmt) if edits else (("tolerance / rounding: %s" % tol[0].name) if tol else
                                                                               "exact differences, test `%s 0`" % {"NotEq": "!=", "Eq": "=="}[t0.op]),
           loc=(edits[0].loc if edits else (tol[0].loc if tol else t0.loc)), stmt=(edits[0].stmt if edits else (tol[0].stmt if tol else t0.stmt)))


def owns_values(chk, rule):
    """Each signal object owns its samples: what the constructor and `reset_values` store as the values is a fresh array, never the caller's
    (two objects built from one array, or an object and the caller, would otherwise share a buffer; an in-place correction of one then changes
    the samples under the other, whose lazily kept series no longer belong to its values)."""
    import ast as _ast
    P = chk.P
    for cq in ("eqsig.single.Signal", "eqsig.single.AccSignal"):
        ci = P.cls(cq)
        init = ci.find_method("__init__")
        I = Interp(P)
        I.atoms = {R, DT}
        st = State()
        fr = Frame(init, st, I)
        node = _ast.parse("X(v, d)").body[0].value
        oav = I.instantiate(fr, ci, [rec_array("values"), pos_scalar("dt", DT)], {}, node)
        chk.absorb_interp(I)
        v = st.heap[oav.obj].attrs.get("_values")
        pt = sorted(t for t in (v.origin if v is not None else ()) if t.startswith("p:"))
        unknown = v is None or v.indef or "?" in v.origin
        chk.ob(rule, "%s:%s.__init__{owns values}" % (ci.module.relpath, ci.name), "the stored values are a fresh array (a copy of the argument)",
               v is not None and not pt, derived="origin %s" % (sorted(v.origin) if v is not None else None), loc=init.loc(),
               inconclusive=(not pt and unknown))
        rv = ci.find_method("reset_values")
        if rv is None:
            continue
        I = Interp(P)
        I.atoms = {R, DT}
        st = State()
        o, oav = make_signal(I, st, ci, name="self", flags="unknown", is_param=False)
        bound = I.bind(rv, [oav], {rv.params[1]: rec_array("new_values", n="m")}, None, None)
        I.run(rv, bound, st, self_obj=o)
        chk.absorb_interp(I)
        v = st.heap[o.id].attrs.get("_values")
        pt = sorted(t for t in (v.origin if v is not None else ()) if t.startswith("p:"))
        unknown = v is None or v.indef or "?" in v.origin
        chk.ob(rule, "%s:%s.reset_values{owns values}" % (ci.module.relpath, ci.name), "the stored values are a fresh array (a copy of the argument)",
               v is not None and not pt, derived="origin %s" % (sorted(v.origin) if v is not None else None), loc=rv.loc(),
               inconclusive=(not pt and unknown))


_PINSIG = None


def positional_order(chk, rule, quals):
    """Callers may pass arguments by position: the positional parameters a public entry point had on the pinned tree keep their relative order,
    and a new positional parameter comes after all of them (a new keyword inserted in front, or two parameters swapped "to line up with a sibling",
    silently rebinds every positional call)."""
    global _PINSIG
    import json as _json, os as _os
    if _PINSIG is None:
        with open(_os.path.join(_os.path.dirname(_os.path.abspath(__file__)), "pinned_signatures.json"), encoding="utf-8") as fh:
            _PINSIG = _json.load(fh)
    for q in quals:
        pin = _PINSIG.get(q)
        try:
            fi = chk.P.fn(q)
        except Exception:
            fi = None
        if pin is None or fi is None:
            continue
        cur = list(fi.params)
        if fi.cls is not None and cur and cur[0] in ("self", "cls"):
            cur = cur[1:]
        kept = [p for p in pin if p in cur]
        pos = [cur.index(p) for p in kept]
        in_order = pos == sorted(pos)
        first_new = min([k for k, p in enumerate(cur) if p not in pin], default=len(cur))
        new_last = all(k < first_new for k in pos)
        chk.ob(rule, "%s:%s{positional order}" % (fi.module.relpath, fi.qualname.split(".", 1)[1]),
               "the positional parameters keep the order callers rely on (%s)" % ", ".join(pin), in_order and new_last,
               derived="now (%s)" % ", ".join(cur), loc=fi.loc(), nontrivial=False)


def libns_for(chk, rule, quals, only_roots=None):
    """Every NumPy / SciPy name referenced by the given (anchored) functions exists in the installed library -- resolved from the installed
    package's stubs / sources by sa/libns.py, nothing is imported or run.  A name the installed library does not export raises
    AttributeError on every call that reaches it: whatever the function is stated to compute, it computes nothing."""
    import ast as _ast
    from . import libns
    from .program import norm_stmt, local_imports_of
    P = chk.P
    n_ob = 0
    for q in quals:
        fi = P.functions.get(q)
        if fi is None:
            continue
        li = local_imports_of(fi)
        seen = {}
        for n in _ast.walk(fi.node):
            if isinstance(n, (_ast.Attribute, _ast.Name)):
                if isinstance(n, _ast.Attribute) and isinstance(getattr(n, "ctx", None), _ast.Store):
                    continue
                r = P.resolve_expr(fi.module, n, li)
                if r and r[0] == "lib":
                    seen.setdefault(r[1], n)
        keep = [n for n in seen if not any(o != n and o.startswith(n + ".") for o in seen)]
        done = chk.__dict__.setdefault("_libns_done", set())
        for name in sorted(keep):
            if (q, name) in done or (only_roots and name.split(".")[0] not in only_roots):
                continue
            done.add((q, name))
            ex = libns.exists(name)
            n_ob += 1
            chk.ob(rule, "%s:%s{%s}" % (fi.module.relpath, q.split(".", 1)[1], name), "%s exists in the installed library" % name, ex is True,
                   derived={True: "exported", False: "NOT exported by the installed %s" % name.split(".")[0], None: "cannot be resolved statically"}[ex],
                   loc=fi.loc(seen[name]), stmt=norm_stmt(seen[name]), inconclusive=ex is None,
                   detail="evaluating it raises AttributeError on every call that reaches it" if ex is False else None)
    return n_ob

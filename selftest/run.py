"""Self-test of the checkers: every breaking variant must be refuted (exit 1, naming the rule), every
behaviour-preserving twin must pass (exit 0).  Variants are single edits applied to a scratch copy of the
*current* /repo tree (outside /repo and /verif, removed afterwards).  Never runs eqsig code."""
import argparse
import concurrent.futures as cf
import importlib
import json
import os
import shutil
import subprocess
import sys
import tempfile

HERE = os.path.dirname(os.path.abspath(__file__))
VERIF = os.path.dirname(HERE)
REPO = os.environ.get("VERIF_REPO", "/repo")


def load_variants(props=None):
    out = []
    for fn in sorted(os.listdir(HERE)):
        if fn.startswith("v_") and fn.endswith(".py"):
            mod = importlib.import_module("selftest." + fn[:-3])
            for v in mod.VARIANTS:
                if props and v["prop"] not in props:
                    continue
                out.append(v)
    # a formatter pass over the whole package (comments, blank lines, line numbers, parentheses change; behaviour does not)
    for p in sorted(props or ["C%02d" % i for i in range(1, 21)]):
        out.append(dict(id="formatter-pass", prop=p, kind="twin", transform="unparse"))
    # the kept seeded changes (made by independent sub-agents, confirmed by hand; see seeded/<id>/meta.json): each must be
    # reported by the check of the property it was written to break
    sd = os.path.join(VERIF, "seeded")
    for d in sorted(os.listdir(sd)) if os.path.isdir(sd) else []:
        mp = os.path.join(sd, d, "meta.json")
        if not os.path.exists(mp):
            continue
        with open(mp, encoding="utf-8") as f:
            meta = json.load(f)
        if props and meta["property"] not in props:
            continue
        ck = meta.get("checks", {})
        if not ck.get("caught_by_own_property", True):
            if ck.get("own_check_exit") == 2:
                # the honest answer of the own check is exit 2 (the seed redesigns the construct beyond what the rule locates): asserted as such --
                # never a silent pass
                out.append(dict(id="seeded:" + d, prop=meta["property"], kind="break", patch=os.path.join(sd, d, "patch.diff"), inconclusive_ok=True))
            continue        # (a recorded silent miss, if there ever is one, is listed in seeded/MATRIX.md, not asserted)
        out.append(dict(id="seeded:" + d, prop=meta["property"], kind="break", patch=os.path.join(sd, d, "patch.diff")))
    # behaviour-preserving refactorings written by independent sub-agents (twins/<id>/patch.diff, each with the author's equivalence
    # program that was run once when the twin was kept): the checks must stay silent.  Pairs (twin, property) = the twin's own property
    # and every property whose check said anything about it when it was first evaluated.  `inconclusive_ok` lists the pairs where the
    # honest answer is exit 2 (the algorithm was redesigned beyond what the rule knows; see DESIGN.md 9.9).
    td = os.path.join(VERIF, "twins")
    # pairs where the honest answer is exit 2, each with its reason: twins/known_inconclusive.json
    known_inconclusive = set()
    kp = os.path.join(td, "known_inconclusive.json")
    if os.path.exists(kp):
        with open(kp, encoding="utf-8") as f:
            known_inconclusive = {(x["twin"], x["property"]) for x in json.load(f)}
    for d in sorted(os.listdir(td)) if os.path.isdir(td) else []:
        pf = os.path.join(td, d, "patch.diff")
        if not os.path.exists(pf):
            continue
        own = d.split("-")[0]
        also = set()
        fe = os.path.join(td, d, "first_eval.json")
        if os.path.exists(fe):
            try:
                with open(fe, encoding="utf-8") as f:
                    also = set(json.load(f).get("checks", {}))
            except ValueError:
                pass
        for p in sorted({own} | also):
            if props and p not in props:
                continue
            out.append(dict(id="twin:" + d, prop=p, kind="twin", patch=pf, inconclusive_ok=(d, p) in known_inconclusive))
    return out


def apply_edit(root, v):
    if v.get("transform") == "unparse":
        import ast
        for dirpath, _, files in os.walk(os.path.join(root, "eqsig")):
            for fn in files:
                if fn.endswith(".py"):
                    p = os.path.join(dirpath, fn)
                    with open(p, encoding="utf-8") as f:
                        src = f.read()
                    with open(p, "w", encoding="utf-8") as f:
                        f.write(ast.unparse(ast.parse(src)) + "\n")
        return None
    if v.get("patch"):
        r = subprocess.run(["git", "apply", "--include=eqsig/*", v["patch"]], cwd=root, capture_output=True, text=True,
                           env=dict(os.environ, GIT_CEILING_DIRECTORIES=os.path.dirname(root)))
        if r.returncode != 0:
            return "patch does not apply to the current tree: %s" % r.stderr.strip()[:200]
        if not (v.get("edits") or v.get("file")):
            return None
    edits = v.get("edits") or [(v["file"], v["old"], v["new"])]
    for file, old, new in edits:
        p = os.path.join(root, file)
        with open(p, encoding="utf-8") as f:
            s = f.read()
        n = s.count(old)
        want = v.get("count", 1)
        if n != want:
            return "construct not located (%d occurrences, expected %d): %r" % (n, want, old[:60])
        s = s.replace(old, new)
        try:
            compile(s, p, "exec")
        except SyntaxError as e:
            return "variant does not compile: %s" % e
        with open(p, "w", encoding="utf-8") as f:
            f.write(s)
    return None


def run_one(v):
    tmp = tempfile.mkdtemp(prefix="eqsig_st_")
    try:
        shutil.copytree(os.path.join(REPO, "eqsig"), os.path.join(tmp, "eqsig"),
                        ignore=shutil.ignore_patterns("__pycache__"))
        err = apply_edit(tmp, v)
        if err:
            return v, "UNLOCATED", err, ""
        env = dict(os.environ, VERIF_EVIDENCE_DIR=os.path.join(tmp, "ev"), VERIF_REPLAY_DIR=os.path.join(tmp, "rp"))
        r = subprocess.run([os.path.join(VERIF, "check"), v["prop"], "--repo", tmp], capture_output=True, text=True,
                           env=env, timeout=300)
        out = r.stdout + r.stderr
        if v["kind"] == "break":
            ok = r.returncode == 1 and "VIOLATION property=%s" % v["prop"] in out
            if ok and v.get("rule"):
                ok = any(l.startswith("REFUTED " + v["rule"]) for l in out.splitlines())
            if ok and v.get("names"):
                ok = any(l.startswith("REFUTED") and v["names"] in l for l in out.splitlines())
            if not ok and v.get("inconclusive_ok") and r.returncode == 2 and "VIOLATION" not in out:
                return v, "INCONCL-OK", "", ""
            return v, "CAUGHT" if ok else ("MISSED(exit=%d)" % r.returncode), "", out
        ok = (r.returncode == 0 or (v.get("inconclusive_ok") and r.returncode == 2)) and "VIOLATION" not in out
        return v, "SILENT" if ok else ("FALSE-ALARM(exit=%d)" % r.returncode), "", out
    finally:
        shutil.rmtree(tmp, ignore_errors=True)


def main(argv=None):
    ap = argparse.ArgumentParser()
    ap.add_argument("--props", default="")
    ap.add_argument("--jobs", type=int, default=16)
    ap.add_argument("--verbose", action="store_true")
    ap.add_argument("--only", default="")
    a = ap.parse_args(argv)
    sys.path.insert(0, VERIF)
    props = set(p.upper() for p in a.props.split(",") if p)
    vs = load_variants(props)
    if a.only:
        vs = [v for v in vs if a.only in v["id"]]
    bad = 0
    with cf.ThreadPoolExecutor(max_workers=a.jobs) as ex:
        for v, status, err, out in ex.map(run_one, vs):
            good = status in ("CAUGHT", "SILENT", "INCONCL-OK")
            if not good:
                bad += 1
            print("%-12s %-5s %-6s %-44s %s" % (status, v["prop"], v["kind"], v["id"], err))
            if (not good or a.verbose) and out:
                for l in out.splitlines():
                    if l.startswith(("REFUTED", "VIOLATION", "ANALYSIS-ERROR", "INCONCLUSIVE", "Traceback", "  File", "KNOWN")) or "Error" in l:
                        print("      | " + l[:300])
    print("selftest: %d variants, %d not as expected" % (len(vs), bad))
    return 1 if bad else 0


if __name__ == "__main__":
    sys.exit(main())

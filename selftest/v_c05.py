def B(id, file, old, new, rule=None, names=None, **kw):
    return dict(id=id, prop="C05", kind="break", file=file, old=old, new=new, rule=rule, names=names, **kw)


def T(id, file, old, new, **kw):
    return dict(id=id, prop="C05", kind="twin", file=file, old=old, new=new, **kw)


PK = "eqsig/fns/peaks_and_crossings.py"
S = "eqsig/single.py"
VARIANTS = [
    B("delta-series-no-copy", PK, "    values = np.array(values)\n    # rebase to zero as first value\n    values -= values[0]\n    # remove all non-changing values\n    cleaned_values, non_zero_indices = clean_out_non_changing(values)\n    cleaned_values *= np.sign(cleaned_values[1])  # ensure first value is increasing\n    # compute delta peaks for cleaned data\n    cleaned_delta_peak_series = determine_peak_only_delta_series_4_cleaned_data(cleaned_values)",
      "    # rebase to zero as first value\n    values -= values[0]\n    # remove all non-changing values\n    cleaned_values, non_zero_indices = clean_out_non_changing(values)\n    cleaned_values *= np.sign(cleaned_values[1])  # ensure first value is increasing\n    # compute delta peaks for cleaned data\n    cleaned_delta_peak_series = determine_peak_only_delta_series_4_cleaned_data(cleaned_values)",
      "R-NOMUT", names="determine_peaks_only_delta_series"),
    B("pseudo-cyclic-asarray", PK, "    values = np.array(values)\n    # rebase to zero as first value\n    values -= values[0]\n    # remove all non-changing values\n    cleaned_values, non_zero_indices = clean_out_non_changing(values)\n    cleaned_values *= np.sign(cleaned_values[1])  # ensure first value is increasing\n    # compute delta peaks for cleaned data\n    cleaned_delta_peak_series = _determine",
      "    values = np.asarray(values)\n    # rebase to zero as first value\n    values -= values[0]\n    # remove all non-changing values\n    cleaned_values, non_zero_indices = clean_out_non_changing(values)\n    cleaned_values *= np.sign(cleaned_values[1])  # ensure first value is increasing\n    # compute delta peaks for cleaned data\n    cleaned_delta_peak_series = _determine",
      "R-NOMUT", names="determine_pseudo_cyclic_peak_only_series"),
    B("ctor-asarray", S, "        self._values = np.array(values)\n", "        self._values = np.asarray(values)\n", "R-OWN"),
    B("reset-no-copy", S, "        self._values = np.array(new_values)\n        self._npts = len(self._values)\n",
      "        self._values = new_values\n        self._npts = len(self._values)\n", "R-OWN"),
    B("reset-asarray", S, "        self._values = np.array(new_values)\n", "        self._values = np.asarray(new_values)\n", "R-OWN"),
    B("njr-inplace-negate", "eqsig/sdof.py", "    acc = -np.array(acc, dtype=float)\n", "    acc *= -1\n", "R-NOMUT", names="nigam_and_jennings_response"),
    B("cumsum-out-arg", "eqsig/im.py", "    cum_acc2 = np.cumsum(motion ** 2)\n", "    motion **= 2\n    cum_acc2 = np.cumsum(motion, out=motion)\n", "R-NOMUT"),
    B("sort-arg-inplace", "eqsig/fns/frequency.py", "    max_fas1 = max(fas1_smooth)\n    lim_fas = max_fas1 / ratio\n",
      "    fas1_smooth.sort()\n    max_fas1 = fas1_smooth[-1]\n    lim_fas = max_fas1 / ratio\n", "R-NOMUT"),
    B("callee-mutates", PK, "    diff_values = np.ediff1d(values, to_begin=values[0])\n", "    values[0] += 0.0\n    diff_values = np.ediff1d(values, to_begin=values[0])\n",
      "R-NOMUT", names="clean_out_non_changing"),
    B("surface-inplace-values", "eqsig/surface.py", "    up_wave = np.pad(asig.values, (0, max_shift), mode='constant', constant_values=0)\n    dshifted = np.arange(asig.npts + max_shift)[np.newaxis, :] - shifts[:, np.newaxis]  # TODO: not needed if shifts is scalar\n    down_waves = np.interp(dshifted, np.arange(asig.npts), asig.values, left=0, right=0)\n    if hasattr(up_red, '__len__'):\n        up_wave = up_wave[np.newaxis, :] * up_red[:, np.newaxis]  # 1d\n        down_waves *= down_red[:, np.newaxis]\n    else:\n        up_wave = up_wave * up_red  # 1d  # TODO: may need to increase dimensions here\n        down_waves *= down_red\n    if nodal:\n        acc_series = - down_waves + up_wave\n    else:\n        acc_series = down_waves + up_wave\n    velocity",
      "    up_wave = np.pad(asig.values, (0, max_shift), mode='constant', constant_values=0)\n    dshifted = np.arange(asig.npts + max_shift)[np.newaxis, :] - shifts[:, np.newaxis]  # TODO: not needed if shifts is scalar\n    down_waves = np.interp(dshifted, np.arange(asig.npts), asig.values, left=0, right=0)\n    if hasattr(up_red, '__len__'):\n        up_wave = up_wave[np.newaxis, :] * up_red[:, np.newaxis]  # 1d\n        down_waves *= down_red[:, np.newaxis]\n    else:\n        up_wave = asig.values\n        up_wave *= up_red\n        up_wave = np.pad(up_wave, (0, max_shift), mode='constant', constant_values=0)\n        down_waves *= down_red\n    if nodal:\n        acc_series = - down_waves + up_wave\n    else:\n        acc_series = down_waves + up_wave\n    velocity",
      "R-NOMUT", names="calc_surface_energy"),
    T("stockwell-complex-copy-overwrite", "eqsig/stockwell.py", "    fa = fft(acc_db, n_factor, overwrite_x=True)\n",
      "    acc_db = np.asarray(acc, dtype=complex)\n    fa = fft(acc_db, n_factor, overwrite_x=True)\n"),
    B("time-match-list", "eqsig/multiple.py", "                slave_signal.reset_values(m_temp)\n",
      "                slave_signal._values = m_temp\n                slave_signal.clear_cache()\n", "R-KIND"),
    B("time-wrong-start", S, "        return np.arange(0, self.npts) * self.dt\n", "        return np.arange(1, self.npts + 1) * self.dt\n", "R-TIME"),
    B("time-wrong-len", S, "        return np.arange(0, self.npts) * self.dt\n", "        return np.arange(0, self.npts - 1) * self.dt\n", "R-TIME"),
    B("rng-jitter", "eqsig/im.py", "    abs_acc = np.abs(acc_sig.values)\n    return cumulative_trapezoid(",
      "    abs_acc = np.abs(acc_sig.values) + 1e-12 * np.random.rand(acc_sig.npts)\n    return cumulative_trapezoid(", "R-PURE"),
    B("global-cache", "eqsig/im.py", "def calc_peak(motion):\n    \"\"\"Calculates the peak absolute response\"\"\"\n",
      "_LAST = {}\n\n\ndef calc_peak(motion):\n    \"\"\"Calculates the peak absolute response\"\"\"\n    global _LAST\n", "R-PURE"),
    B("interp-left-appends", "eqsig/fns/generic.py", "        x0 = [x0]\n", "        x0 = [x0]\n    else:\n        x0.append(x0[-1])\n", "R-NOMUT"),
    # twins
    T("copy-via-np-copy", PK, "    values = np.array(values, dtype=float)\n    # remove all non-changing values\n",
      "    values = np.copy(values).astype(float)\n    # remove all non-changing values\n"),
    T("reset-copy-astype", S, "        self._values = np.array(new_values)\n", "        self._values = np.array(new_values, dtype=float)\n"),
    T("inplace-on-fresh", "eqsig/im.py", "    abs_acc = np.abs(acc_sig.values)\n    return cumulative_trapezoid(",
      "    abs_acc = np.abs(acc_sig.values)\n    abs_acc *= 1.0\n    return cumulative_trapezoid("),
    T("ctor-copy-method", S, "        self._values = np.array(values)\n", "        self._values = np.array(values).copy()\n"),
    T("rolling-explicit-copy", S, "            self._values -= roll\n", "            self._values = self._values - roll\n"),
]

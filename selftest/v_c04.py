S = "eqsig/single.py"


def B(id, old, new, rule=None, names=None, file=S, **kw):
    return dict(id=id, prop="C04", kind="break", file=file, old=old, new=new, rule=rule, names=names, **kw)


def T(id, old, new, file=S, **kw):
    return dict(id=id, prop="C04", kind="twin", file=file, old=old, new=new, **kw)


ACC_CLEAR = '''    def clear_cache(self):
        self._cached_smooth_fa = False
        self._cached_fa = False
        self._cached_response_spectra = False
        self._cached_disp_and_velo = False
        self.reset_all_motion_stats()
'''
SIG_CLEAR = '''        """Resets the dynamically calculated properties."""
        self._cached_smooth_fa = False
        self._cached_fa = False
'''

VARIANTS = [
    B("clear-sig-drop-fa", SIG_CLEAR, SIG_CLEAR.replace("        self._cached_fa = False\n", ""), "R-INV"),
    B("clear-sig-drop-smooth", SIG_CLEAR, SIG_CLEAR.replace("        self._cached_smooth_fa = False\n", ""), "R-CLEAR"),
    B("clear-acc-drop-fa", ACC_CLEAR, ACC_CLEAR.replace("        self._cached_fa = False\n", ""), "R-CLEAR"),
    B("clear-acc-drop-smooth", ACC_CLEAR, ACC_CLEAR.replace("        self._cached_smooth_fa = False\n", ""), "R-CLEAR"),
    B("clear-acc-drop-rs", ACC_CLEAR, ACC_CLEAR.replace("        self._cached_response_spectra = False\n", ""), "R-CLEAR"),
    B("clear-acc-drop-dv", ACC_CLEAR, ACC_CLEAR.replace("        self._cached_disp_and_velo = False\n", ""), "R-CLEAR"),
    B("clear-acc-drop-stats", ACC_CLEAR, ACC_CLEAR.replace("        self.reset_all_motion_stats()\n", ""), "R-CLEAR"),
    B("stats-drop-memo", "        self.arias_intensity = 0.0\n        self._cached_params = {}\n",
      "        self.arias_intensity = 0.0\n", "R-CLEAR"),
    B("running-average-no-clear", "                self._values[i] = np.mean(mot[cc1:cc2])\n\n        self.clear_cache()\n",
      "                self._values[i] = np.mean(mot[cc1:cc2])\n", "R-INV", names="running_average"),
    B("rolling-average-no-clear", "            self._values -= roll\n        self.clear_cache()\n",
      "            self._values -= roll\n", "R-INV", names="remove_rolling_average"),
    B("rolling-average-clear-one-branch", "            self._values = acc\n        else:\n            self._values -= roll\n        self.clear_cache()\n",
      "            self._values = acc\n            self.clear_cache()\n        else:\n            self._values -= roll\n", "R-INV",
      names="remove_rolling_average"),
    B("rebase-no-clear", "        self._values -= acceleration_correction\n        self.clear_cache()\n",
      "        self._values -= acceleration_correction\n", "R-INV", names="rebase_displacement"),
    B("zero-resid-vel-no-reset", "        delta_acc = post_vel / self.dt / nsteps\n        vals = self.values\n        vals[si:ei] -= delta_acc\n        self.reset_values(vals)\n",
      "        delta_acc = post_vel / self.dt / nsteps\n        vals = self.values\n        vals[si:ei] -= delta_acc\n", "R-INV",
      names="set_zero_residual_velocity"),
    B("setter-forgets-flag", "        self._smooth_fa_freqs = np.array(freqs, dtype=float)\n        self._cached_smooth_fa = False\n",
      "        self._smooth_fa_freqs = np.array(freqs, dtype=float)\n", "R-INV", names="smooth_fa_freqs"),
    B("range-setter-forgets-flag", "        self._smooth_freq_range = np.array(limits)\n        self._cached_smooth_fa = False\n",
      "        self._smooth_freq_range = np.array(limits)\n", "R-INV"),
    B("reset-values-no-clear", "        self._npts = len(self._values)\n        self.clear_cache()\n",
      "        self._npts = len(self._values)\n", "R-INV", names="reset_values"),
    B("reset-values-no-npts", "        self._npts = len(self._values)\n        self.clear_cache()\n",
      "        self.clear_cache()\n", "R-NPTS"),
    B("new-mutator", "    def add_series(self, series):\n",
      "    def scale(self, factor):\n        self._values *= factor\n\n    def add_series(self, series):\n", "R-INV", names="scale"),
    B("rs-setter-forgets", "        self._response_times = response_times\n        self._cached_response_spectra = False\n",
      "        self._response_times = response_times\n", "R-INV"),
    B("correct-me-direct-store", "        self.reset_values(acc)\n", "        self._values = acc\n", "R-INV", names="correct_me"),
    B("getter-impure", "        if not self._cached_disp_and_velo:\n            self.generate_displacement_and_velocity_series()\n        return self._velocity\n",
      "        if not self._cached_disp_and_velo:\n            self.generate_displacement_and_velocity_series()\n            self._values = self._values - self._values[0]\n        return self._velocity\n",
      "R-GETPURE"),
    B("pgv-wrong-memo-key", '            pgv = im.calc_peak(self.velocity)\n            self._cached_params["pgv"] = pgv\n',
      '            pgv = im.calc_peak(self.velocity)\n            self._cached_params["pga"] = pgv\n', None),
    B("external-writer", "def calc_peak(motion):\n", "def _sneaky(asig):\n    asig._cached_fa = True\n\n\ndef calc_peak(motion):\n",
      "R-WHOWRITES", file="eqsig/im.py"),
    B("init-flag-true", "        self._cached_disp_and_velo = False\n        self._cached_xi = 0.05\n",
      "        self._cached_disp_and_velo = True\n        self._cached_xi = 0.05\n", "R-INIT"),
    # --- behaviour-preserving twins
    T("clear-reordered", ACC_CLEAR, '''    def clear_cache(self):
        self.reset_all_motion_stats()
        self._cached_disp_and_velo = False
        self._cached_response_spectra = False
        self._cached_fa = False
        self._cached_smooth_fa = False
'''),
    T("clear-via-helper", ACC_CLEAR, '''    def _invalidate_spectra(self):
        self._cached_smooth_fa = False
        self._cached_fa = False
        self._cached_response_spectra = False

    def clear_cache(self):
        self._invalidate_spectra()
        self._cached_disp_and_velo = False
        self.reset_all_motion_stats()
'''),
    T("clear-via-super", ACC_CLEAR, '''    def clear_cache(self):
        super(AccSignal, self).clear_cache()
        self._cached_response_spectra = False
        self._cached_disp_and_velo = False
        self.reset_all_motion_stats()
'''),
    T("memo-dict-call", "        self._cached_params = {}\n        self._cached_response_spectra = False",
      "        self._cached_params = dict()\n        self._cached_response_spectra = False"),
    T("memo-clear-method", "        self.arias_intensity = 0.0\n        self._cached_params = {}\n",
      "        self.arias_intensity = 0.0\n        self._cached_params.clear()\n"),
    T("extra-invalidation", "        self.reset_values(self.values + constant)\n",
      "        self.reset_values(self.values + constant)\n        self.clear_cache()\n"),
    T("inline-clear-in-reset", "        self._npts = len(self._values)\n        self.clear_cache()\n",
      "        self._npts = len(self._values)\n        self._cached_fa = False\n        self.clear_cache()\n"),
    T("rebase-via-reset", "        self._values -= acceleration_correction\n        self.clear_cache()\n",
      "        self.reset_values(self._values - acceleration_correction)\n"),
    T("getter-renamed-local", "            pga = im.calc_peak(self.values)\n            self._cached_params[\"pga\"] = pga\n            return pga\n",
      "            peak = im.calc_peak(self.values)\n            self._cached_params[\"pga\"] = peak\n            return peak\n"),
]

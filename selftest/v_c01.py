def B(id, file, old, new, rule=None, **kw):
    return dict(id=id, prop="C01", kind="break", file=file, old=old, new=new, rule=rule, **kw)


def T(id, file, old, new, **kw):
    return dict(id=id, prop="C01", kind="twin", file=file, old=old, new=new, **kw)


SD = "eqsig/sdof.py"
S = "eqsig/single.py"
A1 = "        sdof_acc[s:] = -2 * xi * w[:, np.newaxis] * resp_v[s:] - w2[:, np.newaxis] * resp_u[s:]\n"
A2 = "        sdof_acc = -2 * xi * w[:, np.newaxis] * resp_v[s:] - w2[:, np.newaxis] * resp_u[s:]\n"
U = "        resp_u[s:, i + 1] = (a[0][0] * resp_u[s:, i] + a[0][1] * resp_v[s:, i] + b[0][0] * acc[i] + b[0][1] * acc[i + 1])\n"
VARIANTS = [
    # closed forms and recurrence
    B("nj-a12-missing-sqrt", SD, "    a_12 = exp_b / (w * sqrt_b2) * sin_wsqrt", "    a_12 = exp_b / w * sin_wsqrt", "R-NJ-COEF"),
    B("nj-a21-sign", SD, "    a_21 = -w / sqrt_b2 * exp_b * sin_wsqrt", "    a_21 = w / sqrt_b2 * exp_b * sin_wsqrt", "R-NJ-COEF"),
    B("nj-exp-sign", SD, "    exp_b = np.exp(-xi * w * dt)", "    exp_b = np.exp(xi * w * dt)", "R-NJ-COEF"),
    B("nj-two-b-ov-w3-power", SD, "    two_b_ov_w3 = 2 * xi / (w ** 3 * dt)", "    two_b_ov_w3 = 2 * xi / (w ** 2 * dt)", "R-NJ-COEF"),
    B("nj-b12-sign-tail", SD, "- one_ov_w2 + two_b_ov_w3\n", "- one_ov_w2 - two_b_ov_w3\n", "R-NJ-COEF"),
    B("nj-b21-dt-missing", SD, "(wsqrtsin + xwcos)) + one_ov_w2 / dt\n", "(wsqrtsin + xwcos)) + one_ov_w2\n", "R-NJ-COEF"),
    B("nj-undamped-frequency-in-sin", SD, "    sin_wsqrt = np.sin(w_sqrt_b2 * dt)", "    sin_wsqrt = np.sin(w * dt)", "R-NJ-COEF"),
    B("nj-cos-from-sin", SD, "    cos_wsqrt = np.cos(w_sqrt_b2 * dt)", "    cos_wsqrt = np.sqrt(1. - sin_wsqrt ** 2)", "R-NJ-COEF"),
    B("nj-matrix-transposed", SD, "    a = np.array([[a_11, a_12], [a_21, a_22]])", "    a = np.array([[a_11, a_21], [a_12, a_22]])", "R-NJ-COEF"),
    B("nj-rec-b-entries-swapped", SD, "        resp_u[s:, i + 1] = (a[0][0] * resp_u[s:, i] + a[0][1] * resp_v[s:, i] + b[0][0] * acc[i] + b[0][1] * acc[i + 1])\n", "        resp_u[s:, i + 1] = (a[0][0] * resp_u[s:, i] + a[0][1] * resp_v[s:, i] + b[0][1] * acc[i] + b[0][0] * acc[i + 1])\n", "R-NJ-REC"),
    B("nj-rec-v-uses-a0", SD, "        resp_v[s:, i + 1] = (a[1][0] * resp_u[s:, i] + a[1][1] * resp_v[s:, i] + b[1][0] * acc[i] + b[1][1] * acc[i + 1])\n", "        resp_v[s:, i + 1] = (a[0][0] * resp_u[s:, i] + a[1][1] * resp_v[s:, i] + b[1][0] * acc[i] + b[1][1] * acc[i + 1])\n", "R-NJ-REC"),
    B("nj-rec-load-not-negated", SD, "    acc = -np.array(acc, dtype=float)\n", "    acc = np.array(acc, dtype=float)\n", "R-NJ-REC"),
    B("nj-rec-args-swapped", SD, "    a, b = compute_a_and_b(xi, w, dt)\n", "    a, b = compute_a_and_b(xi, dt, w)\n", "R-NJ-REC"),
    B("nj-rec-unpack-swapped", SD, "    a, b = compute_a_and_b(xi, w, dt)\n", "    b, a = compute_a_and_b(xi, w, dt)\n", "R-NJ-REC"),
    T("nj-xi2-power-form", SD, "    xi2 = xi * xi  # D2", "    xi2 = xi ** 2  # D2"),
    T("nj-sqrt-as-power", SD, "    sqrt_b2 = np.sqrt(1. - xi2)", "    sqrt_b2 = (1. - xi2) ** 0.5"),
    T("nj-cos-arg-reordered", SD, "    cos_wsqrt = np.cos(w_sqrt_b2 * dt)", "    cos_wsqrt = np.cos(dt * w * sqrt_b2)"),
    T("nj-a11-expanded", SD, "    a_11 = exp_b * (xi / sqrt_b2 * sin_wsqrt + cos_wsqrt)", "    a_11 = exp_b * cos_wsqrt + exp_b * xi * sin_wsqrt / sqrt_b2"),
    T("nj-b22-regrouped", SD, "    b_22 = -exp_b * (two_b_ov_w2 * (cos_wsqrt - xi / sqrt_b2 * sin_wsqrt) - two_b_ov_w3 * (wsqrtsin + xwcos)) - one_ov_w2 / dt",
      "    b_22 = exp_b * (two_b_ov_w3 * (wsqrtsin + xwcos) - two_b_ov_w2 * (cos_wsqrt - xi / sqrt_b2 * sin_wsqrt)) - 1. / (w2 * dt)"),
    T("nj-rec-reordered-terms", SD, "        resp_u[s:, i + 1] = (a[0][0] * resp_u[s:, i] + a[0][1] * resp_v[s:, i] + b[0][0] * acc[i] + b[0][1] * acc[i + 1])\n", "        resp_u[s:, i + 1] = b[0][1] * acc[1 + i] + acc[i] * b[0][0] + resp_v[s:, i] * a[0][1] + a[0][0] * resp_u[s:, i]\n"),
    B("t0-sign-flip", SD, "        sdof_acc[0] = acc\n", "        sdof_acc[0] = -acc\n", "R-T0"),
    B("t0-row-scaled", SD, "        sdof_acc[0] = acc\n", "        sdof_acc[0] = acc * dt\n", "R-T0"),
    B("t0-stores-all-rows", SD, U, U.replace("resp_u[s:, i + 1] =", "resp_u[:, i + 1] =").replace("* resp_u[s:, i]", "* resp_u[:, i]").replace("resp_v[s:, i]", "resp_v[:, i]"), "R-T0"),
    B("t0-selector-inverted", SD, "    if periods[0] == 0:\n        s = 1\n    else:\n        s = 0\n    w = 6.2831853", "    if periods[0] == 0:\n        s = 0\n    else:\n        s = 1\n    w = 6.2831853", "R-T0"),
    B("t0-selector-near-zero", SD, "    if periods[0] == 0:\n        s = 1\n    else:\n        s = 0\n    w = 6.2831853", "    if periods[0] < 1e-3:\n        s = 1\n    else:\n        s = 0\n    w = 6.2831853", "R-T0"),
    B("acc-drop-2", SD, A1, A1.replace("-2 * xi", "-xi"), "R-ACC"),
    B("acc-drop-xi-else", SD, A2, A2.replace("-2 * xi * w", "-2 * w"), "R-ACC"),
    B("acc-sign-stiffness", SD, A2, A2.replace("- w2[:, np.newaxis] * resp_u[s:]", "+ w2[:, np.newaxis] * resp_u[s:]"), "R-ACC"),
    B("acc-w-not-squared", SD, "    w2 = w ** 2\n    if s:", "    w2 = w\n    if s:", "R-ACC"),
    B("acc-u-v-swapped", SD, A1, A1.replace("resp_v[s:] -", "resp_u[s:] -").replace("* resp_u[s:]\n", "* resp_v[s:]\n"), "R-ACC"),
    B("acc-return-order", SD, "    return resp_u, resp_v, sdof_acc\n", "    return resp_v, resp_u, sdof_acc\n", "R-ACC"),
    B("w-wrong-constant", SD, "    w = 6.2831853 / periods[s:]\n", "    w = 6.2381853 / periods[s:]\n", "R-ACC"),
    B("w-is-frequency", SD, "    w = 6.2831853 / periods[s:]\n", "    w = 1.0 / periods[s:]\n", "R-ACC"),
    B("fwd-swaps-dt-xi", SD, "    return nigam_and_jennings_response(motion, dt, periods, xi)\n", "    return nigam_and_jennings_response(motion, xi, periods, dt)\n", "R-FWD"),
    B("fwd-scales-motion", SD, "    return nigam_and_jennings_response(motion, dt, periods, xi)\n", "    return nigam_and_jennings_response(-motion, dt, periods, xi)\n", "R-FWD"),
    B("obj-passes-velocity", S, "        resp_u, resp_v, resp_a = dh.response_series(self.values, self.dt, self.response_times, xi)\n",
      "        resp_u, resp_v, resp_a = dh.response_series(self.velocity, self.dt, self.response_times, xi)\n", "R-FWD"),
    B("obj-returns-reordered", S, "        return resp_u, resp_v, resp_a\n", "        return resp_u, resp_a, resp_v\n", "R-FWD"),
    B("obj-ignores-xi", S, "        resp_u, resp_v, resp_a = dh.response_series(self.values, self.dt, self.response_times, xi)\n",
      "        resp_u, resp_v, resp_a = dh.response_series(self.values, self.dt, self.response_times, self._cached_xi)\n", "R-FWD"),
    # twins
    T("acc-factored", SD, A2, "        sdof_acc = -(w2[:, np.newaxis] * resp_u[s:] + 2 * xi * w[:, np.newaxis] * resp_v[s:])\n"),
    T("acc-w2-inline", SD, A1, "        sdof_acc[s:] = -2 * xi * w[:, np.newaxis] * resp_v[s:] - (w * w)[:, np.newaxis] * resp_u[s:]\n"),
    T("w-two-pi", SD, "    w = 6.2831853 / periods[s:]\n", "    w = 2 * np.pi / periods[s:]\n"),
    T("selector-neq", SD, "    if periods[0] == 0:\n        s = 1\n    else:\n        s = 0\n    w = 6.2831853", "    if periods[0] != 0:\n        s = 0\n    else:\n        s = 1\n    w = 6.2831853"),
    T("t0-neg-name", SD, "        sdof_acc[0] = acc\n", "        minus_record = acc\n        sdof_acc[0] = minus_record\n"),
    T("fwd-keywords", SD, "    return nigam_and_jennings_response(motion, dt, periods, xi)\n", "    return nigam_and_jennings_response(motion, dt, periods=periods, xi=xi)\n"),
]

def B(id, old, new, rule=None, file="eqsig/loader.py", **kw):
    return dict(id=id, prop="C16", kind="break", file=file, old=old, new=new, rule=rule, **kw)


def T(id, old, new, file="eqsig/loader.py", **kw):
    return dict(id=id, prop="C16", kind="twin", file=file, old=old, new=new, **kw)


VARIANTS = [
    B('writer-blocks-fused', '    para = [label, "%i %.4f" % (len(values), dt)]\n    for i in range(len(values)):\n        para.append("%.6f" % values[i])\n    ofile = open(ffp, "w")\n    ofile.write("\\n".join(para))\n    ofile.close()\n', '    step = 2 ** 16\n    with open(ffp, "w") as ofile:\n        ofile.write("%s\\n%i %.4f\\n" % (label, len(values), dt))\n        for i in range(0, len(values), step):\n            ofile.write("\\n".join(["%.6f" % v for v in values[i:i + step]]))\n', 'R-FMT-LAYOUT'),
    T('writer-blocks-separated', '    para = [label, "%i %.4f" % (len(values), dt)]\n    for i in range(len(values)):\n        para.append("%.6f" % values[i])\n    ofile = open(ffp, "w")\n    ofile.write("\\n".join(para))\n    ofile.close()\n', '    step = 2 ** 16\n    with open(ffp, "w") as ofile:\n        ofile.write("%s\\n%i %.4f\\n" % (label, len(values), dt))\n        for i in range(0, len(values), step):\n            ofile.write("\\n".join(["%.6f" % v for v in values[i:i + step]]) + "\\n")\n'),
    T('writer-streaming-lines', '    para = [label, "%i %.4f" % (len(values), dt)]\n    for i in range(len(values)):\n        para.append("%.6f" % values[i])\n    ofile = open(ffp, "w")\n    ofile.write("\\n".join(para))\n    ofile.close()\n', '    with open(ffp, "w") as ofile:\n        ofile.write(label + "\\n")\n        ofile.write("%i %.4f" % (len(values), dt))\n        for v in values:\n            ofile.write("\\n%.6f" % v)\n'),
    B('writer-streaming-no-newline-after-header', '    para = [label, "%i %.4f" % (len(values), dt)]\n    for i in range(len(values)):\n        para.append("%.6f" % values[i])\n    ofile = open(ffp, "w")\n    ofile.write("\\n".join(para))\n    ofile.close()\n', '    with open(ffp, "w") as ofile:\n        ofile.write(label + "\\n")\n        ofile.write("%i %.4f" % (len(values), dt))\n        for v in values:\n            ofile.write("%.6f\\n" % v)\n', 'R-FMT-LAYOUT'),
    T('writer-fstrings', '    para = [label, "%i %.4f" % (len(values), dt)]\n    for i in range(len(values)):\n        para.append("%.6f" % values[i])\n    ofile = open(ffp, "w")\n    ofile.write("\\n".join(para))\n    ofile.close()\n', '    para = [label, f"{len(values):d} {dt:.4f}"]\n    para += [f"{v:.6f}" for v in values]\n    with open(ffp, "w") as ofile:\n        ofile.write("\\n".join(para))\n'),
    T('writer-trailing-newline', '    para = [label, "%i %.4f" % (len(values), dt)]\n    for i in range(len(values)):\n        para.append("%.6f" % values[i])\n    ofile = open(ffp, "w")\n    ofile.write("\\n".join(para))\n    ofile.close()\n', '    para = [label, "%i %.4f" % (len(values), dt)]\n    for i in range(len(values)):\n        para.append("%.6f" % values[i])\n    ofile = open(ffp, "w")\n    ofile.write("\\n".join(para) + "\\n")\n    ofile.close()\n'),
    B('writer-blank-line-after-header', '    para = [label, "%i %.4f" % (len(values), dt)]\n    for i in range(len(values)):\n        para.append("%.6f" % values[i])\n    ofile = open(ffp, "w")\n    ofile.write("\\n".join(para))\n    ofile.close()\n', '    para = [label, "%i %.4f" % (len(values), dt), ""]\n    for i in range(len(values)):\n        para.append("%.6f" % values[i])\n    ofile = open(ffp, "w")\n    ofile.write("\\n".join(para))\n    ofile.close()\n', 'R-FMT-LAYOUT'),
    B('writer-append-mode', '    para = [label, "%i %.4f" % (len(values), dt)]\n    for i in range(len(values)):\n        para.append("%.6f" % values[i])\n    ofile = open(ffp, "w")\n    ofile.write("\\n".join(para))\n    ofile.close()\n', '    para = [label, "%i %.4f" % (len(values), dt)]\n    for i in range(len(values)):\n        para.append("%.6f" % values[i])\n    ofile = open(ffp, "a")\n    ofile.write("\\n".join(para))\n    ofile.close()\n', 'R-FMT-LAYOUT'),
    B('writer-two-values-per-line', '    para = [label, "%i %.4f" % (len(values), dt)]\n    for i in range(len(values)):\n        para.append("%.6f" % values[i])\n    ofile = open(ffp, "w")\n    ofile.write("\\n".join(para))\n    ofile.close()\n', '    para = [label, "%i %.4f" % (len(values), dt)]\n    for i in range(0, len(values) - 1, 2):\n        para.append("%.6f %.6f" % (values[i], values[i + 1]))\n    ofile = open(ffp, "w")\n    ofile.write("\\n".join(para))\n    ofile.close()\n', 'R-FMT-LAYOUT'),
    B("values-4-decimals", '        para.append("%.6f" % values[i])\n', '        para.append("%.4f" % values[i])\n', "R-FMT-PREC"),
    B("values-exponent", '        para.append("%.6f" % values[i])\n', '        para.append("%.6e" % values[i])\n', "R-FMT-PREC"),
    B("values-g", '        para.append("%.6f" % values[i])\n', '        para.append("%g" % values[i])\n', "R-FMT-PREC"),
    B("dt-2-decimals", '    para = [label, "%i %.4f" % (len(values), dt)]\n', '    para = [label, "%i %.2f" % (len(values), dt)]\n', "R-FMT-PREC"),
    B("header-swapped", '    para = [label, "%i %.4f" % (len(values), dt)]\n', '    para = [label, "%.4f %i" % (dt, len(values))]\n', "R-FMT-LAYOUT"),
    B("header-comma", '    para = [label, "%i %.4f" % (len(values), dt)]\n', '    para = [label, "%i,%.4f" % (len(values), dt)]\n', "R-FMT-LAYOUT"),
    B("no-label-line", '    para = [label, "%i %.4f" % (len(values), dt)]\n', '    para = ["%i %.4f" % (len(values), dt)]\n', "R-FMT-LAYOUT"),
    B("join-space", '    ofile.write("\\n".join(para))\n', '    ofile.write(" ".join(para))\n', "R-FMT-LAYOUT"),
    B("reader-skip-1", '    data = np.genfromtxt(ffp, skip_header=2, delimiter=",", usecols=0)\n', '    data = np.genfromtxt(ffp, skip_header=1, delimiter=",", usecols=0)\n', "R-FMT-LAYOUT"),
    B("reader-dt-token-0", "        dt = float(ifile.read().splitlines()[1].split()[1])\n", "        dt = float(ifile.read().splitlines()[1].split()[0])\n", "R-FMT-LAYOUT"),
    B("reader-dt-line-0", "        dt = float(ifile.read().splitlines()[1].split()[1])\n", "        dt = float(ifile.read().splitlines()[0].split()[1])\n", "R-FMT-LAYOUT"),
    B("reader-names-regression", '    data = np.genfromtxt(ffp, skip_header=2, delimiter=",", usecols=0)\n    with open(ffp) as ifile:\n        dt = float(ifile.read().splitlines()[1].split()[1])\n',
      '    data = np.genfromtxt(ffp, skip_header=1, delimiter=",", names=True, usecols=0)\n    dt = float("." + data.dtype.names[0].split("_")[-1][1:])\n', "R-FMT-LOSSY"),
    B("label-line-1", "        label = a.read().splitlines()[0]\n", "        label = a.read().splitlines()[1]\n", "R-FMT-LAYOUT"),
    B("m-scales-dt", "    return AccSignal(vals * m, dt, label=label)\n", "    return AccSignal(vals, dt * m, label=label)\n", "R-FMT-TYPE"),
    B("load-sig-ignores-m", "    return Signal(vals * m, dt)\n", "    return Signal(vals, dt)\n", "R-FMT-TYPE"),
    B("load-sig-wrong-class", "    return Signal(vals * m, dt)\n", "    return AccSignal(vals * m, dt)\n", "R-FMT-TYPE"),
    B("label-always-read", "    if load_label:\n        a = open(ffp)", "    if True:\n        a = open(ffp)", "R-FMT-TYPE"),
    B("default-unhandled", '    if astype == "signal" or astype == "sig":\n', '    if astype == "signal":\n', "R-FMT-TYPE"),
    B("acc-sig-returns-signal", '    elif astype == "acc_sig":\n        return AccSignal(vals, dt)\n', '    elif astype == "acc_sig":\n        return Signal(vals, dt)\n', "R-FMT-TYPE"),
    B("save-velocity", "    save_values_and_dt(ffp, signal.values, signal.dt, signal.label)\n", "    save_values_and_dt(ffp, signal.velocity, signal.dt, signal.label)\n", "R-FMT-FWD"),
    B("save-args-swapped", "    save_values_and_dt(ffp, signal.values, signal.dt, signal.label)\n", "    save_values_and_dt(ffp, signal.values, signal.label, signal.dt)\n", "R-FMT-FWD"),
    # twins
    T("values-8-decimals", '        para.append("%.6f" % values[i])\n', '        para.append("%.8f" % values[i])\n'),
    T("values-fstring", '        para.append("%.6f" % values[i])\n', '        para.append(f"{values[i]:.6f}")\n'),
    T("values-format-method", '        para.append("%.6f" % values[i])\n', '        para.append("{:.7f}".format(values[i]))\n'),
    T("header-d", '    para = [label, "%i %.4f" % (len(values), dt)]\n', '    para = [label, "%d %.5f" % (len(values), dt)]\n'),
    T("reader-readlines", "        dt = float(ifile.read().splitlines()[1].split()[1])\n", "        dt = float(ifile.readlines()[1].split()[1])\n"),
    T("astype-tuple-test", '    if astype == "signal" or astype == "sig":\n', '    if astype in ("signal", "sig"):\n'),
]

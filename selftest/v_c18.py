def B(id, old, new, rule=None, file="eqsig/multiple.py", **kw):
    return dict(id=id, prop="C18", kind="break", file=file, old=old, new=new, rule=rule, **kw)


def T(id, old, new, file="eqsig/multiple.py", **kw):
    return dict(id=id, prop="C18", kind="twin", file=file, old=old, new=new, **kw)


COMBO = "    combo = acc_sig_ns.values * np.cos(off_rad) + acc_sig_we.values * np.sin(off_rad)\n"
VARIANTS = [
    B("sin-to-cos", COMBO, COMBO.replace("np.sin(off_rad)", "np.cos(off_rad)"), "R-ROT"),
    B("cos-sin-swapped", COMBO, COMBO.replace("np.cos(", "np.XX(").replace("np.sin(", "np.cos(").replace("np.XX(", "np.sin("), "R-ROT"),
    B("no-radians", "    off_rad = np.radians(angle)\n", "    off_rad = angle\n", "R-ROT"),
    B("minus-we", COMBO, COMBO.replace("+ acc_sig_we", "- acc_sig_we"), "R-ROT"),
    B("we-twice", COMBO, COMBO.replace("acc_sig_ns.values *", "acc_sig_we.values *"), "R-ROT"),
    B("dt-of-nothing", "    new_sig = AccSignal(combo, acc_sig_ns.dt)\n", "    new_sig = AccSignal(combo, 1.0)\n", "R-ROT"),
    B("returns-signal-class", "    new_sig = AccSignal(combo, acc_sig_ns.dt)\n", "    new_sig = Signal(combo, acc_sig_ns.dt)\n", "R-ROT"),
    B("scan-first-angle", "        new_sig = combine_at_angle(acc_sig_ns, acc_sig_we, degrees[i])\n", "        new_sig = combine_at_angle(acc_sig_ns, acc_sig_we, degrees[0])\n", "R-ROT-SCAN"),
    B("scan-components-swapped", "        new_sig = combine_at_angle(acc_sig_ns, acc_sig_we, degrees[i])\n", "        new_sig = combine_at_angle(acc_sig_we, acc_sig_ns, degrees[i])\n", "R-ROT-SCAN"),
    B("scan-full-circle", "    degrees = np.linspace(0 - angle_off_ns, 180. - angle_off_ns, points)\n", "    degrees = np.linspace(0 - angle_off_ns, 360. - angle_off_ns, points)\n", "R-ROT-SCAN"),
    B("scan-offset-sign", "    degrees = np.linspace(0 - angle_off_ns, 180. - angle_off_ns, points)\n", "    degrees = np.linspace(0 + angle_off_ns, 180. + angle_off_ns, points)\n", "R-ROT-SCAN"),
    B("scan-arias-of-ns", "            pvalues.append(eqsig.im.calc_arias_intensity(new_sig)[-1])\n", "            pvalues.append(eqsig.im.calc_arias_intensity(acc_sig_ns)[-1])\n", "R-ROT-SCAN"),
    B("scan-double-append", "                pvalues.append(val[-1])\n", "                pvalues.append(val[-1])\n                pvalues.append(val[-1])\n", "R-ROT-SCAN"),
    B("scan-func-skips", "            else:\n                pvalues.append(val)\n", "            else:\n                pass\n", "R-ROT-SCAN"),
    B("same-start-index-1", "                slave_signal = self.signal_by_index(i)\n", "                slave_signal = self.signal_by_index(1)\n", "R-LOOPVAR"),
    B("same-start-guard-eq", "            if i != self.master_index:\n                slave_signal = self.signal_by_index(i)", "            if i == self.master_index:\n                slave_signal = self.signal_by_index(i)", "R-MASTER"),
    B("same-start-no-guard", "            if i != self.master_index:\n                slave_signal = self.signal_by_index(i)", "            if True:\n                slave_signal = self.signal_by_index(i)", "R-MASTER"),
    B("same-start-plus-diff", "                slave_signal.reset_values(slave_signal.values - diff)\n", "                slave_signal.reset_values(slave_signal.values + diff)\n", "R-MASTER"),
    B("same-start-master-from-0", "        master_average = self.signal_by_index(self.master_index).get_section_average(start=start, end=end)\n",
      "        master_average = self.signal_by_index(0).get_section_average(start=start, end=end)\n", "R-MASTER"),
    B("same-start-window-differs", "                slave_average = slave_signal.get_section_average(start=start, end=end)\n", "                slave_average = slave_signal.get_section_average(start=start)\n", "R-MASTER"),
    B("time-match-slave-const", "                    slave_signal = self.signal_by_index(s)\n", "                    slave_signal = self.signal_by_index(1)\n", "R-LOOPVAR"),
    B("time-match-guard-eq", "                if s != self.master_index:\n                    slave_signal = self.signal_by_index(s)", "                if s == self.master_index:\n                    slave_signal = self.signal_by_index(s)", "R-MASTER"),
    B("response-spectra-first-only", "            self.signal_by_index(i).generate_response_spectrum()\n", "            self.signal_by_index(0).generate_response_spectrum()\n", "R-LOOPVAR"),
    # lag search structure
    B("lag-skip-on-small-residual", "                    min_ind = 0\n                    if verbose:", "                    min_ind = 0\n                    if min_diff < 1e-8:\n                        continue\n                    if verbose:", "R-LAGSEARCH"),
    B("lag-sign-swapped", "                        min_ind = i + 0\n", "                        min_ind = -i\n", "R-LAGSEARCH"),
    B("lag-second-loop-same-direction", "                    squares = (bm[i:-steps + i] - om[0:-steps]) ** 2\n", "                    squares = (om[i:-steps + i] - bm[0:-steps]) ** 2\n", "R-LAGSEARCH"),
    B("lag-short-range", "                # Check base values lags other values\n                for i in range(steps):", "                # Check base values lags other values\n                for i in range(steps - 1):", "R-LAGSEARCH"),
    B("lag-window-off-by-one", "                    squares = (om[i:-steps + i] - bm[0:-steps]) ** 2\n", "                    squares = (om[i + 1:-steps + i] - bm[1:-steps]) ** 2\n", "R-LAGSEARCH"),
    B("lag-break-after-first-direction", "                # Check base values lags other values\n", "                if min_diff == 0.0:\n                    continue\n", "R-LAGSEARCH"),
    T("lag-plain-index", "                        min_ind = i + 0\n", "                        min_ind = i\n"),
    T("lag-window-rewritten", "                    squares = (om[i:-steps + i] - bm[0:-steps]) ** 2\n", "                    squares = (om[i:i - steps] - bm[:-steps]) ** 2\n"),
    T("lag-residual-order", "                    squares = (bm[i:-steps + i] - om[0:-steps]) ** 2\n", "                    squares = (om[0:-steps] - bm[i:-steps + i]) ** 2\n"),
    T("lag-zero-test-first", "                if min_ind < 0:  # pad with initial value\n                    m_temp = [om[0]] * abs(min_ind) + list(om[:min_ind])\n                elif min_ind > 0:  # pad with final value\n                    m_temp = list(om[min_ind:]) + [om[-1]] * abs(min_ind)\n                else:\n                    continue\n",
      "                if min_ind == 0:\n                    continue\n                if min_ind < 0:  # pad with initial value\n                    m_temp = [om[0]] * abs(min_ind) + list(om[:min_ind])\n                else:\n                    m_temp = list(om[min_ind:]) + [om[-1]] * abs(min_ind)\n"),
    # twins
    T("combo-reordered", COMBO, "    combo = np.sin(off_rad) * acc_sig_we.values + np.cos(off_rad) * acc_sig_ns.values\n"),
    T("deg2rad", "    off_rad = np.radians(angle)\n", "    off_rad = np.deg2rad(angle)\n"),
    T("manual-radians", "    off_rad = np.radians(angle)\n", "    off_rad = angle * np.pi / 180\n"),
    T("same-start-continue-form", "            if i != self.master_index:\n                slave_signal = self.signal_by_index(i)\n                slave_average = slave_signal.get_section_average(start=start, end=end)\n                diff = slave_average - master_average\n                if verbose:\n                    print('Same start the records')\n                    print('old difference in starts: ', diff)\n                slave_signal.reset_values(slave_signal.values - diff)\n",
      "            if i == self.master_index:\n                continue\n            slave_signal = self.signal_by_index(i)\n            slave_average = slave_signal.get_section_average(start=start, end=end)\n            diff = slave_average - master_average\n            slave_signal.reset_values(slave_signal.values - diff)\n"),
    T("scan-angle-name", "        new_sig = combine_at_angle(acc_sig_ns, acc_sig_we, degrees[i])\n", "        theta = degrees[i]\n        new_sig = combine_at_angle(acc_sig_ns, acc_sig_we, theta)\n"),
]

def B(id, old, new, rule=None, **kw):
    return dict(id=id, prop="C02", kind="break", file="eqsig/sdof.py", old=old, new=new, rule=rule, **kw)


def T(id, old, new, **kw):
    return dict(id=id, prop="C02", kind="twin", file="eqsig/sdof.py", old=old, new=new, **kw)


U = "        resp_u[s:, i + 1] = (a[0][0] * resp_u[s:, i] + a[0][1] * resp_v[s:, i] + b[0][0] * acc[i] + b[0][1] * acc[i + 1])\n"
V = "        resp_v[s:, i + 1] = (a[1][0] * resp_u[s:, i] + a[1][1] * resp_v[s:, i] + b[1][0] * acc[i] + b[1][1] * acc[i + 1])\n"
VARIANTS = [
    dict(id="memo-matrix-modified-in-place", prop="C02", kind="break", rule="R-LIN", edits=[
        ("eqsig/sdof.py", "def nigam_and_jennings_response(acc, dt, periods, xi):\n", "_AB_MEMO = {}\n\n\ndef nigam_and_jennings_response(acc, dt, periods, xi):\n"),
        ("eqsig/sdof.py", "    a, b = compute_a_and_b(xi, w, dt)\n",
         "    key = (xi, dt, w.tobytes())\n    if key not in _AB_MEMO:\n        _AB_MEMO[key] = compute_a_and_b(xi, w, dt)\n    a, b = _AB_MEMO[key]\n    b *= -1.\n")]),
    dict(id="memo-matrix-read-only", prop="C02", kind="twin", inconclusive_ok=True, edits=[
        ("eqsig/sdof.py", "def nigam_and_jennings_response(acc, dt, periods, xi):\n", "_AB_MEMO = {}\n\n\ndef nigam_and_jennings_response(acc, dt, periods, xi):\n"),
        ("eqsig/sdof.py", "    a, b = compute_a_and_b(xi, w, dt)\n",
         "    key = (xi, dt, w.tobytes())\n    if key not in _AB_MEMO:\n        _AB_MEMO[key] = compute_a_and_b(xi, w, dt)\n    a, b = _AB_MEMO[key]\n")]),
    B("add-constant", U, U.replace("+ b[0][1] * acc[i + 1])", "+ b[0][1] * acc[i + 1] + 1e-12)"), "R-LIN"),
    B("abs-in-recurrence", V, V.replace("b[1][0] * acc[i]", "b[1][0] * abs(acc[i])"), "R-LIN"),
    B("nonlinear-damping", V, V.replace("a[1][1] * resp_v[s:, i]", "a[1][1] * resp_v[s:, i] * (1 + abs(resp_v[s:, i]))"), "R-LIN"),
    B("read-future-record", U, U.replace("acc[i + 1])", "acc[i + 2])"), "R-CAUSAL"),
    B("read-current-state", U, U.replace("a[0][1] * resp_v[s:, i]", "a[0][1] * resp_v[s:, i + 1]"), "R-CAUSAL"),
    B("coefficient-uses-i", U, U.replace("a[0][0] * resp_u[s:, i]", "a[0][0] * (1 + 1e-9 * i) * resp_u[s:, i]"), "R-TINV"),
    B("store-col-0", U + V, U.replace("i + 1] =", "i] =").replace("resp_u[s:, i] +", "resp_u[s:, i - 1] +").replace("resp_v[s:, i] +", "resp_v[s:, i - 1] +").replace("acc[i] +", "acc[i - 1] +").replace("acc[i + 1])", "acc[i])") + V, "R-TINV"),
    B("nonzero-initial-state", "    resp_v = np.zeros([len(periods), len(acc)], dtype=float)\n", "    resp_v = np.ones([len(periods), len(acc)], dtype=float) * 1e-9\n", None),
    B("normalise-w", "    w = 6.2831853 / periods[s:]\n", "    w = 6.2831853 / periods[s:]\n    w = w / np.max(w) * w[0]\n", "R-ELEMWISE"),
    B("sort-periods", "    periods = np.array(periods, dtype=float)\n    if periods[0] == 0:\n        s = 1\n    else:\n        s = 0\n    w = 6.2831853",
      "    periods = np.sort(np.array(periods, dtype=float))\n    if periods[0] == 0:\n        s = 1\n    else:\n        s = 0\n    w = 6.2831853", "R-ELEMWISE"),
    B("mismatched-slices", U, U.replace("a[0][0] * resp_u[s:, i]", "a[0][0] * resp_u[0:, i]"), "R-ELEMWISE"),
    B("absmax-axis0", "    sds = absmax(resp_u, axis=1)\n    svs = w * sds\n", "    sds = absmax(resp_u, axis=0)\n    svs = w * sds\n", None),
    B("cumulative-over-periods", "    sas = w ** 2 * sds\n", "    sas = np.cumsum(w ** 2 * sds) / np.arange(1, len(sds) + 1)\n", "R-ELEMWISE"),
    B("rebinding-coefficient", U, "        a = a * 1.0000001\n" + U, "R-TINV"),
    B("acc-not-negated-copy-offset", "    acc = -np.array(acc, dtype=float)\n", "    acc = -np.array(acc, dtype=float) + 0.0 * dt - 1e-15\n", "R-LIN"),
    # twins
    T("hoist-coefficients", U + V, "        a00, a01, a10, a11 = a[0][0], a[0][1], a[1][0], a[1][1]\n" + U.replace("a[0][0]", "a00").replace("a[0][1]", "a01") + V.replace("a[1][0]", "a10").replace("a[1][1]", "a11")),
    T("loop-var-renamed", "    for i in range(len(acc) - 1):  # possibly speed up using scipy.signal.lfilter\n" , "    for k in range(len(acc) - 1):\n        i = k\n", ),
    T("next-index-name", U, "        j = i + 1\n" + U.replace("acc[i + 1]", "acc[i + 1]")),
    T("w2-inline", "    w2 = w ** 2\n    if s:", "    w2 = w * w\n    if s:"),
]

def B(id, old, new, rule=None, file="eqsig/single.py", **kw):
    return dict(id=id, prop="C17", kind="break", file=file, old=old, new=new, rule=rule, **kw)


def T(id, old, new, file="eqsig/single.py", **kw):
    return dict(id=id, prop="C17", kind="twin", file=file, old=old, new=new, **kw)


G = "eqsig/fns/generic.py"
SEL = "        elif cut_off[0] is None:\n            filter_type = 'low'\n            cut_off = cut_off[1]\n        else:\n            filter_type = 'high'\n            cut_off = cut_off[0]\n"
VARIANTS = [
    B("gibbs-buffer-shorter-than-record", "            nindex = int(np.ceil(np.log2(len(mote)))) + gibbs_extra\n", "            nindex = int(np.ceil(np.log2(len(mote)))) - gibbs_extra\n", "R-BP-LEN"),
    B("gibbs-buffer-not-a-power", "            new_len = 2 ** nindex\n", "            new_len = 2 * nindex\n", "R-BP-LEN"),
    B("gibbs-window-past-the-end", "            diff_len = new_len - org_len\n", "            diff_len = new_len + org_len\n", "R-BP-LEN"),
    T("gibbs-start-offset-one", "            if remove_gibbs == 'start':\n                s_len = 0\n", "            if remove_gibbs == 'start':\n                s_len = 1\n"),
    B("np-Array-regression", "isinstance(cut_off, np.ndarray)", "isinstance(cut_off, np.Array)", "R-LIBNS"),
    B("np-float-type", "        sampling_rate = 1.0 / self.dt\n", "        sampling_rate = np.float(1.0) / self.dt\n", "R-LIBNS"),
    B("low-high-swapped", SEL, SEL.replace("'low'", "'XX'").replace("'high'", "'low'").replace("'XX'", "'high'"), "R-BP-TYPE"),
    B("low-uses-0", SEL, SEL.replace("cut_off = cut_off[1]", "cut_off = cut_off[0]"), "R-BP-TYPE"),
    B("band-only-one", '            filter_type = "band"\n            cut_off = np.array(cut_off)\n', '            filter_type = "band"\n            cut_off = cut_off[0]\n', "R-BP-TYPE"),
    B("band-is-bandstop", '            filter_type = "band"\n', '            filter_type = "bandstop"\n', "R-BP-TYPE"),
    B("nyquist-no-half", "        nyq = sampling_rate * 0.5\n", "        nyq = sampling_rate\n", "R-BP-TYPE"),
    B("nyquist-times", "        wp = cut_off / nyq\n", "        wp = cut_off * nyq\n", "R-BP-TYPE"),
    B("order-ignored", "        b, a = butter(filter_order, wp, btype=filter_type)\n", "        b, a = butter(4, wp, btype=filter_type)\n", "R-BP-TYPE"),
    B("order-default-2", "        filter_order = kwargs.get('filter_order', 4)\n", "        filter_order = kwargs.get('filter_order', 2)\n", "R-BP-TYPE"),
    B("lfilter", "        from scipy.signal import butter, filtfilt\n", "        from scipy.signal import butter, lfilter as filtfilt\n", "R-BP-ZEROPHASE"),
    B("filtered-twice", "        mote = filtfilt(b, a, mote)\n", "        mote = filtfilt(b, a, filtfilt(b, a, mote))\n", "R-BP-ZEROPHASE"),
    B("gibbs-end-newlen", "                s_len = diff_len\n                f_len = s_len + org_len\n", "                s_len = diff_len\n                f_len = new_len + org_len\n", "R-BP-LEN"),
    B("gibbs-mid-shorter", "                s_len = int(diff_len / 2)\n                f_len = s_len + org_len\n", "                s_len = int(diff_len / 2)\n                f_len = s_len + org_len - 1\n", "R-BP-LEN"),
    B("final-slice-minus-1", "        mote = mote[s_len:f_len]  # TODO: don't use -1\n", "        mote = mote[s_len:f_len - 1]\n", "R-BP-LEN"),
    B("final-slice-shifted", "        mote = mote[s_len:f_len]  # TODO: don't use -1\n", "        mote = mote[s_len + 1:f_len + 1]\n", "R-BP-LEN"),
    B("embed-shifted", "            temp[s_len:f_len] = mote\n", "            temp[s_len + 1:f_len + 1] = mote\n", "R-BP-LEN"),
    T("embed-by-concatenate", "            temp = start_value * np.ones(new_len)\n            temp[f_len:] = end_value\n            temp[s_len:f_len] = mote\n            mote = temp\n",
      "            mote = np.concatenate((start_value * np.ones(s_len), mote, end_value * np.ones(new_len - f_len)))\n"),
    B("embed-by-concatenate-shifted", "            temp = start_value * np.ones(new_len)\n            temp[f_len:] = end_value\n            temp[s_len:f_len] = mote\n            mote = temp\n",
      "            mote = np.concatenate((start_value * np.ones(diff_len - s_len), mote, end_value * np.ones(s_len)))\n", "R-BP-LEN"),
    B("tuple-rejected", "        if isinstance(cut_off, list) or isinstance(cut_off, tuple) or isinstance(cut_off, np.ndarray):", "        if isinstance(cut_off, list) or isinstance(cut_off, np.ndarray):", "R-BP-TYPE"),
    B("abs-before-filter", "        mote = filtfilt(b, a, mote)\n", "        mote = filtfilt(b, a, np.abs(mote))\n", "R-BP-LEN"),
    B("poly-obj-drops-last", "        for co in range(len(cofs)):\n            mods = x ** (poly_fit - co)\n            y_cor += cofs[co] * mods\n\n        self.reset_values",
      "        for co in range(len(cofs) - 1):\n            mods = x ** (poly_fit - co)\n            y_cor += cofs[co] * mods\n\n        self.reset_values", "R-POLY-SIB"),
    B("poly-arr-power", "        mods = x ** (poly_fit - co)\n        y_cor += cofs[co] * mods\n\n    return values - y_cor\n", "        mods = x ** (poly_fit - co - 1)\n        y_cor += cofs[co] * mods\n\n    return values - y_cor\n", "R-POLY-SIB", file=G),
    B("poly-arr-adds", "    return values - y_cor\n", "    return values + y_cor\n", "R-POLY-SIB", file=G),
    B("poly-obj-abscissa", "        x = np.linspace(0, 1.0, self.npts)\n        cofs = np.polyfit(x, self.values, poly_fit)\n", "        x = np.linspace(0, 1.0, self.npts - 1)\n        cofs = np.polyfit(x, self.values[:-1], poly_fit)\n", "R-POLY-SIB"),
    B("add-series-no-guard", "        if len(series) == self.npts:\n            self.reset_values(self.values + series)\n        else:\n            raise exceptions.SignalProcessingError(\"new series has different length to Signal\")\n",
      "        self.reset_values(self.values + series)\n", "R-ADD-GUARD"),
    B("add-series-guard-inverted", "        if len(series) == self.npts:\n", "        if len(series) != self.npts:\n", "R-ADD-GUARD"),
    B("add-signal-no-dt-check", "            if new_signal.dt == self.dt:\n                self.add_series(new_signal.values)\n            else:\n                raise exceptions.SignalProcessingError(\"New signal has different time step\")\n",
      "            self.add_series(new_signal.values)\n", "R-ADD-GUARD"),
    B("add-constant-multiplies", "        self.reset_values(self.values + constant)\n", "        self.reset_values(self.values * constant)\n", "R-ADD-GUARD"),
    B("running-alias-regression", "        mot = np.array(self.values)\n", "        mot = self.values\n", "R-RA-ALIAS"),
    B("running-alias-view", "        mot = np.array(self.values)\n", "        mot = np.asarray(self.values)[:]\n", "R-RA-ALIAS"),
    B("running-window-off-by-one", "                cc1 = i - int(width / 2)\n                cc2 = i + int(width / 2) + 1\n                self._values[i] = np.mean(mot[cc1:cc2])",
      "                cc1 = i - int(width / 2)\n                cc2 = i + int(width / 2)\n                self._values[i] = np.mean(mot[cc1:cc2])", "R-RA-SIB"),
    B("rolling-window-wider", "                cc1 = i - int(width / 2)\n                cc2 = i + int(width / 2) + 1\n                roll[i] = np.mean(mot[cc1:cc2])",
      "                cc1 = i - int(width / 2) - 1\n                cc2 = i + int(width / 2) + 1\n                roll[i] = np.mean(mot[cc1:cc2])", "R-RA-SIB"),
    # twins
    T("isinstance-tuple-form", "        if isinstance(cut_off, list) or isinstance(cut_off, tuple) or isinstance(cut_off, np.ndarray):", "        if isinstance(cut_off, (list, tuple, np.ndarray)):"),
    T("nyquist-inline", "        wp = cut_off / nyq\n", "        wp = 2.0 * cut_off * self.dt\n"),
    T("lowpass-long-names", SEL, SEL.replace("'low'", "'lowpass'").replace("'high'", "'highpass'")),
    T("running-copy-method", "        mot = np.array(self.values)\n", "        mot = self.values.copy()\n"),
    T("poly-len-values", "        x = np.linspace(0, 1.0, self.npts)\n", "        x = np.linspace(0, 1, len(self.values))\n"),
    T("add-series-neq-form", "        if len(series) == self.npts:\n            self.reset_values(self.values + series)\n        else:\n            raise exceptions.SignalProcessingError(\"new series has different length to Signal\")\n",
      "        if len(series) != self.npts:\n            raise exceptions.SignalProcessingError(\"new series has different length to Signal\")\n        else:\n            self.reset_values(self.values + series)\n"),
    T("gibbs-hoisted", "            if remove_gibbs == 'start':\n                s_len = 0\n                f_len = s_len + org_len\n            elif remove_gibbs == 'end':\n                s_len = diff_len\n                f_len = s_len + org_len\n            else:\n                s_len = int(diff_len / 2)\n                f_len = s_len + org_len\n",
      "            if remove_gibbs == 'start':\n                s_len = 0\n            elif remove_gibbs == 'end':\n                s_len = diff_len\n            else:\n                s_len = int(diff_len / 2)\n            f_len = s_len + org_len\n"),
]

def B(id, old, new, rule=None, file="eqsig/fns/time_step.py", **kw):
    return dict(id=id, prop="C14", kind="break", file=file, old=old, new=new, rule=rule, **kw)


def T(id, old, new, file="eqsig/fns/time_step.py", **kw):
    return dict(id=id, prop="C14", kind="twin", file=file, old=old, new=new, **kw)


RULE = "    factor = dt / target_dt\n    if factor == 1:\n        pass\n    elif factor > 1:\n        factor = int(np.ceil(factor))\n    else:\n        factor = 1 / np.floor(1 / factor)\n"
RRULE = "    factor = asig.dt / target_dt\n    if factor == 1:\n        pass\n    elif factor > 1:\n        factor = int(np.ceil(factor))\n    else:\n        factor = 1 / np.floor(1 / factor)\n"
VARIANTS = [
    B("ceil-to-floor", RULE, RULE.replace("int(np.ceil(factor))", "int(np.floor(factor))"), "R-ROUND"),
    B("ceil-to-round", RULE, RULE.replace("int(np.ceil(factor))", "int(np.round(factor))"), "R-ROUND"),
    B("ceil-to-int", RULE, RULE.replace("int(np.ceil(factor))", "int(factor)"), "R-ROUND"),
    B("decim-ceil", RULE, RULE.replace("1 / np.floor(1 / factor)", "1 / np.ceil(1 / factor)"), "R-ROUND"),
    B("decim-no-reciprocal", RULE, RULE.replace("1 / np.floor(1 / factor)", "np.floor(1 / factor)"), "R-ROUND"),
    B("decim-round", RULE, RULE.replace("1 / np.floor(1 / factor)", "1 / round(1 / factor)"), "R-ROUND"),
    B("decim-unrounded", RULE, RULE.replace("        factor = 1 / np.floor(1 / factor)\n", "        pass\n"), "R-ROUND"),
    B("inverted-ratio", RULE, RULE.replace("factor = dt / target_dt", "factor = target_dt / dt"), "R-ROUND"),
    B("resample-ceil-to-floor", RRULE, RRULE.replace("int(np.ceil(factor))", "int(np.floor(factor))"), "R-ROUND"),
    B("resample-decim-ceil", RRULE, RRULE.replace("1 / np.floor(1 / factor)", "1 / np.ceil(1 / factor)"), "R-ROUND"),
    B("abscissa-other-divisor", "    t_db = np.arange(new_npts) / factor\n", "    t_db = np.arange(new_npts) * target_dt / dt\n", "R-GRID"),
    B("returns-old-dt", "    return acc_interp, dt / factor\n", "    return acc_interp, dt\n", None),
    B("returns-target-dt", "    return acc_interp, dt / factor\n", "    return acc_interp, target_dt\n", None),
    B("even-ignored", "    if even:\n        new_npts = 2 * int(new_npts / 2)\n    t_db", "    if not even:\n        new_npts = 2 * int(new_npts / 2)\n    t_db", "R-GRID"),
    B("even-odd", "    if even:\n        new_npts = 2 * int(new_npts / 2)\n    t_db", "    if even:\n        new_npts = 2 * int(new_npts / 2) + 1\n    t_db", "R-GRID"),
    B("interp-xp-from-1", "    t_int = np.arange(len(values))\n", "    t_int = np.arange(1, len(values) + 1)\n", "R-GRID"),
    B("interp-abs-values", "    acc_interp = np.interp(t_db, t_int, values)\n    return acc_interp, dt / factor\n", "    acc_interp = np.interp(t_db, t_int, np.abs(values))\n    return acc_interp, dt / factor\n", "R-GRID"),
    B("npts-minus-one", "    new_npts = factor * len(values)\n", "    new_npts = factor * (len(values) - 1)\n", "R-GRID"),
    B("obj-old-dt", "    return eqsig.AccSignal(acc_interp, dt_interp)\n", "    return eqsig.AccSignal(acc_interp, asig.dt)\n", "R-RS-SIB"),
    B("obj-even-dropped", "    acc_interp, dt_interp = interp_array_to_approx_dt(asig.values, asig.dt, target_dt=target_dt, even=even)\n",
      "    acc_interp, dt_interp = interp_array_to_approx_dt(asig.values, asig.dt, target_dt=target_dt)\n", "R-RS-SIB"),
    B("resample-old-dt", "    return eqsig.AccSignal(acc_interp, asig.dt / factor)\n", "    return eqsig.AccSignal(acc_interp, target_dt)\n", None),
    B("resample-float-count", "    else:\n        new_npts = int(np.ceil(new_npts))  # an integer number of samples, the same count as np.arange(new_npts) gives the interpolating sibling\n",
      "", "R-ROUND"),
    B("resample-velocity", "    acc_interp = resample(asig.values, new_npts)\n", "    acc_interp = resample(asig.velocity, new_npts)\n", None),
    # twins
    T("math-ceil", RULE, "    import math\n" + RULE.replace("int(np.ceil(factor))", "math.ceil(factor)")),
    T("ratio-name", RULE, RULE.replace("    factor = dt / target_dt\n", "    ratio = dt / target_dt\n    factor = ratio\n")),
    T("tests-reordered", RULE, "    factor = dt / target_dt\n    if factor > 1:\n        factor = int(np.ceil(factor))\n    elif factor == 1:\n        pass\n    else:\n        factor = 1 / np.floor(1 / factor)\n"),
    T("even-floordiv", "    if even:\n        new_npts = 2 * int(new_npts / 2)\n    t_db", "    if even:\n        new_npts = 2 * int(new_npts // 2)\n    t_db"),
    T("floor-name", RULE, RULE.replace("        factor = 1 / np.floor(1 / factor)\n", "        n_skip = np.floor(1 / factor)\n        factor = 1 / n_skip\n")),
]

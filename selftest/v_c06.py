def B(id, file, old, new, rule=None, **kw):
    return dict(id=id, prop="C06", kind="break", file=file, old=old, new=new, rule=rule, **kw)


def T(id, file, old, new, **kw):
    return dict(id=id, prop="C06", kind="twin", file=file, old=old, new=new, **kw)


S = "eqsig/single.py"
F = "eqsig/fns/frequency.py"
IM = "eqsig/im.py"
VARIANTS = [
    # F15 (repaired in /repo 5e5fe47): the grid spacing must use the FFT length itself; 2 * int(N / 2) is N only for even N
    B("f15-obj-grid-2points", S, "        self._fa_freqs = np.arange(points) / (n_factor * self.dt)\n", "        self._fa_freqs = np.arange(points) / (2 * points * self.dt)\n", "R-FAS-TYPE"),
    B("f15-arr-grid-2points", F, "    fa_frequencies = np.arange(points) / (len(fa) * sig.dt)\n    return fa_spectrum, fa_frequencies\n\n\ndef calc_fa_spectrum",
      "    fa_frequencies = np.arange(points) / (2 * points * sig.dt)\n    return fa_spectrum, fa_frequencies\n\n\ndef calc_fa_spectrum", "R-FAS-TYPE"),
    T("f15-obj-grid-len-fa", S, "        self._fa_freqs = np.arange(points) / (n_factor * self.dt)\n", "        self._fa_freqs = np.arange(points) / (len(fa) * self.dt)\n"),
    B("obj-no-dt", S, "        self._fa_spectrum = fa[range(points)] * self.dt\n", "        self._fa_spectrum = fa[range(points)]\n", "R-FAS-TYPE"),
    B("obj-div-dt", S, "        self._fa_spectrum = fa[range(points)] * self.dt\n", "        self._fa_spectrum = fa[range(points)] / self.dt\n", "R-FAS-TYPE"),
    B("obj-abs-spectrum", S, "        self._fa_spectrum = fa[range(points)] * self.dt\n", "        self._fa_spectrum = abs(fa[range(points)]) * self.dt\n", "R-FAS-TYPE"),
    B("obj-grid-npts", S, "        self._fa_freqs = np.arange(points) / (n_factor * self.dt)\n", "        self._fa_freqs = np.arange(points) / (self.npts * self.dt)\n", "R-FAS-TYPE"),
    B("obj-grid-no-2", S, "        self._fa_freqs = np.arange(points) / (n_factor * self.dt)\n", "        self._fa_freqs = np.arange(points) / (points * self.dt)\n", "R-FAS-TYPE"),
    B("obj-grid-from-1", S, "        self._fa_freqs = np.arange(points) / (n_factor * self.dt)\n", "        self._fa_freqs = np.arange(1, points + 1) / (n_factor * self.dt)\n", "R-FAS-TYPE"),
    B("obj-bins-plus-1", S, "        points = int(n_factor / 2)\n        self._fa_spectrum", "        points = int(n_factor / 2) + 1\n        self._fa_spectrum", "R-FAS-TYPE"),
    B("obj-ignores-p2", S, "            n_factor = 2 ** int(np.ceil(np.log2(self.npts)) + p2_plus)\n", "            n_factor = 2 ** int(np.ceil(np.log2(self.npts)))\n", "R-FAS-SIB"),
    B("obj-floor-log", S, "            n_factor = 2 ** int(np.ceil(np.log2(self.npts)) + p2_plus)\n", "            n_factor = 2 ** int(np.floor(np.log2(self.npts)) + p2_plus)\n", "R-FAS-SIB"),
    B("obj-fft-other-length", S, "        fa = np.fft.fft(self.values, n=n_factor)\n", "        fa = np.fft.fft(self.values, n=2 * n_factor)\n", "R-FAS-TYPE"),
    B("obj-n-ignored", S, "        if n is not None:\n            n_factor = n\n", "        if n is not None:\n            n_factor = 2 ** int(np.ceil(np.log2(n)))\n", "R-FAS-SIB"),
    B("calc-p2-ignored", F, "            n_vals = 2 ** int(np.ceil(np.log2(npts)) + p2_plus)\n", "            n_vals = 2 ** int(np.ceil(np.log2(npts)))\n", "R-FAS-SIB"),
    B("calc-unpadded-pads", F, "        fa = np.fft.fft(sig.values)\n        points = int(sig.npts / 2)\n    fa_spectrum = fa[range(points)] * sig.dt\n    fa_frequencies = np.arange(points) / (len(fa) * sig.dt)\n    return fa_spectrum, fa_frequencies\n\n\ndef fas2values",
      "        fa = np.fft.fft(sig.values, n=2 * npts)\n        points = int(sig.npts / 2)\n    fa_spectrum = fa[range(points)] * sig.dt\n    fa_frequencies = np.arange(points) / (len(fa) * sig.dt)\n    return fa_spectrum, fa_frequencies\n\n\ndef fas2values", "R-FAS-TYPE"),
    B("generate-velocity", F, "        fa = np.fft.fft(sig.values, n=n_factor)\n        points = int(n_factor / 2)\n        assert len(fa) == n_factor\n    else:\n        fa = np.fft.fft(sig.values)\n        points = int(sig.npts / 2)\n    fa_spectrum = fa[range(points)] * sig.dt\n    fa_frequencies = np.arange(points) / (len(fa) * sig.dt)\n    return fa_spectrum, fa_frequencies\n\n\ndef calc_fa",
      "        fa = np.fft.fft(sig.values - sig.values[0], n=n_factor)\n        points = int(n_factor / 2)\n        assert len(fa) == n_factor\n    else:\n        fa = np.fft.fft(sig.values)\n        points = int(sig.npts / 2)\n    fa_spectrum = fa[range(points)] * sig.dt\n    fa_frequencies = np.arange(points) / (len(fa) * sig.dt)\n    return fa_spectrum, fa_frequencies\n\n\ndef calc_fa", None),
    B("getter-freqs-returns-spectrum", S, "            self.gen_fa_spectrum()\n        return self._fa_freqs\n", "            self.gen_fa_spectrum()\n        return self._fa_spectrum\n", "R-FAS-SIB"),
    B("inv-no-conj-values", F, "    a[n // 2 + 1:] = np.flip(np.conj(fas[1:]), axis=0)\n    a /= dt\n    s = np.fft.ifft(a)\n    npts = n  # all n points (int(2 ** (np.log(n) / np.log(2))) rounds down to n - 1 for some n, e.g. 14)\n    s = s[:npts]\n    return s\n",
      "    a[n // 2 + 1:] = np.flip(fas[1:], axis=0)\n    a /= dt\n    s = np.fft.ifft(a)\n    npts = n  # all n points (int(2 ** (np.log(n) / np.log(2))) rounds down to n - 1 for some n, e.g. 14)\n    s = s[:npts]\n    return s\n", "R-INV-DT"),
    B("inv-no-flip-signal", F, "    a[n // 2 + 1:] = np.flip(np.conj(fas[1:]), axis=0)\n    a /= dt\n    s = np.fft.ifft(a)\n    npts = n  # all n points (int(2 ** (np.log(n) / np.log(2))) rounds down to n - 1 for some n, e.g. 14)\n    s = s[:npts]\n    if stype",
      "    a[n // 2 + 1:] = np.conj(fas[1:])\n    a /= dt\n    s = np.fft.ifft(a)\n    npts = n  # all n points (int(2 ** (np.log(n) / np.log(2))) rounds down to n - 1 for some n, e.g. 14)\n    s = s[:npts]\n    if stype", "R-INV-DT"),
    B("inv-times-dt", F, "    a /= dt\n    s = np.fft.ifft(a)\n    npts = n  # all n points (int(2 ** (np.log(n) / np.log(2))) rounds down to n - 1 for some n, e.g. 14)\n    s = s[:npts]\n    return s\n", "    a *= dt\n    s = np.fft.ifft(a)\n    npts = n  # all n points (int(2 ** (np.log(n) / np.log(2))) rounds down to n - 1 for some n, e.g. 14)\n    s = s[:npts]\n    return s\n", "R-INV-DT"),
    B("inv-includes-bin0", F, "    a[1:n // 2] = fas[1:]\n    a[n // 2 + 1:] = np.flip(np.conj(fas[1:]), axis=0)\n    a /= dt\n    s = np.fft.ifft(a)\n    npts = n  # all n points (int(2 ** (np.log(n) / np.log(2))) rounds down to n - 1 for some n, e.g. 14)\n    s = s[:npts]\n    return s\n",
      "    a[0:n // 2] = fas[0:]\n    a[n // 2 + 1:] = np.flip(np.conj(fas[1:]), axis=0)\n    a /= dt\n    s = np.fft.ifft(a)\n    npts = n  # all n points (int(2 ** (np.log(n) / np.log(2))) rounds down to n - 1 for some n, e.g. 14)\n    s = s[:npts]\n    return s\n", "R-INV-DT"),
    B("inv-float-roundtrip-truncation", F, "    npts = n  # all n points (int(2 ** (np.log(n) / np.log(2))) rounds down to n - 1 for some n, e.g. 14)\n    s = s[:npts]\n    return s\n",
      "    npts = int(2 ** (np.log(n) / np.log(2)))\n    s = s[:npts]\n    return s\n", "R-INV-DT"),
    B("inv-drops-last", F, "    npts = n  # all n points (int(2 ** (np.log(n) / np.log(2))) rounds down to n - 1 for some n, e.g. 14)\n    s = s[:npts]\n    return s\n",
      "    npts = n - 1\n    s = s[:npts]\n    return s\n", "R-INV-DT"),
    B("inv-stype-swapped", F, "    if stype == 'signal':\n        return Signal(s, dt)\n    else:\n        return AccSignal(s, dt)\n", "    if stype == 'signal':\n        return AccSignal(s, dt)\n    else:\n        return Signal(s, dt)\n", "R-INV-DT"),
    B("max-period-complex", IM, "    max_index = np.argmax(np.abs(asig.fa_spectrum))\n", "    max_index = np.argmax(asig.fa_spectrum)\n", "R-CPLX-ORDER"),
    B("max-period-real-part", IM, "    max_index = np.argmax(np.abs(asig.fa_spectrum))\n", "    max_index = np.argmax(np.real(asig.fa_spectrum))\n", "R-CPLX-ORDER"),
    B("max-period-not-reciprocal", IM, "    max_period = 1. / asig.fa_frequencies[max_index]\n", "    max_period = asig.fa_frequencies[max_index]\n", "R-CPLX-ORDER"),
    # an ordering on complex data OUTSIDE the Fourier-spectrum functions belongs to the property anchored there (C07): C06 stays silent
    T("sort-complex-elsewhere-is-not-C06", F, "    return np.dot(abs(asig.fa_spectrum[1:]), smooth_matrix)\n", "    return np.dot(np.sort(asig.fa_spectrum[1:]), smooth_matrix)\n"),
    # twins
    T("obj-slice-bins", S, "        self._fa_spectrum = fa[range(points)] * self.dt\n", "        self._fa_spectrum = fa[:points] * self.dt\n"),
    T("obj-floordiv", S, "        points = int(n_factor / 2)\n        self._fa_spectrum", "        points = n_factor // 2\n        self._fa_spectrum"),
    T("obj-dt-first", S, "        self._fa_spectrum = fa[range(points)] * self.dt\n", "        self._fa_spectrum = self.dt * fa[range(points)]\n"),
    T("obj-grid-rearranged", S, "        self._fa_freqs = np.arange(points) / (n_factor * self.dt)\n", "        self._fa_freqs = np.arange(points) / n_factor / self.dt\n"),
    T("max-period-builtin-abs", IM, "    max_index = np.argmax(np.abs(asig.fa_spectrum))\n", "    max_index = np.argmax(asig.fa_spectrum_abs)\n"),
    T("inv-conj-method", F, "    a[n // 2 + 1:] = np.flip(np.conj(fas[1:]), axis=0)\n    a /= dt\n    s = np.fft.ifft(a)\n    npts = n  # all n points (int(2 ** (np.log(n) / np.log(2))) rounds down to n - 1 for some n, e.g. 14)\n    s = s[:npts]\n    return s\n",
      "    a[n // 2 + 1:] = np.flip(fas[1:].conj(), axis=0)\n    a = a / dt\n    s = np.fft.ifft(a)\n    npts = n  # all n points (int(2 ** (np.log(n) / np.log(2))) rounds down to n - 1 for some n, e.g. 14)\n    s = s[:npts]\n    return s\n"),
]

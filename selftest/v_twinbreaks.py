"""Breaks planted in the ALTERNATIVE designs the twin rounds taught the rules (twins/<id>/patch.diff applied first, then one edit that
changes behaviour): a rule that was generalised to accept another spelling must still refute a wrong instance of that spelling."""
import os

TW = os.path.join(os.path.dirname(os.path.dirname(os.path.abspath(__file__))), "twins")


def X(prop, twin, id, file, old, new, rule=None, **kw):
    return dict(id="on-%s:%s" % (twin, id), prop=prop, kind="break", patch=os.path.join(TW, twin, "patch.diff"), edits=[(file, old, new)], rule=rule, **kw)


F = "eqsig/fns/frequency.py"
ST = "eqsig/stockwell.py"
IM = "eqsig/im.py"
PK = "eqsig/fns/peaks_and_crossings.py"
S = "eqsig/single.py"
TS = "eqsig/fns/time_shift.py"
M = "eqsig/multiple.py"
DS = "eqsig/design_spectra.py"
L = "eqsig/loader.py"
G = "eqsig/fns/generic.py"
SD = "eqsig/sdof.py"
VARIANTS = [
    X("C06", "C06-t2-2", "concat-no-conj", F, "np.flip(np.conj(pos), axis=0)), dtype=complex) / dt\n    s = np.fft.ifft(a, n=n)\n    npts = n  # all n points (int(2 ** (np.log(n) / np.log(2))) rounds down to n - 1 for some n, e.g. 14)\n    s = s[:npts]\n    return s",
      "np.flip(pos, axis=0)), dtype=complex) / dt\n    s = np.fft.ifft(a, n=n)\n    npts = n  # all n points (int(2 ** (np.log(n) / np.log(2))) rounds down to n - 1 for some n, e.g. 14)\n    s = s[:npts]\n    return s", "R-INV-DT"),
    X("C06", "C06-t2-2", "concat-order", F, "(gap, pos, gap, np.flip(np.conj(pos), axis=0)), dtype=complex) / dt\n    s = np.fft.ifft(a, n=n)\n    npts = n  # all n points (int(2 ** (np.log(n) / np.log(2))) rounds down to n - 1 for some n, e.g. 14)\n    s = s[:npts]\n    return s",
      "(gap, np.flip(np.conj(pos), axis=0), gap, pos), dtype=complex) / dt\n    s = np.fft.ifft(a, n=n)\n    npts = n  # all n points (int(2 ** (np.log(n) / np.log(2))) rounds down to n - 1 for some n, e.g. 14)\n    s = s[:npts]\n    return s", "R-INV-DT"),
    X("C15", "C15-t2-2", "concat-no-conj", ST, "np.conj(neg_half)[::-1]", "neg_half[::-1]", "R-ST-LIN"),
    X("C15", "C15-t2-2", "concat-halves-swapped", ST, "(no_comp, np.conj(neg_half)[::-1], no_comp, neg_half)", "(no_comp, neg_half, no_comp, np.conj(neg_half)[::-1])", "R-ST-LIN"),
    X("C15", "C15-t2-3", "closed-form-off-by-one", ST, "    max_f = (points - indy_max) / (2 * points * asig.dt)\n", "    max_f = (points - indy_max - 1) / (2 * points * asig.dt)\n", "R-ST-AXIS"),
    X("C15", "C15-t2-3", "closed-form-unflipped", ST, "    max_f = (points - indy_max) / (2 * points * asig.dt)\n", "    max_f = (indy_max + 1) / (2 * points * asig.dt)\n", "R-ST-AXIS"),
    X("C11", "C11-t2-2", "buffer-last-off-by-one", PK, "    peak_indices[-1] = len(values) - 1\n", "    peak_indices[-1] = len(values)\n", "R-IDX"),
    X("C11", "C11-t2-2", "buffer-first-one", PK, "    peak_indices[0] = 0\n", "    peak_indices[0] = 1\n", "R-IDX"),
    X("C11", "C11-t2-3", "increments-first-half", PK, "    cyc_increments[0] = 0.0\n", "    cyc_increments[0] = 0.5\n", "R-NCYC"),
    X("C11", "C11-t2-3", "increments-shift-everywhere", PK, "    cyc_increments[1:2] += svalue\n", "    cyc_increments[1:] += svalue\n", "R-NCYC"),
    X("C12", "C12-t2-1", "r_-prepends-one", PK, "np.r_[0, all_zc_indices]", "np.r_[1, all_zc_indices]", "R-ZC-STRICT"),
    X("C07", "C07-t2-3", "last-true-off-by-one", IM, "    i_upper = len(above) - 1 - np.argmax(above[::-1])  # last point above the limit\n    min_freq",
      "    i_upper = len(above) - np.argmax(above[::-1])  # last point above the limit\n    min_freq", "R-BW"),
    X("C07", "C07-t2-3", "first-true-of-reversed", IM, "    i_lower = np.argmax(above)  # first point above the limit\n    i_upper", "    i_lower = np.argmax(above[::-1])  # first point above the limit\n    i_upper", "R-BW"),
    X("C19", "C19-t2-1", "helper-sign", TS, "    if jtype == 'sub':\n        return -a1 + a0\n    return a1 + a0\n\n\n", "    if jtype == 'sub':\n        return a1 - a0\n    return a1 + a0\n\n\n", "R-SE-SIGN"),
    X("C19", "C19-t2-1", "caller-options-swapped", "eqsig/surface.py", "jtype='sub' if nodal else 'add'", "jtype='add' if nodal else 'sub'", "R-SE-SIGN", count=2),
    X("C20", "C20-t2-2", "corner-constant", DS, "        ch_t2_corner = 6.42\n", "        ch_t2_corner = 6.24\n", "R-NZS-SIB"),
    X("C18", "C18-t2-1", "helper-lag-sign", TS, "            min_ind = -i - 0\n", "            min_ind = i + 0\n", "R-LAGSEARCH"),
    X("C18", "C18-t2-3", "master-is-first", M, "get_section_average(signals[self.master_index], start=start, end=end)", "get_section_average(signals[0], start=start, end=end)", "R-MASTER"),
    X("C13", "C13-t2-3", "full-cycle-weight", IM, "    peak_incs = (a1_csr_peaks_end[:, np.newaxis] ** (1. / b)) / 2 / n_cyc\n", "    peak_incs = (a1_csr_peaks_end[:, np.newaxis] ** (1. / b)) / n_cyc\n", "R-PL-INV"),
    X("C13", "C13-t2-2", "linear-instead-of-step", IM, "eqsig.fns.generic.interp_left(np.arange(len(values)), peak_indices, n_eq)", "np.interp(np.arange(len(values)), peak_indices, n_eq)", "R-PL-LEN"),
    X("C16", "C16-t2-1", "vectorised-precision", L, 'np.char.mod("%.6f", np.asarray(values))', 'np.char.mod("%.3f", np.asarray(values))', "R-FMT-PREC"),
    X("C08", "C08-t2-2", "shared-key", S, 'self._lazy_peak("pgv", "velocity")', 'self._lazy_peak("pga", "velocity")', None),
    X("C03", "C03-t2-1", "fill-args-swapped", SD, "fill_where_below(sas, periods, dt * 6, absmax(motion))  # too few steps per cycle: report PGA\n    return sds, svs, sas\n\n\ndef response_series",
      "fill_where_below(absmax(motion), periods, dt * 6, sas)  # too few steps per cycle: report PGA\n    return sds, svs, sas\n\n\ndef response_series", None),
    X("C17", "C17-t2-3", "sum-term-exponent", G, "terms = [cof * x ** (poly_fit - co) for co, cof in enumerate(cofs)]", "terms = [cof * x ** co for co, cof in enumerate(cofs)]", "R-POLY-SIB"),
    X("C09", "C09-t2-3", "out-slice-misplaced", IM, "out=delta_energy[1:])", "out=delta_energy[:-1])", None),
    # ---- round 4 designs
    X("C15", "C15-t4-1", "reversed-slice-not-reversed", ST, "np.conj(ss[:0:-1])", "np.conj(ss[1:])", "R-ST-LIN"),
    X("C15", "C15-t4-2", "descending-axis-off-by-one", ST, "np.arange(points, 0, -1) / (2 * points * dt)", "np.arange(points - 1, -1, -1) / (2 * points * dt)", "R-ST-AXIS"),
    X("C15", "C15-t4-2", "descending-axis-flipped-twice", ST, "    return np.arange(points, 0, -1) / (2 * points * dt)", "    return np.flipud(np.arange(points, 0, -1) / (2 * points * dt))", "R-ST-AXIS"),
    X("C15", "C15-t4-3", "open-rows-wrong-end", ST, "    return diag_con[1:]  # first line is zero frequency", "    return diag_con[:-1]  # first line is zero frequency", "R-ST-SIB"),
    X("C15", "C15-t4-3", "closure-fft-length", ST, "        return fft(x, n, overwrite_x=True)", "        return fft(x, n + 1, overwrite_x=True)", "R-ST-SIB"),
    X("C03", "C03-t4-3", "named-cut-constant", SD, "MIN_STEPS_PER_PERIOD = 6", "MIN_STEPS_PER_PERIOD = 5", "R-CUT"),
    X("C03", "C03-t4-3", "helper-w-half", SD, "        w[1:] = 2 * np.pi / periods[1:]\n        return w", "        w[1:] = np.pi / periods[1:]\n        return w", "R-PSEUDO"),
    X("C16", "C16-t4-1", "named-header-count", L, "_N_HEADER_LINES = 2", "_N_HEADER_LINES = 1", "R-FMT-LAYOUT"),
    X("C16", "C16-t4-2", "named-value-format", L, '_VALUE_FORMAT = "%.6f"', '_VALUE_FORMAT = "%.3f"', "R-FMT-PREC"),
    X("C18", "C18-t4-2", "merged-loops-signs-swapped", M, "((1, om, bm[0:-steps]), (-1, bm, om[0:-steps]))", "((-1, om, bm[0:-steps]), (1, bm, om[0:-steps]))", "R-LAGSEARCH"),
    X("C18", "C18-t4-2", "merged-loops-same-record", M, "((1, om, bm[0:-steps]), (-1, bm, om[0:-steps]))", "((1, om, bm[0:-steps]), (-1, om, bm[0:-steps]))", "R-LAGSEARCH"),
    X("C07", "C07-t4-2", "inplace-power-three", F, "    wb_vals **= 4\n", "    wb_vals **= 3\n", "R-KO-NONNEG"),
    X("C07", "C07-t4-2", "masked-store-zero", F, "    wb_vals[at_centre] = 1\n", "    wb_vals[at_centre] = 0\n", "R-KO-NONNEG"),
    X("C20", "C20-t4-1", "upper-is-lower-plus-two", G, "np.minimum(ind_below + 1, len(xf) - 1)", "np.minimum(ind_below + 2, len(xf) - 1)", "R-I2D"),
    X("C20", "C20-t4-2", "pad-one-too-many", "eqsig/fns/average.py", "        return 0, steps - 1\n", "        return 0, steps\n", "R-ROLL"),
    X("C20", "C20-t4-2", "pad-reflect", "eqsig/fns/average.py", "mode='edge')", "mode='reflect')", "R-ROLL"),
    X("C20", "C20-t4-2", "zero-led-sum-without-zero", "eqsig/fns/average.py", "np.concatenate([[0.0], np.cumsum(x_ext, dtype=float)])", "np.concatenate([[1.0], np.cumsum(x_ext, dtype=float)])", "R-ROLL"),
    X("C20", "C20-t4-3", "default-split-other-power", "eqsig/fns/average.py", "err, _, _ = _step_fn_fit(np.array(values), pow=1)", "err, _, _ = _step_fn_fit(np.array(values), pow=2)", "R-STEP-LEVELS"),
    X("C12", "C12-t4-1", "seed-placeholder", PK, "    peak_values_set = [last]\n", "    peak_values_set = [0]\n", "R-SW-COVER"),
    X("C17", "C17-t4-3", "clipped-window-short", "eqsig/fns/average.py", "values[max(i - half, 0):i + half + 1]", "values[max(i - half, 0):i + half]", "R-RA-SIB"),
    X("C17", "C17-t4-3", "clipped-window-lower-one", "eqsig/fns/average.py", "values[max(i - half, 0):i + half + 1]", "values[max(i - half, 1):i + half + 1]", "R-RA-SIB"),
    X("C17", "C05-t4-3", "chunk-tail-shifted", S, "            chunk = values[i - half_width:]\n", "            chunk = values[i - half_width + 1:]\n", "R-RA-SIB"),
    X("C05", "C17-t4-3", "helper-writes-its-input", "eqsig/fns/average.py", "        out[i] = np.mean(values[max(i - half, 0):i + half + 1])", "        values[i] = np.mean(values[max(i - half, 0):i + half + 1])", "R-NOMUT"),
    X("C11", "C11-t4-2", "half-cycle-quarter", PK, "    n_cycs = 0.5 * np.arange(n_indices) + offset\n", "    n_cycs = 0.25 * np.arange(n_indices) + offset\n", "R-NCYC"),
    X("C11", "C11-t4-2", "first-not-reset", PK, "    n_cycs[:1] = 0.0  # counting always starts from zero at the first sample\n", "    n_cycs[:1] = 0.5  # counting always starts from zero at the first sample\n", "R-NCYC"),
    X("C06", "C06-t1-1", "grid-two-halves", "eqsig/single.py", "np.arange(n_half) / (n_fft * dt)", "np.arange(n_half) / (2 * n_half * dt)", "R-FAS-TYPE"),      # F15 on a twin's spelling
    X("C14", "C14-t4-3", "helper-floor", "eqsig/fns/time_step.py", "    return int(np.ceil(new_npts))  # a partially covered last step is kept", "    return int(np.floor(new_npts))  # a partially covered last step is kept", None),
    X("C19", "C19-t4-1", "shift-sign", TS, "        first = start_extras + shift  # column where the shifted copy of values starts", "        first = start_extras - shift  # column where the shifted copy of values starts", None),
]

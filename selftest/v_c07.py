def B(id, file, old, new, rule=None, **kw):
    return dict(id=id, prop="C07", kind="break", file=file, old=old, new=new, rule=rule, **kw)


def T(id, file, old, new, **kw):
    return dict(id=id, prop="C07", kind="twin", file=file, old=old, new=new, **kw)


F = "eqsig/fns/frequency.py"
S = "eqsig/single.py"
IM = "eqsig/im.py"
D_TAIL = "    wb_vals /= np.sum(wb_vals, axis=0)\n\n    return np.sum(abs(fa_spectrum)[:, np.newaxis] * wb_vals, axis=0)\n"
WIN = "    wb_vals = (np.sin(amp_array) / amp_array) ** 4\n    wb_vals = np.where(amp_array == 0, 1, wb_vals)\n    wb_vals /= np.sum(wb_vals, axis=0)\n\n    return np.sum("
WINM = "    wb_vals = (np.sin(amp_array) / amp_array) ** 4\n    wb_vals = np.where(amp_array == 0, 1, wb_vals)\n    wb_vals /= np.sum(wb_vals, axis=0)\n    return wb_vals\n"
VARIANTS = [
    B("exp-2-direct", F, WIN, WIN.replace("** 4", "** 2"), None),
    B("exp-3-direct", F, WIN, WIN.replace("** 4", "** 3"), "R-KO-NONNEG"),
    B("exp-2-matrix", F, WINM, WINM.replace("** 4", "** 2"), None),
    B("no-replacement", F, WIN, WIN.replace("    wb_vals = np.where(amp_array == 0, 1, wb_vals)\n", ""), "R-KO-NONNEG"),
    B("replacement-zero", F, WIN, WIN.replace("np.where(amp_array == 0, 1, wb_vals)", "np.where(amp_array == 0, 0, wb_vals)"), "R-KO-NONNEG"),
    B("replacement-nan-test", F, WIN, WIN.replace("np.where(amp_array == 0, 1, wb_vals)", "np.where(amp_array < 1e-3, 1, wb_vals)"), "R-KO-NONNEG"),
    B("norm-axis-1", F, D_TAIL, D_TAIL.replace("wb_vals /= np.sum(wb_vals, axis=0)", "wb_vals /= np.sum(wb_vals, axis=1)[:, np.newaxis]"), "R-KO-NORM"),
    B("no-normalisation", F, D_TAIL, D_TAIL.replace("    wb_vals /= np.sum(wb_vals, axis=0)\n", ""), "R-KO-NORM"),
    B("norm-by-max", F, D_TAIL, D_TAIL.replace("np.sum(wb_vals, axis=0)\n\n", "np.max(wb_vals, axis=0)\n\n"), "R-KO-NORM"),
    B("no-abs-spectrum", F, D_TAIL, D_TAIL.replace("abs(fa_spectrum)", "np.real(fa_spectrum)"), "R-KO-NORM"),
    B("arg-no-band", F, "    amp_array = band * np.log10(fa_frequencies[:, np.newaxis] / smooth_fa_frequencies[np.newaxis, :])\n    wb_vals = (np.sin(amp_array) / amp_array) ** 4\n    wb_vals = np.where(amp_array == 0, 1, wb_vals)\n    wb_vals /= np.sum(wb_vals, axis=0)\n\n",
      "    amp_array = np.log10(fa_frequencies[:, np.newaxis] / smooth_fa_frequencies[np.newaxis, :])\n    wb_vals = (np.sin(amp_array) / amp_array) ** 4\n    wb_vals = np.where(amp_array == 0, 1, wb_vals)\n    wb_vals /= np.sum(wb_vals, axis=0)\n\n", "R-KO-ARG"),
    B("arg-natural-log", F, "    amp_array = band * np.log10(fa_frequencies[:, np.newaxis] / smooth_fa_frequencies[np.newaxis, :])\n    wb_vals = (np.sin(amp_array) / amp_array) ** 4\n    wb_vals = np.where(amp_array == 0, 1, wb_vals)\n    wb_vals /= np.sum(wb_vals, axis=0)\n\n",
      "    amp_array = band * np.log(fa_frequencies[:, np.newaxis] / smooth_fa_frequencies[np.newaxis, :])\n    wb_vals = (np.sin(amp_array) / amp_array) ** 4\n    wb_vals = np.where(amp_array == 0, 1, wb_vals)\n    wb_vals /= np.sum(wb_vals, axis=0)\n\n", None),
    B("arg-difference", F, "    amp_array = band * np.log10(fa_frequencies[:, np.newaxis] / smooth_fa_frequencies[np.newaxis, :])\n    wb_vals = (np.sin(amp_array) / amp_array) ** 4\n    wb_vals = np.where(amp_array == 0, 1, wb_vals)\n    wb_vals /= np.sum(wb_vals, axis=0)\n    return wb_vals",
      "    amp_array = band * np.log10(fa_frequencies[:, np.newaxis] - smooth_fa_frequencies[np.newaxis, :])\n    wb_vals = (np.sin(amp_array) / amp_array) ** 4\n    wb_vals = np.where(amp_array == 0, 1, wb_vals)\n    wb_vals /= np.sum(wb_vals, axis=0)\n    return wb_vals", "R-KO-ARG"),
    B("zero-bin-unpaired", F, "        fa_frequencies = fa_frequencies[1:]\n        fa_spectrum = fa_spectrum[1:]\n", "        fa_frequencies = fa_frequencies[1:]\n", "R-KO-ZERO"),
    B("custom-keeps-bin0", F, "    return np.dot(abs(asig.fa_spectrum[1:]), smooth_matrix)\n", "    return np.dot(abs(asig.fa_spectrum[:-1]), smooth_matrix)\n", None),
    B("deprecated-order", F, "    return calc_smooth_fa_spectrum(fa_frequencies, fa_spectrum, smooth_fa_frequencies, band=band)\n",
      "    return calc_smooth_fa_spectrum(smooth_fa_frequencies, fa_frequencies, fa_spectrum, band=band)\n", "R-KO-SIB"),
    B("object-args-swapped", S, "        self._smooth_fa_spectrum = calc_smooth_fa_spectrum(self.fa_freqs,\n                                                               self.fa_spectrum, self.smooth_fa_freqs, band=band)",
      "        self._smooth_fa_spectrum = calc_smooth_fa_spectrum(self.smooth_fa_freqs,\n                                                               self.fa_spectrum, self.fa_freqs, band=band)", "R-KO-SIB"),
    B("object-band-dropped", S, "    def generate_smooth_fa_spectrum(self, band=40):\n        self.gen_smooth_fa_spectrum(band=band)\n", "    def generate_smooth_fa_spectrum(self, band=40):\n        self.gen_smooth_fa_spectrum()\n", "R-KO-SIB"),
    B("bw-fmax-second", IM, "    max_freq = asig.smooth_fa_frequencies[ind2[0][-1]]\n    return max_freq\n", "    max_freq = asig.smooth_fa_frequencies[ind2[0][1]]\n    return max_freq\n", "R-BW"),
    B("bw-nonstrict", IM, "    ind2 = np.where(fas1_smooth > lim_fas)\n    min_freq = asig.smooth_fa_frequencies[ind2[0][0]]\n    return min_freq\n", "    ind2 = np.where(fas1_smooth >= lim_fas)\n    min_freq = asig.smooth_fa_frequencies[ind2[0][0]]\n    return min_freq\n", "R-BW"),
    B("bw-returns-amplitude", IM, "    min_freq = asig.smooth_fa_frequencies[ind2[0][0]]\n    return min_freq\n", "    min_freq = asig.smooth_fa_spectrum[ind2[0][0]]\n    return min_freq\n", "R-BW"),
    B("bw-swapped-pair", IM, "    return min_freq, max_freq\n", "    return max_freq, min_freq\n", "R-BW"),
    B("bw-limit-mean", IM, "    fas1_smooth = asig.smooth_fa_spectrum\n    max_fas1 = max(fas1_smooth)\n    lim_fas = max_fas1 * ratio\n    ind2 = np.where(fas1_smooth > lim_fas)\n    min_freq = asig.smooth_fa_frequencies[ind2[0][0]]\n    max_freq",
      "    fas1_smooth = asig.smooth_fa_spectrum\n    max_fas1 = np.mean(fas1_smooth)\n    lim_fas = max_fas1 * ratio\n    ind2 = np.where(fas1_smooth > lim_fas)\n    min_freq = asig.smooth_fa_frequencies[ind2[0][0]]\n    max_freq", "R-BW"),
    B("range-last-is-second", F, "    return indys[0], indys[-1]\n", "    return indys[0], indys[1]\n", "R-BW"),
    # twins
    T("exp-squared-twice", F, WIN, WIN.replace("(np.sin(amp_array) / amp_array) ** 4", "((np.sin(amp_array) / amp_array) ** 2) ** 2")),
    T("exp-product", F, WINM, WINM.replace("    wb_vals = (np.sin(amp_array) / amp_array) ** 4\n", "    sinc = np.sin(amp_array) / amp_array\n    wb_vals = sinc * sinc * sinc * sinc\n")),
    T("arg-inverted-ratio", F, "    amp_array = band * np.log10(fa_frequencies[:, np.newaxis] / smooth_fa_frequencies[np.newaxis, :])\n    wb_vals = (np.sin(amp_array) / amp_array) ** 4\n    wb_vals = np.where(amp_array == 0, 1, wb_vals)\n    wb_vals /= np.sum(wb_vals, axis=0)\n\n",
      "    amp_array = band * np.log10(smooth_fa_frequencies[np.newaxis, :] / fa_frequencies[:, np.newaxis])\n    wb_vals = (np.sin(amp_array) / amp_array) ** 4\n    wb_vals = np.where(amp_array == 0, 1, wb_vals)\n    wb_vals /= np.sum(wb_vals, axis=0)\n\n", count=1),
    T("norm-not-inplace", F, D_TAIL, D_TAIL.replace("wb_vals /= np.sum(wb_vals, axis=0)", "wb_vals = wb_vals / np.sum(wb_vals, axis=0)")),
    T("np-abs", F, D_TAIL, D_TAIL.replace("abs(fa_spectrum)", "np.abs(fa_spectrum)")),
    T("bw-renamed", IM, "    ind2 = np.where(fas1_smooth > lim_fas)\n    min_freq = asig.smooth_fa_frequencies[ind2[0][0]]\n    return min_freq\n", "    idx = np.where(lim_fas < fas1_smooth)[0]\n    min_freq = asig.smooth_fa_frequencies[idx[0]]\n    return min_freq\n"),
]

def B(id, old, new, rule=None, **kw):
    return dict(id=id, prop="C10", kind="break", file="eqsig/im.py", old=old, new=new, rule=rule, **kw)


def T(id, old, new, **kw):
    return dict(id=id, prop="C10", kind="twin", file="eqsig/im.py", old=old, new=new, **kw)


V = "    ind2 = np.where((cum_acc2 > start * cum_acc2[-1]) & (cum_acc2 < end * cum_acc2[-1]))\n"
O = "    ind2 = np.where((im_vals > start * im_vals[-1]) & (im_vals < end * im_vals[-1]))\n"
VARIANTS = [
    B("sig-dur-total-from-snapshot", O, O.replace("end * im_vals[-1]", "end * asig.arias_intensity"), "R-MEASURE"),
    B("brac-dur-reuses-snapshot", "def calc_brac_dur(asig, threshold, se=False):\n", "def calc_brac_dur(asig, threshold, se=False):\n    if threshold == 0.01 and not se and asig.t_b01:\n        return asig.t_b01\n", "R-MEASURE"),
    B("vals-lower-nonstrict", V, V.replace("cum_acc2 > start", "cum_acc2 >= start"), "R-STRICT"),
    B("vals-upper-nonstrict", V, V.replace("cum_acc2 < end", "cum_acc2 <= end"), "R-STRICT"),
    B("obj-lower-nonstrict", O, O.replace("im_vals > start", "im_vals >= start"), "R-STRICT"),
    B("obj-upper-nonstrict", O, O.replace("im_vals < end", "im_vals <= end"), "R-STRICT"),
    B("obj-bounds-swapped", O, O.replace("start *", "XX *").replace("end *", "start *").replace("XX *", "end *"), "R-STRICT"),
    B("vals-absolute-threshold", V, V.replace("start * cum_acc2[-1]", "start"), "R-REL"),
    B("vals-total-is-max-sq", V, V.replace("end * cum_acc2[-1]", "end * np.max(motion)"), "R-REL"),
    B("vals-end-second", "    end_time = ind2[0][-1] * dt\n\n    if se:", "    end_time = ind2[0][1] * dt\n\n    if se:", "R-ENDS"),
    B("vals-start-second", "    start_time = ind2[0][0] * dt\n    end_time = ind2[0][-1] * dt\n", "    start_time = ind2[0][1] * dt\n    end_time = ind2[0][-1] * dt\n", "R-ENDS"),
    B("vals-se-swapped", "    if se:\n        return start_time, end_time\n    return end_time - start_time\n\n\ndef calc_sig_dur(",
      "    if se:\n        return end_time, start_time\n    return end_time - start_time\n\n\ndef calc_sig_dur(", "R-ENDS"),
    B("vals-sum-of-ends", "    if se:\n        return start_time, end_time\n    return end_time - start_time\n\n\ndef calc_sig_dur(",
      "    if se:\n        return start_time, end_time\n    return end_time + start_time\n\n\ndef calc_sig_dur(", "R-ENDS"),
    B("obj-sum-of-ends", "    end_time = ind2[0][-1] * asig.dt\n    if se:\n        return start_time, end_time\n    return end_time - start_time\n",
      "    end_time = ind2[0][-1] * asig.dt\n    if se:\n        return start_time, end_time\n    return end_time + start_time\n", "R-ENDS"),
    B("obj-difference-reversed", "    end_time = ind2[0][-1] * asig.dt\n    if se:\n        return start_time, end_time\n    return end_time - start_time\n",
      "    end_time = ind2[0][-1] * asig.dt\n    if se:\n        return start_time, end_time\n    return start_time - end_time\n", "R-ENDS"),
    B("obj-no-dt", "    start_time = ind2[0][0] * asig.dt\n", "    start_time = ind2[0][0]\n", "R-REL"),
    B("obj-ignores-user-im", "    else:\n        im_vals = im(asig)\n", "    else:\n        im_vals = calc_arias_intensity(asig)\n", "R-MEASURE"),
    B("obj-default-cav", "    if im is None:\n        im_vals = calc_arias_intensity(asig)\n", "    if im is None:\n        im_vals = np.cumsum(asig.values ** 2)\n", "R-MEASURE"),
    B("vals-not-squared", "    cum_acc2 = np.cumsum(motion ** 2)\n", "    cum_acc2 = np.cumsum(motion)\n", "R-REL"),
    B("brac-nonstrict", "    ind01 = np.where(abs_motion > threshold)\n    time2 = time[ind01]\n    try:\n        if se:",
      "    ind01 = np.where(abs_motion >= threshold)\n    time2 = time[ind01]\n    try:\n        if se:", "R-STRICT"),
    B("brac-no-abs", "    abs_motion = abs(asig.values)\n\n    time = np.arange(asig.npts) * asig.dt\n",
      "    abs_motion = asig.values\n\n    time = np.arange(asig.npts) * asig.dt\n", "R-REL"),
    B("brac-second-last", "            return time2[0], time2[-1]\n        return time2[-1] - time2[0]\n",
      "            return time2[0], time2[-1]\n        return time2[-2] - time2[0]\n", "R-ENDS"),
    B("brac-se-order", "            return time2[0], time2[-1]\n", "            return time2[-1], time2[0]\n", "R-ENDS"),
    B("brac-fallback-wrong", "        if se:\n            return None, None\n        return 0\n", "        if se:\n            return None, None\n        return -1\n", "R-ENDS"),
    B("brac-time-from-one", "    time = np.arange(asig.npts) * asig.dt\n    # Bracketed duration\n    ind01 = np.where(abs_motion > threshold)\n    time2",
      "    time = np.arange(asig.npts) / asig.dt\n    # Bracketed duration\n    ind01 = np.where(abs_motion > threshold)\n    time2", "R-REL"),
    B("deprecated-swaps-args", "    return calc_sig_dur_vals(motion, dt, start=start, end=end)\n", "    return calc_sig_dur_vals(motion, dt, start=end, end=start)\n", "R-STRICT"),
    B("deprecated-brac-scales", "    return calc_brac_dur(asig, threshold)\n", "    return calc_brac_dur(asig, threshold * 9.81)\n", None),
    # twins
    T("vals-flipped-orientation", V, "    ind2 = np.where((start * cum_acc2[-1] < cum_acc2) & (end * cum_acc2[-1] > cum_acc2))\n"),
    T("vals-total-name", V, "    total = cum_acc2[-1]\n    ind2 = np.where((cum_acc2 > start * total) & (cum_acc2 < end * total))\n"),
    T("vals-normalised", V, "    ind2 = np.where((cum_acc2 / cum_acc2[-1] > start) & (cum_acc2 / cum_acc2[-1] < end))\n"),
    T("vals-index-name", "    start_time = ind2[0][0] * dt\n    end_time = ind2[0][-1] * dt\n", "    idx = ind2[0]\n    start_time = idx[0] * dt\n    end_time = idx[-1] * dt\n"),
    T("brac-np-abs", "    abs_motion = abs(asig.values)\n\n    time = np.arange(asig.npts) * asig.dt\n", "    abs_motion = np.abs(asig.values)\n\n    time = asig.dt * np.arange(asig.npts)\n"),
    T("brac-flipped", "    ind01 = np.where(abs_motion > threshold)\n    time2 = time[ind01]\n    try:\n        if se:", "    ind01 = np.where(threshold < abs_motion)\n    time2 = time[ind01]\n    try:\n        if se:"),
    T("brac-asig-time", "    time = np.arange(asig.npts) * asig.dt\n    # Bracketed duration\n    ind01 = np.where(abs_motion > threshold)\n    time2",
      "    time = asig.time\n    # Bracketed duration\n    ind01 = np.where(abs_motion > threshold)\n    time2"),
]

def B(id, old, new, rule=None, **kw):
    return dict(id=id, prop="C09", kind="break", file="eqsig/im.py", old=old, new=new, rule=rule, **kw)


def T(id, old, new, **kw):
    return dict(id=id, prop="C09", kind="twin", file="eqsig/im.py", old=old, new=new, **kw)


ARIAS = "    return np.pi / (2 * 9.81) * cumulative_trapezoid(acc ** 2, dx=dt, initial=0)\n"
CAV = "    abs_acc = np.abs(acc_sig.values)\n    return cumulative_trapezoid(abs_acc, dx=acc_sig.dt, initial=0)\n"
ISV = "    return cumulative_trapezoid(acc_sig.velocity ** 2, dx=acc_sig.dt, initial=0)\n"
VARIANTS = [
    B("arias-no-initial", ARIAS, ARIAS.replace(", initial=0", ""), "R-IM-TYPE"),
    B("arias-cube", ARIAS, ARIAS.replace("acc ** 2", "acc ** 3"), "R-IM-TYPE"),
    B("arias-abs-not-square", ARIAS, ARIAS.replace("acc ** 2", "np.abs(acc)"), "R-IM-TYPE"),
    B("arias-no-dx", ARIAS, ARIAS.replace("dx=dt, ", ""), "R-IM-TYPE"),
    B("arias-cumsum", ARIAS, "    return np.pi / (2 * 9.81) * np.cumsum(acc ** 2) * dt\n", "R-IM-TYPE"),
    B("arias-g-constant", ARIAS, ARIAS.replace("9.81", "9.18"), "R-ARIAS-CONST"),
    B("arias-wrong-source", "    return _raw_calc_arias_intensity(acc_sig.values, acc_sig.dt)\n",
      "    return _raw_calc_arias_intensity(acc_sig.velocity, acc_sig.dt)\n", "R-IM-TYPE"),
    B("cav-no-abs", CAV, CAV.replace("np.abs(acc_sig.values)", "acc_sig.values"), "R-IM-TYPE"),
    B("cav-square", CAV, CAV.replace("np.abs(acc_sig.values)", "acc_sig.values ** 2"), "R-IM-TYPE"),
    B("cav-npts-dx", CAV, CAV.replace("dx=acc_sig.dt", "dx=1.0 / acc_sig.npts"), "R-IM-TYPE"),
    B("isv-uses-acc", ISV, ISV.replace("acc_sig.velocity", "acc_sig.values"), "R-IM-TYPE"),
    B("isv-uses-disp", ISV, ISV.replace("acc_sig.velocity", "acc_sig.displacement"), "R-IM-TYPE"),
    B("isv-no-initial", ISV, ISV.replace(", initial=0", ""), "R-IM-TYPE"),
    B("absvel-no-abs", "    abs_vel = abs(asig.velocity)\n", "    abs_vel = asig.velocity\n", "R-IM-TYPE"),
    B("absvel-no-dt", "    vel_int = np.cumsum(abs_vel * asig.dt)\n", "    vel_int = np.cumsum(abs_vel)\n", "R-IM-TYPE"),
    B("absacc-diff", "    acc_int = np.cumsum(abs_acc * asig.dt)\n", "    acc_int = np.cumsum(abs_acc * asig.dt)[1:]\n", "R-IM-TYPE"),
    B("uke-no-extend", "    delta_energy = np.insert(delta_energy, 0, kin_energy[0])\n", "", "R-IM-TYPE"),
    B("uke-no-abs-delta", "    cum_delta_energy = np.cumsum(abs(delta_energy))\n", "    cum_delta_energy = np.cumsum(delta_energy)\n", "R-IM-TYPE"),
    B("uke-v-squared-signless", "    kin_energy = 0.5 * acc_signal.velocity * np.abs(acc_signal.velocity)\n",
      "    kin_energy = 0.5 * acc_signal.velocity * np.abs(acc_signal.values)\n", "R-IM-TYPE"),
    B("cavdp-gate-value", "        if (pga - 0.025) < 0:\n            h = 0\n        elif (pga - 0.025) >= 0:\n",
      "        if (pga - 0.25) < 0:\n            h = 0\n        elif (pga - 0.25) >= 0:\n", "R-CAVDP"),
    B("cavdp-h-negative", "        if (pga - 0.025) < 0:\n            h = 0\n", "        if (pga - 0.025) < 0:\n            h = -1\n", "R-CAVDP"),
    B("cavdp-reset-accumulator", "        cav_dp_1_series.append(cav_dp)\n        start = end\n",
      "        cav_dp_1_series.append(cav_dp)\n        if h == 0:\n            cav_dp = 0\n        start = end\n", "R-CAVDP"),
    B("cavdp-no-abs-window", "        abs_acc_interval = abs(acc_interval)\n", "        abs_acc_interval = acc_interval\n", "R-CAVDP"),
    B("cavdp-interp-on-seconds", "    cav_dp_time_series = np.interp(asig.time, t1s, cav_dp_1_series)\n",
      "    cav_dp_time_series = np.interp(t1s, t1s, cav_dp_1_series)\n", "R-CAVDP"),
    B("cav-reuses-snapshot", "    abs_acc = np.abs(acc_sig.values)\n    return cumulative_trapezoid(", "    if getattr(acc_sig, 'cav_series', None) is not None:\n        return acc_sig.cav_series\n    abs_acc = np.abs(acc_sig.values)\n    return cumulative_trapezoid(", "R-IM-TYPE"),
    B("arias-scaled-by-snapshot", "    return _raw_calc_arias_intensity(acc_sig.values, acc_sig.dt)\n", "    return _raw_calc_arias_intensity(acc_sig.values, acc_sig.dt) + 0 * acc_sig.arias_intensity\n", "R-IM-TYPE"),
    # twins
    T("arias-g-name", ARIAS, "    g = 9.81\n    return np.pi / (2 * g) * cumulative_trapezoid(acc ** 2, dx=dt, initial=0)\n"),
    T("arias-acc-times-acc", ARIAS, "    return np.pi / 2 / 9.81 * cumulative_trapezoid(acc * acc, dx=dt, initial=0)\n"),
    T("cav-builtin-abs", CAV, CAV.replace("np.abs(", "abs(")),
    T("absvel-dt-outside", "    vel_int = np.cumsum(abs_vel * asig.dt)\n", "    vel_int = np.cumsum(abs_vel) * asig.dt\n"),
    T("uke-prepend", "    delta_energy = np.diff(kin_energy)\n    delta_energy = np.insert(delta_energy, 0, kin_energy[0])\n",
      "    delta_energy = np.diff(kin_energy, prepend=0)\n"),
    T("cavdp-aug-assign", "        cav_dp = cav_dp + (h * int_acc)\n", "        cav_dp += h * int_acc\n"),
]

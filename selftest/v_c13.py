def B(id, old, new, rule=None, file="eqsig/im.py", **kw):
    return dict(id=id, prop="C13", kind="break", file=file, old=old, new=new, rule=rule, **kw)


def T(id, old, new, file="eqsig/im.py", **kw):
    return dict(id=id, prop="C13", kind="twin", file=file, old=old, new=new, **kw)


PKF = "eqsig/fns/peaks_and_crossings.py"
PERC = "    perc = 0.5 / (n_ref * (a_ref / csr_peaks)[:, np.newaxis] ** (1 / b))\n"
AMP = "    csr_n15_series1 = np.cumsum((np.abs(csr_peaks_s1)[:, np.newaxis] ** (1. / b)) / 2 / n_cyc, axis=0) ** b\n"
COMB = "    csr_n15_series = np.cumsum((np.abs(csr_peaks_s0) ** (1. / b) + np.abs(csr_peaks_s1) ** (1. / b)) / 2 / n_cyc) ** b\n"
VARIANTS = [
    B("ncyc-exponent-b", PERC, PERC.replace("** (1 / b)", "** b"), "R-PL-INV"),
    B("ncyc-inverted-ratio", PERC, PERC.replace("(a_ref / csr_peaks)", "(csr_peaks / a_ref)"), "R-PL-INV"),
    B("ncyc-no-ref", PERC, PERC.replace("(a_ref / csr_peaks)", "(1.0 / csr_peaks)"), "R-PL-DEG"),
    B("ncyc-full-cycle", PERC, PERC.replace("0.5 /", "1.0 /"), "R-PL-INV"),
    B("ncyc-no-abs", "    csr_peaks = np.abs(np.take(values, peak_indices))\n    csr_peaks = np.where(csr_peaks < cut_off", "    csr_peaks = np.take(values, peak_indices)\n    csr_peaks = np.where(csr_peaks < cut_off", "R-PL-DEG"),
    B("ncyc-cutoff-max-signed", "    csr_peaks = np.where(csr_peaks < cut_off * np.max(abs(values)), 1.0e-14, csr_peaks)\n", "    csr_peaks = np.where(csr_peaks < cut_off * np.max(values), 1.0e-14, csr_peaks)\n", "R-PL-DEG"),
    B("ncyc-cutoff-absolute", "    csr_peaks = np.where(csr_peaks < cut_off * np.max(abs(values)), 1.0e-14, csr_peaks)\n", "    csr_peaks = np.where(csr_peaks < cut_off, 1.0e-14, csr_peaks)\n", "R-PL-DEG"),
    B("ncyc-wrong-length", "    n_series = f(np.arange(len(values)))\n", "    n_series = f(np.arange(len(values) - 1))\n", "R-PL-LEN"),
    B("amp-outer-no-b", AMP, AMP.replace(", axis=0) ** b\n", ", axis=0)\n"), "R-PL-DEG"),
    B("amp-inner-b", AMP, AMP.replace("** (1. / b)", "** b"), "R-PL-DEG"),
    B("amp-no-half", AMP, AMP.replace(" / 2 / n_cyc", " / n_cyc"), "R-PL-INV"),
    B("amp-times-ncyc", AMP, AMP.replace(" / 2 / n_cyc", " / 2 * n_cyc"), "R-PL-INV"),
    B("amp-diff-not-cumsum", AMP, AMP.replace("np.cumsum(", "np.abs(").replace(", axis=0) ** b", ") ** b"), "R-PL-INV"),
    B("combined-one-exponent", COMB, COMB.replace("np.abs(csr_peaks_s1) ** (1. / b)", "np.abs(csr_peaks_s1)"), "R-PL-DEG"),
    B("combined-subtracts", COMB, COMB.replace(" + np.abs(csr_peaks_s1)", " - np.abs(csr_peaks_s1)"), "R-PL-LEN"),
    B("gm-arithmetic-mean-sq", "    csr_n_series = np.sqrt(csr_n_series0 * csr_n_series1)\n", "    csr_n_series = csr_n_series0 * csr_n_series1\n", "R-PL-DEG"),
    B("delta-rebase-after-clean", "    values -= values[0]\n    # remove all non-changing values\n    cleaned_values, non_zero_indices = clean_out_non_changing(values)\n    cleaned_values *= np.sign(cleaned_values[1])  # ensure first value is increasing\n    # compute delta peaks for cleaned data\n    cleaned_delta_peak_series = determine_peak_only",
      "    # remove all non-changing values\n    cleaned_values, non_zero_indices = clean_out_non_changing(values)\n    values -= values[0]\n    cleaned_values *= np.sign(cleaned_values[1])  # ensure first value is increasing\n    # compute delta peaks for cleaned data\n    cleaned_delta_peak_series = determine_peak_only", "R-PK-SHIFT", file=PKF),
    B("pseudo-no-rebase", "    values -= values[0]\n    # remove all non-changing values\n    cleaned_values, non_zero_indices = clean_out_non_changing(values)\n    cleaned_values *= np.sign(cleaned_values[1])  # ensure first value is increasing\n    # compute delta peaks for cleaned data\n    cleaned_delta_peak_series = _determine",
      "    # remove all non-changing values\n    cleaned_values, non_zero_indices = clean_out_non_changing(values)\n    cleaned_values *= np.sign(cleaned_values[1])  # ensure first value is increasing\n    # compute delta peaks for cleaned data\n    cleaned_delta_peak_series = _determine", "R-PK-SHIFT", file=PKF),
    B("delta-scatter-arange", "    np.put(delta_peaks_series, non_zero_indices, cleaned_delta_peak_series)\n    return delta_peaks_series\n\n\ndef get_switched_peak_indices",
      "    np.put(delta_peaks_series, np.arange(len(cleaned_delta_peak_series)), cleaned_delta_peak_series)\n    return delta_peaks_series\n\n\ndef get_switched_peak_indices", "R-PK-SHIFT", file=PKF),
    B("delta-rebase-last", "    values -= values[0]\n    # remove all non-changing values\n    cleaned_values, non_zero_indices = clean_out_non_changing(values)\n    cleaned_values *= np.sign(cleaned_values[1])  # ensure first value is increasing\n    # compute delta peaks for cleaned data\n    cleaned_delta_peak_series = determine_peak_only",
      "    values -= values[-1]\n    # remove all non-changing values\n    cleaned_values, non_zero_indices = clean_out_non_changing(values)\n    cleaned_values *= np.sign(cleaned_values[1])  # ensure first value is increasing\n    # compute delta peaks for cleaned data\n    cleaned_delta_peak_series = determine_peak_only", "R-PK-SHIFT", file=PKF),
    # twins
    T("ncyc-power-split", PERC, "    perc = 0.5 / (n_ref * (a_ref ** (1 / b) / csr_peaks[:, np.newaxis] ** (1 / b)))\n"),
    T("amp-half-first", AMP, AMP.replace("(np.abs(csr_peaks_s1)[:, np.newaxis] ** (1. / b)) / 2 / n_cyc", "0.5 * (np.abs(csr_peaks_s1)[:, np.newaxis] ** (1. / b)) / n_cyc")),
    T("combined-builtin-abs", COMB, COMB.replace("np.abs(csr_peaks_s0)", "abs(csr_peaks_s0)")),
    T("gm-power-half", "    csr_n_series = np.sqrt(csr_n_series0 * csr_n_series1)\n", "    csr_n_series = (csr_n_series0 * csr_n_series1) ** 0.5\n"),
    T("delta-copy-np-copy", "    values = np.array(values)\n    # rebase to zero as first value\n    values -= values[0]\n    # remove all non-changing values\n    cleaned_values, non_zero_indices = clean_out_non_changing(values)\n    cleaned_values *= np.sign(cleaned_values[1])  # ensure first value is increasing\n    # compute delta peaks for cleaned data\n    cleaned_delta_peak_series = determine_peak_only",
      "    values = np.copy(values)\n    # rebase to zero as first value\n    values -= values[0]\n    # remove all non-changing values\n    cleaned_values, non_zero_indices = clean_out_non_changing(values)\n    cleaned_values *= np.sign(cleaned_values[1])  # ensure first value is increasing\n    # compute delta peaks for cleaned data\n    cleaned_delta_peak_series = determine_peak_only", file=PKF),
]

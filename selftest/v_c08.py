def B(id, file, old, new, rule=None, **kw):
    return dict(id=id, prop="C08", kind="break", file=file, old=old, new=new, rule=rule, **kw)


def T(id, file, old, new, **kw):
    return dict(id=id, prop="C08", kind="twin", file=file, old=old, new=new, **kw)


D = "eqsig/displacements.py"
S = "eqsig/single.py"
IM = "eqsig/im.py"
VARIANTS = [
    B("disp-cumsum-on-trap", D, "        displacement = cumulative_trapezoid(velocity, dx=dt, initial=0)\n",
      "        displacement = np.cumsum(velocity) * dt\n", "R-QUAD"),
    B("vel-no-initial", D, "        velocity = cumulative_trapezoid(acceleration, dx=dt, initial=0)\n",
      "        velocity = cumulative_trapezoid(acceleration, dx=dt)\n", "R-INT-TYPE"),
    B("disp-no-dx", D, "        displacement = cumulative_trapezoid(velocity, dx=dt, initial=0)\n",
      "        displacement = cumulative_trapezoid(velocity, initial=0)\n", "R-INT-TYPE"),
    B("disp-integrates-acc", D, "        displacement = cumulative_trapezoid(velocity, dx=dt, initial=0)\n",
      "        displacement = cumulative_trapezoid(acceleration, dx=dt, initial=0)\n", "R-INT-TYPE"),
    B("disp-initial-nonzero", D, "        displacement = cumulative_trapezoid(velocity, dx=dt, initial=0)\n",
      "        displacement = cumulative_trapezoid(velocity, dx=dt, initial=velocity[0])\n", "R-INT-TYPE"),
    B("rect-store-from-0", D, "        velocity[1:] = acceleration * dt  # computes the increments\n",
      "        velocity[:-1] = acceleration * dt  # computes the increments\n", "R-INT-TYPE"),
    B("rect-wrong-trim", D, "        velocity = velocity[:-1]\n        displacement = displacement[:-1]\n",
      "        velocity = velocity[1:]\n        displacement = displacement[1:]\n", "R-INT-TYPE"),
    B("rect-disp-trap", D, "        np.cumsum(displacement, out=displacement)\n",
      "        displacement = cumulative_trapezoid(velocity, dx=dt, initial=0)\n", "R-QUAD"),
    B("vel-abs", D, "        velocity = cumulative_trapezoid(acceleration, dx=dt, initial=0)\n",
      "        velocity = cumulative_trapezoid(np.abs(acceleration), dx=dt, initial=0)\n", "R-INT-TYPE"),
    B("vel-offset", D, "        velocity = cumulative_trapezoid(acceleration, dx=dt, initial=0)\n",
      "        velocity = cumulative_trapezoid(acceleration - acceleration[0], dx=dt, initial=0) + 1e-9\n", "R-INT-TYPE"),
    B("trap-default-false", D, "def calc_velo_and_disp_from_accel_arr(acceleration, dt, trap=True):", "def calc_velo_and_disp_from_accel_arr(acceleration, dt, trap=False):", "R-QUAD"),
    B("lazy-swapped", S, "        self._velocity, self._displacement = sd.calc_velo_and_disp_from_accel_arr(self.values, self.dt, trap=trap)",
      "        self._displacement, self._velocity = sd.calc_velo_and_disp_from_accel_arr(self.values, self.dt, trap=trap)", "R-LAZY"),
    B("lazy-ignores-trap", S, "sd.calc_velo_and_disp_from_accel_arr(self.values, self.dt, trap=trap)",
      "sd.calc_velo_and_disp_from_accel_arr(self.values, self.dt)", "R-LAZY"),
    B("lazy-getter-wrong-store", S, "            self.generate_displacement_and_velocity_series()\n        return self._displacement\n",
      "            self.generate_displacement_and_velocity_series()\n        return self._velocity\n", "R-LAZY"),
    B("pgd-reads-velocity", S, "            pgd = im.calc_peak(self.displacement)\n", "            pgd = im.calc_peak(self.velocity)\n", "R-PEAK"),
    B("peak-max-only", IM, "def calc_peak(motion):\n    \"\"\"Calculates the peak absolute response\"\"\"\n    return max(abs(min(motion)), max(motion))",
      "def calc_peak(motion):\n    \"\"\"Calculates the peak absolute response\"\"\"\n    return max(motion)", "R-PEAK"),
    B("peak-wrong-pair", IM, "def calc_peak(motion):\n    \"\"\"Calculates the peak absolute response\"\"\"\n    return max(abs(min(motion)), max(motion))",
      "def calc_peak(motion):\n    \"\"\"Calculates the peak absolute response\"\"\"\n    return max(abs(min(motion)), motion[-1])", "R-PEAK"),
    B("pga-scaled", S, "            pga = im.calc_peak(self.values)\n", "            pga = im.calc_peak(self.values) * self.dt\n", "R-PEAK"),
    B("pgv-memo-key", S, '            self._cached_params["pgv"] = pgv\n', '            self._cached_params["pgd"] = pgv\n', "R-PEAK"),
    # twins
    T("peak-np-form", IM, "def calc_peak(motion):\n    \"\"\"Calculates the peak absolute response\"\"\"\n    return max(abs(min(motion)), max(motion))",
      "def calc_peak(motion):\n    \"\"\"Calculates the peak absolute response\"\"\"\n    return np.max(np.abs(motion))"),
    T("peak-neg-min-form", IM, "def calc_peak(motion):\n    \"\"\"Calculates the peak absolute response\"\"\"\n    return max(abs(min(motion)), max(motion))",
      "def calc_peak(motion):\n    \"\"\"Calculates the peak absolute response\"\"\"\n    lo = np.min(motion)\n    hi = np.max(motion)\n    return max(hi, -lo)"),
    T("vel-renamed", D, "        velocity = cumulative_trapezoid(acceleration, dx=dt, initial=0)\n        displacement = cumulative_trapezoid(velocity, dx=dt, initial=0)\n",
      "        vel = cumulative_trapezoid(acceleration, dx=dt, initial=0)\n        velocity = vel\n        displacement = cumulative_trapezoid(vel, initial=0, dx=dt)\n"),
    T("rect-no-out", D, "        np.cumsum(velocity, out=velocity)  # passed into original array for efficiency\n",
      "        velocity = np.cumsum(velocity)\n"),
    T("dt-times-unit-dx", D, "        velocity = cumulative_trapezoid(acceleration, dx=dt, initial=0)\n",
      "        velocity = dt * cumulative_trapezoid(acceleration, initial=0)\n"),
    T("trap-flag-not", D, "    if trap is False:\n", "    if not trap:\n"),
]

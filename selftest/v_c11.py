def B(id, old, new, rule=None, prop="C11", file="eqsig/fns/peaks_and_crossings.py", **kw):
    return dict(id=id, prop=prop, kind="break", file=file, old=old, new=new, rule=rule, **kw)


def T(id, old, new, prop="C11", file="eqsig/fns/peaks_and_crossings.py", **kw):
    return dict(id=id, prop=prop, kind="twin", file=file, old=old, new=new, **kw)


MIN = "    if ptype == 'min':\n        if values[peak_full_indices[1]] - values[peak_full_indices[0]] <= 0:\n            return peak_full_indices[1::2]\n        else:\n            return peak_full_indices[::2]\n"
MAX = "    elif ptype == 'max':\n        if values[peak_full_indices[1]] - values[peak_full_indices[0]] > 0:\n            return peak_full_indices[1::2]\n        else:\n            return peak_full_indices[::2]\n"
VARIANTS = [
    B("peaks-no-float-cast", "    values = np.array(values, dtype=float)\n    # remove all non-changing values\n    cleaned_values, non_zero_indices = clean_out_non_changing(values)\n    # cleaned_values *=", "    values = np.array(values)\n    # remove all non-changing values\n    cleaned_values, non_zero_indices = clean_out_non_changing(values)\n    # cleaned_values *=", "R-IDX"),
    T("peaks-float-cast-other-spelling", "    values = np.array(values, dtype=float)\n    # remove all non-changing values\n    cleaned_values, non_zero_indices = clean_out_non_changing(values)\n    # cleaned_values *=", "    values = np.array(values).astype(np.float64)\n    # remove all non-changing values\n    cleaned_values, non_zero_indices = clean_out_non_changing(values)\n    # cleaned_values *=", ),
    B("direction-regression", MAX, MAX.replace("values[peak_full_indices[1]] - values[peak_full_indices[0]] > 0", "values[1] - values[0] > 0"), "R-CLEANED"),
    B("min-test-strict", MIN, MIN.replace("<= 0", "< 0"), "R-PARTITION"),
    B("max-strides-swapped", MAX, MAX.replace("[1::2]", "[XX]").replace("[::2]", "[1::2]").replace("[XX]", "[::2]"), "R-PARTITION"),
    B("max-stride-3", MAX, MAX.replace("return peak_full_indices[1::2]", "return peak_full_indices[1::3]"), "R-PARTITION"),
    B("both-flipped", MIN + MAX, (MIN + MAX).replace("<= 0", "XX").replace("> 0", "<= 0").replace("XX", "> 0"), "R-PARTITION"),
    B("min-other-direction", MIN, MIN.replace("values[peak_full_indices[1]] - values[peak_full_indices[0]] <= 0", "values[peak_full_indices[-1]] - values[peak_full_indices[0]] <= 0"), "R-PARTITION"),
    B("indices-from-arange", "    peak_full_indices = np.take(non_zero_indices, peak_cleaned_indices)\n", "    peak_full_indices = np.take(np.arange(len(values)), peak_cleaned_indices)\n", "R-IDX"),
    B("detector-on-uncleaned", "    peak_cleaned_indices = determine_indices_of_peaks_for_cleaned_array(cleaned_values)\n", "    peak_cleaned_indices = determine_indices_of_peaks_for_cleaned_array(values)\n", "R-IDX"),
    B("detector-nonstrict", "    peak_indices = np.where(diff[1:] * diff[:-1] < 0)[0]\n", "    peak_indices = np.where(diff[1:] * diff[:-1] <= 0)[0]\n", "R-IDX"),
    B("detector-no-last", "    peak_indices = np.insert(peak_indices, len(peak_indices), len(values) - 1)\n", "    peak_indices = np.insert(peak_indices, len(peak_indices), len(values))\n", "R-IDX"),
    B("ncyc-step-1", "    n_cycs = 0.5 * np.arange(len(indys))\n", "    n_cycs = 1.0 * np.arange(len(indys))\n", "R-NCYC"),
    B("ncyc-origin-shift", "        svalue = -0.25\n", "        svalue = -0.75\n", "R-NCYC"),
    B("f17-np-trapz-duration-stats", "            self.a_rms01 = np.sqrt(1 / self.t_b01 * trapezoid(", "            self.a_rms01 = np.sqrt(1 / self.t_b01 * np.trapz(", "R-LIBNS",
      prop="C10", file="eqsig/single.py"),
    B("f17-np-trapz-fourier-moment", "    return 2 * trapezoid(", "    return 2 * np.trapz(", "R-LIBNS", prop="C06", file="eqsig/fns/frequency.py"),
    B("dep-stats-nonstrict", "ind01 = np.where(abs_motion / 9.8 > 0.01)", "ind01 = np.where(abs_motion / 9.8 >= 0.01)", "R-STRICT", prop="C10", file="eqsig/single.py"),
    B("dep-stats-below", "ind05 = np.where(abs_motion / 9.8 > 0.05)", "ind05 = np.where(abs_motion / 9.8 < 0.05)", "R-STRICT", prop="C10", file="eqsig/single.py"),
    B("dep-stats-threshold", "ind10 = np.where(abs_motion / 9.8 > 0.1)", "ind10 = np.where(abs_motion / 9.8 > 0.2)", "R-REL", prop="C10", file="eqsig/single.py"),
    B("dep-stats-sum-of-ends", "self.t_b05 = time05[-1] - time05[0]", "self.t_b05 = time05[-1] + time05[0]", "R-ENDS", prop="C10", file="eqsig/single.py"),
    B("dep-stats-no-abs", "        abs_motion = abs(self.values)\n\n        time = np.arange(self.npts) * self.dt", "        abs_motion = self.values\n\n        time = np.arange(self.npts) * self.dt", "R-REL", prop="C10", file="eqsig/single.py"),
    B("dep-stats-time-over-dt", "        time = np.arange(self.npts) * self.dt\n        # Bracketed duration", "        time = np.arange(self.npts) / self.dt\n        # Bracketed duration", "R-REL", prop="C10", file="eqsig/single.py"),
    B("libns-generic-cav-trapz", "    return cumulative_trapezoid(abs_acc, dx=acc_sig.dt, initial=0)", "    return np.cumtrapz(abs_acc, dx=acc_sig.dt, initial=0)", "R-LIBNS",
      prop="C09", file="eqsig/im.py"),
    B("turn-pair-shape", "diff[1:] * diff[:-1] < 0", "diff[1:] * diff[:-2] < 0", "R-IDX"),
    B("turn-pair-not-adjacent", "diff[1:] * diff[:-1] < 0", "diff[2:] * diff[:-2] < 0", "R-IDX"),
    B("turn-pair-empty", "diff[1:] * diff[:-1] < 0", "diff[1:] * diff[:-0] < 0", "R-IDX"),
    T("turn-pair-swapped", "diff[1:] * diff[:-1] < 0", "diff[:-1] * diff[1:] < 0"),
    B("ncyc-insert-when-present", "    if indys[0] != 0:\n        indys = np.insert(indys, 0, 0)\n", "    if indys[0] == 0:\n        indys = np.insert(indys, 0, 0)\n", "R-NCYC"),
    B("ncyc-insert-at-1", "        indys = np.insert(indys, 0, 0)\n", "        indys = np.insert(indys, 1, 0)\n", "R-NCYC"),
    B("ncyc-insert-index-1", "        indys = np.insert(indys, 0, 0)\n", "        indys = np.insert(indys, 0, 1)\n", "R-NCYC"),
    B("ncyc-half-over-arange", "    n_cycs = 0.5 * np.arange(len(indys))\n", "    n_cycs = 0.5 / np.arange(len(indys))\n", "R-NCYC"),
    B("ncyc-shift-from-2", "    n_cycs[1:] += svalue\n", "    n_cycs[2:] += svalue\n", "R-NCYC"),
    B("ncyc-shift-from-0", "    n_cycs[1:] += svalue\n", "    n_cycs[0:] += svalue\n", "R-NCYC"),
    B("ncyc-switched-uses-all", "        indys = get_switched_peak_array_indices(values)\n    else:", "        indys = get_peak_array_indices(values)\n    else:", "R-NCYC"),
    B("ncyc-length", "    return np.interp(np.arange(len(values)), indys, n_cycs)\n", "    return np.interp(np.arange(len(indys)), indys, n_cycs)\n", "R-NCYC"),
    B("ncyc-else-silent", "    else:\n        raise ValueError('start must be either \"origin\" or \"peak\"')\n", "    else:\n        svalue = 0.5\n", "R-NCYC"),
    # twins
    T("direction-bool-name", MIN + MAX, "    rising = values[peak_full_indices[1]] > values[peak_full_indices[0]]\n    if ptype == 'min':\n        if not rising:\n            return peak_full_indices[1::2]\n        else:\n            return peak_full_indices[::2]\n    elif ptype == 'max':\n        if rising:\n            return peak_full_indices[1::2]\n        else:\n            return peak_full_indices[::2]\n"),
    T("direction-compare-form", MAX, MAX.replace("values[peak_full_indices[1]] - values[peak_full_indices[0]] > 0", "values[peak_full_indices[1]] > values[peak_full_indices[0]]")),
    T("max-branches-swapped", MAX, "    elif ptype == 'max':\n        if values[peak_full_indices[1]] - values[peak_full_indices[0]] <= 0:\n            return peak_full_indices[::2]\n        else:\n            return peak_full_indices[1::2]\n"),
    T("ncyc-half-division", "    n_cycs = 0.5 * np.arange(len(indys))\n", "    n_cycs = np.arange(len(indys)) / 2\n"),
    # ---------------------------------------------------------------------------------- C12
    B("zc-crossing-nonstrict", "    through_zero_indices = np.where(sign_switch < 0)[0]\n", "    through_zero_indices = np.where(sign_switch <= 0)[0]\n", "R-ZC-STRICT", prop="C12"),
    B("zc-adjacent-ge", "        no_adj_is = np.where(diff_is > 1)[0]\n", "        no_adj_is = np.where(diff_is >= 1)[0]\n", "R-ZC-STRICT", prop="C12"),
    B("zc-zeros-near", "    zero_indices = np.where(values == 0)[0]\n", "    zero_indices = np.where(np.abs(values) < 1e-9)[0]\n", "R-ZC-STRICT", prop="C12"),
    B("zc-no-sort", "    all_zc_indices.sort()\n", "", "R-ZC-STRICT", prop="C12"),
    B("zc-always-insert-0", "    if all_zc_indices[0] != 0:\n        all_zc_indices = np.insert(all_zc_indices, 0, 0)  # slow\n", "    all_zc_indices = np.insert(all_zc_indices, 0, 0)  # slow\n", "R-ZC-STRICT", prop="C12"),
    B("zc-extra-source", "    all_zc_indices = np.concatenate((zero_indices, through_zero_indices))\n", "    all_zc_indices = np.concatenate((zero_indices, through_zero_indices, np.array([len(values) - 1])))\n", "R-ZC-STRICT", prop="C12"),
    B("zc-tol-inserts", "        all_zc_indices = np.delete(all_zc_indices, rem_i)\n", "        all_zc_indices = np.insert(np.delete(all_zc_indices, rem_i), 1, int(tol) + 1)\n", "R-TOL-SUB", prop="C12"),
    B("zc-neg-tol-accepted", "    if tol < 0:\n        raise NotImplemented('not implemented')\n", "    if tol < 0:\n        tol = -tol\n", "R-TOL-SUB", prop="C12"),
    B("sw-placeholder-regression", "    peak_values_set = [peak_values[0]]\n", "    peak_values_set = [0]\n", "R-SW-COVER", prop="C12"),
    B("sw-loop-from-2", "    for i in range(1, len(peak_values)):\n", "    for i in range(2, len(peak_values)):\n", "R-SW-COVER", prop="C12"),
    B("sw-loop-short", "    for i in range(1, len(peak_values)):\n", "    for i in range(1, len(peak_values) - 1):\n", "R-SW-COVER", prop="C12"),
    B("sw-argmax-signed", "            i_max_set = np.argmax(np.abs(peak_values_set))\n            new_peak_indices.append(peak_indices_set[i_max_set])\n\n            last", "            i_max_set = np.argmax(peak_values_set)\n            new_peak_indices.append(peak_indices_set[i_max_set])\n\n            last", "R-SW-SEL", prop="C12"),
    B("sw-boundary-strict", "        if adj_val * last <= 0:  # only add index if sign changes (negative number)\n", "        if adj_val * last < 0:\n", "R-SW-SEL", prop="C12"),
    B("sw-final-no-map", "    switched_peak_indices = np.unique(np.take(peak_indices, new_peak_indices))\n", "    switched_peak_indices = np.unique(np.array(new_peak_indices))\n", "R-SW-SEL", prop="C12"),
    # F16 (repaired in /repo 9449889): an all-zero series must not be reported as [0, 0]
    B("f16-no-dedup", "    switched_peak_indices = np.unique(np.take(peak_indices, new_peak_indices))\n", "    switched_peak_indices = np.take(peak_indices, new_peak_indices)\n", "R-SW-SEL", prop="C12"),
    T("sw-seed-name", "    last = peak_values[0]\n    new_peak_indices = []\n    peak_values_set = [peak_values[0]]\n", "    last = peak_values[0]\n    new_peak_indices = []\n    peak_values_set = [peak_values[0]]\n    # first excursion starts with the first peak\n", prop="C12"),
    T("zc-flipped-compare", "    through_zero_indices = np.where(sign_switch < 0)[0]\n", "    through_zero_indices = np.where(0 > sign_switch)[0]\n", prop="C12"),
    T("zc-np-sort", "    all_zc_indices.sort()\n", "    all_zc_indices = np.sort(all_zc_indices)\n", prop="C12"),
]

def B(id, old, new, rule=None, file="eqsig/fns/average.py", **kw):
    return dict(id=id, prop="C20", kind="break", file=file, old=old, new=new, rule=rule, **kw)


def T(id, old, new, file="eqsig/fns/average.py", **kw):
    return dict(id=id, prop="C20", kind="twin", file=file, old=old, new=new, **kw)


G = "eqsig/fns/generic.py"
D = "eqsig/design_spectra.py"
VARIANTS = [
    B("i2d-difference-in-table-dtype", "    s1 = 1 - s0\n    return s1[:, np.newaxis] * f0 + s0[:, np.newaxis] * f1\n", "    return f0 + s0[:, np.newaxis] * (f1 - f0)\n", "R-I2D", file=G),
    T("i2d-difference-after-float-cast", "    s1 = 1 - s0\n    return s1[:, np.newaxis] * f0 + s0[:, np.newaxis] * f1\n", "    return f0 + s0[:, np.newaxis] * (f1.astype(float) - f0)\n", file=G),
    B("step-mean-regression", "(npts - pre_n) * np.abs(pre_mean) ** pow\n", "(npts - pre_n) * pre_mean ** pow\n", "R-STEP-PARITY"),
    B("step-no-abs-dev", "    err_post = np.sum(np.abs(post_a - post_mean[:, np.newaxis]) ** pow, axis=1)", "    err_post = np.sum((post_a - post_mean[:, np.newaxis]) ** pow, axis=1)", "R-STEP-PARITY"),
    B("step-last-no-abs", "    err[-1] = np.sum(np.abs(values - np.mean(values)) ** pow)\n", "    err[-1] = np.sum((values - np.mean(values)) ** pow)\n", "R-STEP-PARITY"),
    B("step-power-ignored", "    err[-1] = np.sum(np.abs(values - np.mean(values)) ** pow)\n", "    err[-1] = np.sum(np.abs(values - np.mean(values)))\n", "R-STEP-PARITY"),
    B("levels-include-split", "    post = np.mean(values[ind + 1:])\n", "    post = np.mean(values[ind:])\n", "R-STEP-LEVELS"),
    B("levels-pre-through-split", "    pre = np.mean(values[:ind])\n", "    pre = np.mean(values[:ind + 1])\n", "R-STEP-LEVELS"),
    B("levels-median", "    pre = np.mean(values[:ind])\n", "    pre = np.median(values[:ind])\n", "R-STEP-LEVELS"),
    B("levels-default-argmax", "        ind = np.argmin(calc_step_fn_vals_error(values))\n", "        ind = np.argmax(calc_step_fn_vals_error(values))\n", "R-STEP-LEVELS"),
    B("roll-divisor", "    return (csum[steps:] - csum[:-steps]) / steps\n", "    return (csum[steps:] - csum[:-steps]) / (steps - 1)\n", "R-ROLL"),
    B("roll-lag", "    return (csum[steps:] - csum[:-steps]) / steps\n", "    return (csum[steps - 1:] - csum[:-steps + 1]) / steps\n", "R-ROLL"),
    B("roll-forward-pads-before", "        x_ext = np.concatenate([values, values[-1] * np.ones(steps - 1)])\n", "        x_ext = np.concatenate([values[-1] * np.ones(steps - 1), values])\n", "R-ROLL"),
    B("roll-backward-last-value", "        x_ext = np.concatenate([values[0] * np.ones(steps - 1), values])\n", "        x_ext = np.concatenate([values[-1] * np.ones(steps - 1), values])\n", "R-ROLL"),
    B("roll-centre-ceil", "        s = int(np.floor(steps / 2))\n        e = steps - s - 1\n", "        s = int(np.floor(steps / 2))\n        e = steps - s\n", "R-ROLL"),
    B("roll-pad-zero", "        x_ext = np.concatenate([values, values[-1] * np.ones(steps - 1)])\n", "        x_ext = np.concatenate([values, np.zeros(steps - 1) + 1e-300])\n", "R-ROLL"),
    B("left-side-left", "    inds = np.searchsorted(x, x0, side='right') - 1\n", "    inds = np.searchsorted(x, x0, side='left') - 1\n", "R-LEFT", file=G),
    B("left-no-minus-1", "    inds = np.searchsorted(x, x0, side='right') - 1\n", "    inds = np.searchsorted(x, x0, side='right')\n", "R-LEFT", file=G),
    B("left-operands-swapped", "    inds = np.searchsorted(x, x0, side='right') - 1\n", "    inds = np.searchsorted(x0, x, side='right') - 1\n", "R-LEFT", file=G),
    B("left-scalar-returns-array", "    if is_scalar:\n        return y[inds][0]\n", "    if is_scalar:\n        return y[inds]\n", "R-LEFT", file=G),
    B("nzs-sd-breakpoint", "            elif period < 0.56:\n                c_h = 3.0 * period ** 2\n", "            elif period < 0.5:\n                c_h = 3.0 * period ** 2\n", "R-NZS-SIB", file=D),
    B("nzs-ch-coefficient", "                    ch_factor = 2.14 / tt\n", "                    ch_factor = 2.41 / tt\n", None, file=D),
    B("nzs-sd-power", "                c_h = 3.0 / period ** 0.75 * period ** 2\n", "                c_h = 3.0 / period ** 0.75 * period\n", "R-NZS-SIB", file=D),
    B("nzs-sd-n-twice", "    sd = c_h * z_factor * n_factor * r_factor\n", "    sd = c_h * z_factor * n_factor * n_factor\n", "R-NZS-SIB", file=D),
    B("nzs-teff-constant", "        d_c = 6.42 * z_factor * r_factor * n_factor / (2 * np.pi) ** 2 * gravity\n", "        d_c = 6.24 * z_factor * r_factor * n_factor / (2 * np.pi) ** 2 * gravity\n", "R-NZS-SIB", file=D),
    B("nzs-discontinuity", "                    ch_factor = 1.33 + 1.60 * (tt / 0.1)\n", "                    ch_factor = 1.33 + 1.06 * (tt / 0.1)\n", None, file=D),
    B("nzs-both-edited-jump", "                    ch_factor = 3.32 / tt\n", "                    ch_factor = 3.23 / tt\n", None, file=D),
    # twins
    T("step-builtin-abs", "(npts - pre_n) * np.abs(pre_mean) ** pow\n", "(npts - pre_n) * abs(pre_mean) ** pow\n"),
    T("levels-names", "    pre = np.mean(values[:ind])\n    post = np.mean(values[ind + 1:])\n    return pre, post\n", "    nxt = ind + 1\n    before = np.mean(values[:ind])\n    after = np.mean(values[nxt:])\n    return before, after\n"),
    T("roll-divide-each", "    return (csum[steps:] - csum[:-steps]) / steps\n", "    return csum[steps:] / steps - csum[:-steps] / steps\n"),
    T("left-index-name", "    inds = np.searchsorted(x, x0, side='right') - 1\n", "    inds = -1 + np.searchsorted(x, x0, side='right')\n", file=G),
    T("nzs-sd-simplified", "                c_h = 1.32 / period * period ** 2\n", "                c_h = 1.32 * period\n", file=D),
    T("nzs-ch-rewritten", "                    ch_factor = 1.12 + 1.88 * (tt / 0.1)\n                elif tt < 0.56:", "                    ch_factor = 1.12 + 18.8 * tt\n                elif tt < 0.56:", file=D),
]

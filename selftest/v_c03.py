def B(id, file, old, new, rule=None, **kw):
    return dict(id=id, prop="C03", kind="break", file=file, old=old, new=new, rule=rule, **kw)


def T(id, file, old, new, **kw):
    return dict(id=id, prop="C03", kind="twin", file=file, old=old, new=new, **kw)


SD = "eqsig/sdof.py"
S = "eqsig/single.py"
IM = "eqsig/im.py"
TRUE_BODY = "    sas = absmax(resp_a, axis=1)\n    svs = absmax(resp_v, axis=1)\n    sds = absmax(resp_u, axis=1)\n"
VARIANTS = [
    B("true-sv-from-u", SD, TRUE_BODY, TRUE_BODY.replace("svs = absmax(resp_v", "svs = absmax(resp_u"), "R-SRC"),
    B("true-sa-from-v", SD, TRUE_BODY, TRUE_BODY.replace("sas = absmax(resp_a", "sas = absmax(resp_v"), "R-SRC"),
    B("true-return-order", SD, "    sas = np.where(periods < dt * 6, absmax(motion), sas)\n    return sds, svs, sas\n\n\n# def plot",
      "    sas = np.where(periods < dt * 6, absmax(motion), sas)\n    return sds, sas, svs\n\n\n# def plot", "R-SRC"),
    B("pseudo-cut-5", SD, "    sas = np.where(periods < dt * 6, absmax(motion), sas)\n    return sds, svs, sas\n\n\ndef response_series",
      "    sas = np.where(periods < dt * 5, absmax(motion), sas)\n    return sds, svs, sas\n\n\ndef response_series", "R-CUT"),
    B("pseudo-cut-nonstrict", SD, "    sas = np.where(periods < dt * 6, absmax(motion), sas)\n    return sds, svs, sas\n\n\ndef response_series",
      "    sas = np.where(periods <= dt * 6, absmax(motion), sas)\n    return sds, svs, sas\n\n\ndef response_series", "R-CUT"),
    B("true-cut-differs", SD, "    sas = np.where(periods < dt * 6, absmax(motion), sas)\n    return sds, svs, sas\n\n\n# def plot",
      "    sas = np.where(periods < dt * 8, absmax(motion), sas)\n    return sds, svs, sas\n\n\n# def plot", "R-CUT"),
    B("cut-substitutes-max", SD, "    sas = np.where(periods < dt * 6, absmax(motion), sas)\n    return sds, svs, sas\n\n\ndef response_series",
      "    sas = np.where(periods < dt * 6, np.max(motion), sas)\n    return sds, svs, sas\n\n\ndef response_series", "R-CUT"),
    B("cut-into-sv", SD, "    sas = np.where(periods < dt * 6, absmax(motion), sas)\n    return sds, svs, sas\n\n\ndef response_series",
      "    svs = np.where(periods < dt * 6, absmax(motion), svs)\n    return sds, svs, sas\n\n\ndef response_series", None),
    B("pseudo-sa-w1", SD, "    sas = w ** 2 * sds\n", "    sas = w * sds\n", "R-PSEUDO"),
    B("pseudo-sv-w2", SD, "    svs = w * sds\n", "    svs = w ** 2 * sds\n", "R-PSEUDO"),
    B("pseudo-w-period", SD, "        w = 2 * np.pi / periods\n", "        w = 2 * np.pi * periods\n", "R-PSEUDO"),
    B("pseudo-w-branch-differs", SD, "        w[1:] = 2 * np.pi / periods[1:]\n", "        w[1:] = np.pi / periods[1:]\n", "R-PSEUDO"),
    B("pseudo-no-coerce", SD, "    periods = np.array(periods, dtype=float)\n    if periods[0] == 0:\n        s = 1\n        w = np.ones_like(periods)",
      "    if periods[0] == 0:\n        s = 1\n        w = np.ones_like(periods)", "R-COERCE"),
    B("pair-mixed-dt", S, "            values_interp, dt_interp = interp_array_to_approx_dt(self.values, self.dt, target_dt, even=False)\n",
      "            values_interp, dt_interp = interp_array_to_approx_dt(self.values, self.dt, target_dt, even=False)\n            dt_interp = self.dt\n", "R-PAIR"),
    B("pair-swapped-results", S, "            values_interp, dt_interp = interp_array_to_approx_dt(self.values, self.dt, target_dt, even=False)\n",
      "            dt_interp, values_interp = interp_array_to_approx_dt(self.values, self.dt, target_dt, even=False)\n", "R-PAIR"),
    B("pair-min-for-max", S, "        target_dt = max(min_non_zero_period / 20, self.dt / min_dt_ratio)", "        target_dt = min(min_non_zero_period / 20, self.dt / min_dt_ratio)", "R-PAIR"),
    B("pair-period-over-10", S, "        target_dt = max(min_non_zero_period / 20, self.dt / min_dt_ratio)", "        target_dt = max(min_non_zero_period / 10, self.dt / min_dt_ratio)", "R-PAIR"),
    B("pair-decision-reversed", S, "        if target_dt < self.dt:\n", "        if target_dt > self.dt:\n", "R-PAIR"),
    B("pair-tmin-last", S, "            min_non_zero_period = self.response_times[0]\n", "            min_non_zero_period = self.response_times[-1]\n", "R-PAIR"),
    B("store-order", S, "            self._s_d, self._s_v, self._s_a = dh.pseudo_response_spectra(", "            self._s_d, self._s_a, self._s_v = dh.pseudo_response_spectra(", "R-SRC"),
    B("getter-sv-returns-sa", S, "            self.generate_response_spectrum()\n        return self._s_v\n", "            self.generate_response_spectrum()\n        return self._s_a\n", "R-SRC"),
    B("vsi-uses-psa", IM, "    return max(0.01*cumulative_trapezoid(abs(psv)))  # in m\n\n\ndef calc_vsi_temporal", "    return max(0.01*cumulative_trapezoid(abs(psa)))  # in m\n\n\ndef calc_vsi_temporal", "R-SRC"),
    B("asi-unpack-swapped", IM, "    sds, psv, psa = sdof.pseudo_response_spectra(asig.values, asig.dt, periods, xi=xi)\n    return max(0.01*cumulative_trapezoid(abs(psa)))/9.81",
      "    sds, psa, psv = sdof.pseudo_response_spectra(asig.values, asig.dt, periods, xi=xi)\n    return max(0.01*cumulative_trapezoid(abs(psa)))/9.81", "R-SRC"),
    B("energy-uses-u", SD, "    kin_energy = 0.5 * resp_v ** 2 * mass\n", "    kin_energy = 0.5 * resp_u ** 2 * mass\n", "R-ENERGY"),
    B("input-energy-sum-axis0", SD, "        return np.sum(acc_signal.values * resp_v * acc_signal.dt, axis=1)\n", "        return np.sum(acc_signal.values * resp_v * acc_signal.dt, axis=0)\n", "R-ENERGY"),
    B("input-energy-no-dt", SD, "        return np.sum(acc_signal.values * resp_v * acc_signal.dt, axis=1)\n", "        return np.sum(acc_signal.values * resp_v, axis=1)\n", "R-ENERGY"),
    # twins
    T("cut-flipped", SD, "    sas = np.where(periods < dt * 6, absmax(motion), sas)\n    return sds, svs, sas\n\n\ndef response_series",
      "    sas = np.where(6 * dt > periods, absmax(motion), sas)\n    return sds, svs, sas\n\n\ndef response_series"),
    T("cut-ratio-form", SD, "    sas = np.where(periods < dt * 6, absmax(motion), sas)\n    return sds, svs, sas\n\n\ndef response_series",
      "    pga = absmax(motion)\n    sas = np.where(periods / dt < 6, pga, sas)\n    return sds, svs, sas\n\n\ndef response_series"),
    T("pseudo-sa-from-sv", SD, "    sas = w ** 2 * sds\n", "    sas = w * svs\n"),
    T("pseudo-w-tau", SD, "        w = 2 * np.pi / periods\n", "        w = np.pi * 2 / periods\n"),
    T("true-reordered", SD, TRUE_BODY, "    sds = absmax(resp_u, axis=1)\n    svs = absmax(resp_v, axis=1)\n    sas = absmax(resp_a, axis=1)\n"),
    T("pair-renamed", S, "            values_interp = self.values\n            dt_interp = self.dt\n", "            dt_interp = self.dt\n            values_interp = self.values\n"),
    T("true-asarray", SD, "    periods = np.array(periods, dtype=float)\n    resp_u, resp_v, resp_a = nigam", "    periods = np.asarray(periods, dtype=float)\n    resp_u, resp_v, resp_a = nigam"),
]

def B(id, old, new, rule=None, file="eqsig/stockwell.py", **kw):
    return dict(id=id, prop="C15", kind="break", file=file, old=old, new=new, rule=rule, **kw)


def T(id, old, new, file="eqsig/stockwell.py", **kw):
    return dict(id=id, prop="C15", kind="twin", file=file, old=old, new=new, **kw)


NP = "    fa = np.fft.fft(acc_db, n_factor)\n    diag_con = toeplitz(np.conj(fa[:n_d2 + 1]), fa)\n    diag_con = diag_con[1:n_d2 + 1, :]  # first line is zero frequency\n\n    stock = np.flipud(np.fft.ifft(diag_con * gaussian, axis=1))\n"
SP = "    fa = fft(acc_db, n_factor, overwrite_x=True)\n    diag_con = toeplitz(np.conj(fa[:n_d2 + 1]), fa)\n    diag_con = diag_con[1:n_d2 + 1, :]  # first line is zero frequency\n    stock = np.flipud(ifft(diag_con * gaussian, axis=1))\n"
VARIANTS = [
    B("gauss-width-halved", "    return np.exp(-p ** 2 / 2).transpose()", "    return np.exp(-p ** 2 / 4).transpose()", "R-ST-GAUSS"),
    B("gauss-pi-not-two-pi", "    p = 2 * np.pi * np.outer(f, 1. / f_half[1:])", "    p = np.pi * np.outer(f, 1. / f_half[1:])", "R-ST-GAUSS"),
    B("gauss-not-squared", "    return np.exp(-p ** 2 / 2).transpose()", "    return np.exp(-p / 2).transpose()", "R-ST-GAUSS"),
    B("gauss-frequency-step", "    f_half = np.arange(0, n_d2 + 1, 1) / (2 * n_d2)", "    f_half = np.arange(0, n_d2 + 1, 1) / n_d2", None),
    B("gauss-negative-half-interior", "    f = np.concatenate((f_half, np.flipud(-f_half[1:-1])))", "    f = np.concatenate((f_half, np.flipud(-f_half[2:-1])))", None),
    T("gauss-inline-p", "    p = 2 * np.pi * np.outer(f, 1. / f_half[1:])\n    return np.exp(-p ** 2 / 2).transpose()", "    return np.exp(-0.5 * (2 * np.pi * np.outer(f, 1. / f_half[1:])) ** 2).transpose()"),
    T("gauss-two-pi-squared", "    return np.exp(-p ** 2 / 2).transpose()", "    q = p * p\n    return np.exp(-q / 2.0).transpose()"),
    T("gauss-T-attribute", "    return np.exp(-p ** 2 / 2).transpose()", "    return np.exp(-p ** 2 / 2).T"),
    B("np-no-conj", NP, NP.replace("toeplitz(np.conj(fa[:n_d2 + 1]), fa)", "toeplitz(fa[:n_d2 + 1], fa)"), "R-ST-SIB"),
    B("sp-conj-both", SP, SP.replace("toeplitz(np.conj(fa[:n_d2 + 1]), fa)", "toeplitz(np.conj(fa[:n_d2 + 1]), np.conj(fa))"), "R-ST-SIB"),
    B("np-no-flip", NP, NP.replace("np.flipud(np.fft.ifft(diag_con * gaussian, axis=1))", "np.fft.ifft(diag_con * gaussian, axis=1)"), "R-ST-SIB"),
    B("sp-rows-from-0", SP, SP.replace("diag_con[1:n_d2 + 1, :]", "diag_con[0:n_d2, :]"), "R-ST-SIB"),
    B("np-ifft-axis-0", NP, NP.replace("axis=1", "axis=0"), "R-ST-SIB"),
    B("sp-no-window", SP, SP.replace("ifft(diag_con * gaussian, axis=1)", "ifft(diag_con, axis=1)"), "R-ST-SIB"),
    B("np-fft-full-length", NP, NP.replace("np.fft.fft(acc_db, n_factor)", "np.fft.fft(acc_db)"), "R-ST-SIB"),
    B("np-abs-record", NP, NP.replace("np.fft.fft(acc_db, n_factor)", "np.fft.fft(np.abs(acc_db), n_factor)"), None),
    B("np-power-spectrum", NP, NP.replace("diag_con * gaussian", "diag_con * np.abs(diag_con) * gaussian"), "R-ST-LIN"),
    B("itransform-axis-0", "    ss = np.sum(stock, axis=1)\n", "    ss = np.sum(stock, axis=0)\n", "R-ST-LIN"),
    B("itransform-no-conj", "    fas_ss[1:n // 2] = np.flip(np.conj(ss[1:]), axis=0)\n", "    fas_ss[1:n // 2] = np.flip(ss[1:], axis=0)\n", "R-ST-LIN"),
    B("itransform-abs", "    return np.real(acc_new[:npts])\n", "    return np.abs(acc_new[:npts])\n", "R-ST-LIN"),
    B("itransform-halves-swapped", "    fas_ss[1:n // 2] = np.flip(np.conj(ss[1:]), axis=0)\n    fas_ss[n // 2 + 1:] = ss[1:]\n", "    fas_ss[1:n // 2] = ss[1:]\n    fas_ss[n // 2 + 1:] = np.flip(np.conj(ss[1:]), axis=0)\n", "R-ST-LIN"),
    B("maxfreq-argmax-complex", "    indy_max = np.argmax(abs(asig.swtf), axis=0)\n", "    indy_max = np.argmax(asig.swtf, axis=0)\n", "R-ST-AXIS"),
    B("maxfreq-axis-1", "    indy_max = np.argmax(abs(tifq_values), axis=0)\n", "    indy_max = np.argmax(abs(tifq_values), axis=1)\n", "R-ST-AXIS"),
    B("maxfreq-no-flip", "    freqs = np.arange(1, points + 1) / (2 * points * dt)\n    freqs = np.flipud(freqs)\n", "    freqs = np.arange(1, points + 1) / (2 * points * dt)\n", "R-ST-AXIS"),
    B("maxfreq-times-dt", "    freqs = np.arange(1, points + 1) / (2 * points * dt)\n", "    freqs = np.arange(1, points + 1) * dt / (2 * points)\n", "R-ST-AXIS"),
    # twins
    T("np-names", NP, NP.replace("fa = ", "spectrum = ").replace("(fa[:", "(spectrum[:").replace(", fa)", ", spectrum)")),
    T("sp-conj-method", SP, SP.replace("np.conj(fa[:n_d2 + 1])", "fa[:n_d2 + 1].conj()")),
    T("np-window-first", NP, NP.replace("diag_con * gaussian", "gaussian * diag_con")),
    T("maxfreq-np-abs", "    indy_max = np.argmax(abs(tifq_values), axis=0)\n", "    indy_max = np.argmax(np.abs(tifq_values), axis=0)\n"),
    T("gaussian-width-shared", "    return np.exp(-p ** 2 / 2).transpose()  # * np.exp(1j * p / n_d2)\n", "    return np.exp(-p ** 2 / 2.0).transpose()\n"),
]

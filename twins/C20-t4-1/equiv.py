"""Equivalence check for twin1 (interp2d tidy-up). Run with twin1 applied, cwd = worktree."""
import os
import re
import subprocess
import sys
import tempfile
import copy
import atexit
import shutil
import warnings
import importlib

import numpy as np

HERE = os.getcwd()
sys.path.insert(0, HERE)


def load_original():
    tmp = tempfile.mkdtemp(prefix='eqsig_orig_C20_', dir='/tmp')
    atexit.register(shutil.rmtree, tmp, True)
    subprocess.check_call('git archive HEAD eqsig | tar -x -C %s' % tmp, shell=True, cwd=HERE)
    os.rename(os.path.join(tmp, 'eqsig'), os.path.join(tmp, 'eqsig_orig'))
    for root, _, files in os.walk(os.path.join(tmp, 'eqsig_orig')):
        for fn in files:
            if fn.endswith('.py'):
                p = os.path.join(root, fn)
                src = open(p).read()
                src = re.sub(r'^(\s*)from eqsig\b', r'\1from eqsig_orig', src, flags=re.M)
                src = re.sub(r'^(\s*)import eqsig\s*$', r'\1import eqsig_orig as eqsig', src, flags=re.M)
                open(p, 'w').write(src)
    sys.path.insert(1, tmp)
    mod = importlib.import_module('eqsig_orig')
    assert mod.__file__.startswith(tmp), mod.__file__
    return mod, tmp


import eqsig as new_pkg
assert new_pkg.__file__.startswith(HERE), new_pkg.__file__
old_pkg, TMP = load_original()
import eqsig.fns.generic as new_g
old_g = importlib.import_module('eqsig_orig.fns.generic')
assert new_g.__file__.startswith(HERE) and old_g.__file__.startswith(TMP)

N_CHECKS = [0]


def same(a, b, path='res'):
    assert type(a) is type(b), (path, type(a), type(b))
    if isinstance(a, np.ndarray):
        assert a.dtype == b.dtype, (path, a.dtype, b.dtype)
        assert a.shape == b.shape, (path, a.shape, b.shape)
        assert np.array_equal(a, b, equal_nan=(a.dtype.kind in 'fc')), (path, a, b)
    elif isinstance(a, (tuple, list)):
        assert len(a) == len(b), path
        for i, (p, q) in enumerate(zip(a, b)):
            same(p, q, '%s[%d]' % (path, i))
    elif isinstance(a, (float, np.generic)):
        if isinstance(a, np.generic):
            assert a.dtype == b.dtype, (path, a.dtype, b.dtype)
        assert a == b or (a != a and b != b), (path, a, b)
    else:
        assert a == b, (path, a, b)


def call(fn, args, kwargs):
    args = copy.deepcopy(args)
    kwargs = copy.deepcopy(kwargs)
    with warnings.catch_warnings(record=True) as w:
        warnings.simplefilter('always')
        try:
            out = ('ok', fn(*args, **kwargs))
        except Exception as e:  # noqa
            out = ('exc', type(e).__name__)
    return out, args, kwargs, sorted(str(x.category.__name__) for x in w)


def compare(name, fo, fn, *args, **kwargs):
    ro, ao, ko, wo = call(fo, args, kwargs)
    rn, an, kn, wn = call(fn, args, kwargs)
    assert ro[0] == rn[0], (name, ro, rn)
    same(ro[1], rn[1], name)
    same(list(ao), list(an), name + ':args-after')     # identical argument mutation (none expected)
    same(list(ao), list(copy.deepcopy(args)), name + ':args-untouched')
    assert wo == wn, (name, wo, wn)
    N_CHECKS[0] += 1
    return ro


rng = np.random.RandomState(20)


def node_sets():
    yield np.array([0, 1, 2, 3])
    yield np.array([0., 1., 2., 3.])
    yield np.array([0.5])
    yield np.array([3])
    yield np.array([0., 1.])
    yield np.array([-2., -1., 0.25, 7.5, 7.5 + 1e-12, 100.])
    yield np.array([0., 1., 1., 2.])          # repeated node (weakly monotone)
    yield np.array([5., 4., 2.5, 1., -3.])    # decreasing
    yield np.array([1, 5, 9], dtype=np.int32)
    yield np.array([1e-11, 2e-11, 3.5e-11])   # spacing below the 1e-10 guard
    yield np.array([0., 1e-10, 2e-10, 1.])
    for n in (2, 3, 5, 17, 60):
        yield np.sort(rng.uniform(-10, 10, n))
        yield np.cumsum(rng.uniform(1e-3, 2, n))
        yield np.sort(rng.randint(-20, 20, n))
        yield np.sort(rng.uniform(-10, 10, n))[::-1]


def queries(xf):
    lo, hi = float(np.min(xf)), float(np.max(xf))
    span = max(hi - lo, 1.0)
    yield np.array(xf, dtype=float)                           # on the nodes
    yield np.array(xf)                                        # on the nodes, native dtype
    yield np.array([lo - 1.0, lo - 1e-9, lo, hi, hi + 1e-9, hi + 5.0])
    yield np.array([lo - span, hi + span])
    yield rng.uniform(lo - 0.3 * span, hi + 0.3 * span, 25)
    yield rng.uniform(lo, hi, 1)
    yield np.array([], dtype=float)
    if len(xf) > 1:
        mids = 0.5 * (np.asarray(xf, dtype=float)[1:] + np.asarray(xf, dtype=float)[:-1])
        yield mids                                            # equidistant from two nodes
        yield np.nextafter(mids, np.inf)
        yield np.nextafter(mids, -np.inf)
        yield np.nextafter(np.asarray(xf, dtype=float), np.inf)
        yield np.nextafter(np.asarray(xf, dtype=float), -np.inf)
    yield np.array([int(np.floor(lo)) - 1, int(np.floor(lo)), int(np.ceil(hi)), int(np.ceil(hi)) + 2])  # int dtype
    yield np.array([lo, np.nan, hi, np.inf, -np.inf])


def tables(n):
    yield rng.normal(size=(n, 3))
    yield rng.randint(-5, 50, size=(n, 4))
    yield rng.normal(size=(n, 1))
    yield np.zeros((n, 2))
    yield rng.normal(size=(n, 2)).astype(np.float32)


for xf in node_sets():
    for f in tables(len(xf)):
        for x in queries(xf):
            compare('interp2d', old_g.interp2d, new_g.interp2d, x, xf, f)

# documented example and the examples of the test-suite
f = np.array([[0, 0, 0], [0, 1, 4], [2, 6, 2], [10, 10, 10]])
xf = np.array([0, 1, 2, 3])
compare('doc', old_g.interp2d, new_g.interp2d, np.array([0.5, 1, 2.2, 2.5]), xf, f)
compare('edge', old_g.interp2d, new_g.interp2d, np.array([0., 3.]), xf, f)
# same failures on unsupported containers / sizes
compare('list-x', old_g.interp2d, new_g.interp2d, [0.5, 1.0], xf, f)
compare('list-xf', old_g.interp2d, new_g.interp2d, np.array([0.5, 1.0]), [0, 1, 2, 3], f)
compare('list-f', old_g.interp2d, new_g.interp2d, np.array([0.5, 1.0]), xf, f.tolist())
compare('empty-xf', old_g.interp2d, new_g.interp2d, np.array([0.5, 1.0]), np.array([]), np.zeros((0, 2)))
compare('short-f', old_g.interp2d, new_g.interp2d, np.array([0.5, 2.9]), xf, f[:2])
compare('f-1d', old_g.interp2d, new_g.interp2d, np.array([0.5, 2.9]), xf, np.array([1., 2., 4., 8.]))
compare('scalar-x', old_g.interp2d, new_g.interp2d, 0.5, xf, f)

# the untouched neighbours in the same module still agree
for x0 in (1.5, [0.0, 0.2, 3.0, 17.0], np.array([2, 3, 4]), 0):
    compare('interp_left', old_g.interp_left, new_g.interp_left, x0, [0, 1, 2, 3, 9], [5, 6, 7, 8, 11])
    compare('interp_left', old_g.interp_left, new_g.interp_left, x0, np.array([0., 1.5, 2.5]))
compare('remove_poly', old_g.remove_poly, new_g.remove_poly, rng.normal(size=30), 2)

print('equiv1: %d comparisons identical' % N_CHECKS[0])

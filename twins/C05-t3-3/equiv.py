"""Equivalence check for twin3 (Cluster.time_match: the two trial-lag loops become one
generator of (lag, residual) pairs reduced with min(..., key=itemgetter(1)); the padded
series is assembled with itertools.chain/repeat).

Run with twin3 applied, cwd = the worktree.  The original package is extracted
from git HEAD into a temporary directory; the same deterministic scenario list is
executed in two subprocesses (original / edited) and the pickled observations are
compared bit-for-bit.  Exit status 0 iff everything matches.
"""
import os
import pickle
import subprocess
import sys
import tempfile

HERE = os.path.dirname(os.path.abspath(__file__))
WORKTREE = os.path.dirname(HERE)


# ----------------------------------------------------------------------------
# worker side
# ----------------------------------------------------------------------------
def _freeze(obj):
    """Turns an observation into a picklable, exactly comparable structure"""
    import numpy as np
    if isinstance(obj, np.ndarray):
        return ('nd', str(obj.dtype), obj.shape, obj.tobytes())
    if isinstance(obj, np.generic):
        return ('npscalar', str(obj.dtype), obj.tobytes())
    if isinstance(obj, dict):
        return ('dict', tuple(sorted((str(k), _freeze(v)) for k, v in obj.items())))
    if isinstance(obj, (list, tuple)):
        return (type(obj).__name__, tuple(_freeze(v) for v in obj))
    if isinstance(obj, float):
        return ('float', repr(obj))
    if isinstance(obj, (int, bool, str, type(None))):
        return (type(obj).__name__, obj)
    return ('repr', type(obj).__name__)


def _state(sig):
    """Complete observable state of a signal object"""
    out = {'__class__': type(sig).__name__}
    for k, v in sig.__dict__.items():
        out[k] = v
    out['@values'] = sig.values
    out['@npts'] = sig.npts
    out['@time'] = sig.time
    out['@dt'] = sig.dt
    out['@len_eq'] = len(sig.values) == sig.npts
    return _freeze(out)


def worker(pkg_root, out_path):
    sys.path.insert(0, pkg_root)
    import io
    import contextlib
    import numpy as np
    import eqsig
    assert os.path.abspath(eqsig.__file__).startswith(os.path.abspath(pkg_root)), eqsig.__file__
    from eqsig.multiple import Cluster

    obs = []

    def call(label, fn):
        buf = io.StringIO()
        try:
            with contextlib.redirect_stdout(buf):
                res = fn()
            obs.append((label, 'ok', _freeze(res), type(res).__name__, buf.getvalue()))
        except BaseException as e:  # noqa
            obs.append((label, 'exc', type(e).__name__, str(e), buf.getvalue()))

    def cluster_state(cl):
        out = []
        for nm, sig in cl.signals.items():
            out.append((nm, _state(sig), type(sig.values).__name__))
        return (tuple(out), cl.master, cl.master_index, _freeze(cl.time))

    def shifted(base, lag):
        """a copy of base that lags (lag > 0) or leads (lag < 0) it, padded with the end values"""
        n = len(base)
        if lag > 0:
            return np.concatenate((np.full(lag, base[0]), base[:n - lag]))
        if lag < 0:
            return np.concatenate((base[-lag:], np.full(-lag, base[-1])))
        return base.copy()

    rng = np.random.RandomState(4242)
    motion = np.loadtxt(os.path.join(WORKTREE, 'tests', 'unit_test_data', 'test_motion_dt0p01.txt'), skiprows=2)

    scenarios = []  # (name, list of records, dt, cluster kwargs)
    base = motion[500:1500]
    for lag in (-12, -9, -5, -1, 0, 1, 2, 6, 9, 10, 15):
        scenarios.append(('motion_lag%i' % lag, [base.copy(), shifted(base, lag)], 0.01, {}))
        scenarios.append(('motion_lag%i_m1' % lag, [base.copy(), shifted(base, lag)], 0.01, {'master_index': 1}))
    for k in range(25):
        n = int(rng.randint(15, 200))
        b = np.cumsum(rng.randn(n))
        lag = int(rng.randint(-9, 10))
        noise = rng.randn(n) * 0.05 * (k % 3)
        scenarios.append(('walk%i' % k, [b, shifted(b, lag) + noise], 0.02, {'stypes': 'acc' if k % 2 else 'custom'}))
    # different lengths for the first two signals
    scenarios.append(('difflen_a', [base[:300].copy(), shifted(base, 4)[:260]], 0.01, {}))
    scenarios.append(('difflen_b', [base[:200].copy(), shifted(base, -3)[:333]], 0.01, {'master_index': 1}))
    # three and four signals, every master
    for m in range(3):
        scenarios.append(('three_m%i' % m, [base[:400].copy(), shifted(base[:400], 3), shifted(base[:400], -6)], 0.01,
                          {'master_index': m}))
    scenarios.append(('four', [base[:150].copy(), shifted(base[:150], 1), base[:150].copy(), shifted(base[:150], -2)],
                      0.01, {'master_index': 2, 'stypes': 'acc'}))
    scenarios.append(('three_short_third', [base[:100].copy(), shifted(base[:100], 2), base[:60].copy()], 0.01, {}))
    scenarios.append(('three_long_third', [base[:100].copy(), shifted(base[:100], 2), shifted(base[:180], -4)], 0.01, {}))
    # ties: identical, constant, periodic records
    scenarios.append(('identical', [base[:120].copy(), base[:120].copy()], 0.01, {}))
    scenarios.append(('constant', [np.ones(50), np.ones(50)], 0.01, {}))
    scenarios.append(('const_offset', [np.ones(50), 2 * np.ones(50)], 0.01, {}))
    scenarios.append(('zeros', [np.zeros(40), np.zeros(40)], 0.01, {}))
    per = np.tile(np.array([0., 1., 0., -1.]), 20)
    scenarios.append(('periodic', [per.copy(), shifted(per, 2)], 0.01, {}))
    scenarios.append(('periodic_b', [per.copy(), np.roll(per, 1)], 0.01, {}))
    scenarios.append(('periodic_int', [per.astype(int), np.roll(per, -1).astype(int)], 0.01, {}))
    # integer dtype and lists
    ib = rng.randint(-20, 20, size=80)
    for lag in (-4, 0, 3):
        scenarios.append(('int_lag%i' % lag, [ib.copy(), shifted(ib, lag)], 0.05, {}))
        scenarios.append(('list_lag%i' % lag, [list(base[:90]), list(shifted(base[:90], lag))], 0.05, {}))
        scenarios.append(('listint_lag%i' % lag, [[int(x) for x in ib], [int(x) for x in shifted(ib, lag)]], 0.05, {}))
    scenarios.append(('mixed_dtype', [ib.copy(), shifted(ib, 2).astype(float) + 0.25], 0.05, {}))
    scenarios.append(('f32', [base[:70].astype(np.float32), shifted(base[:70], 2).astype(np.float32)], 0.01, {}))
    scenarios.append(('twod_values', np.vstack([base[:64], shifted(base[:64], -2)]), 0.01, {}))
    # short records (shorter than / equal to the number of steps)
    for n in (1, 2, 3, 9, 10, 11, 12):
        b = rng.randn(n)
        scenarios.append(('short%i' % n, [b, shifted(b, 1) if n > 1 else b.copy()], 0.01, {}))
    scenarios.append(('empty', [np.array([]), np.array([])], 0.01, {}))
    # nan / inf
    bn = base[:60].copy()
    bn[10] = np.nan
    scenarios.append(('nan_master', [bn, shifted(base[:60], 2)], 0.01, {}))
    bn2 = shifted(base[:60], 2)
    bn2[55] = np.nan
    scenarios.append(('nan_tail_slave', [base[:60].copy(), bn2], 0.01, {}))
    # one signal only
    scenarios.append(('single', [base[:30].copy()], 0.01, {}))

    kw_sets = [{}, {'verbose': 1}, {'steps': 0}, {'steps': 1}, {'steps': 3}, {'steps': 25},
               {'steps': 5, 'verbose': 2}, {'verbose': 0, 'trim': False}, {'set_step': 3}, {'set_step': True},
               {'steps': 10 ** 4}]

    for name, recs, dt, ckw in scenarios:
        for ki, kw in enumerate(kw_sets):
            label = '%s/kw%i' % (name, ki)
            srcs = [r.copy() if isinstance(r, np.ndarray) else list(r) for r in recs] \
                if isinstance(recs, list) else recs.copy()
            before = _freeze(srcs)
            try:
                cl = Cluster(srcs, dt, **ckw)
            except BaseException as e:  # noqa
                obs.append((label, 'ctor-exc', type(e).__name__, str(e)))
                continue
            held = [sig.values for sig in cl.signals.values()]
            call(label + '/ret', lambda: cl.time_match(**kw))
            obs.append((label + '/state', cluster_state(cl)))
            obs.append((label + '/held', tuple(h is sig.values for h, sig in zip(held, cl.signals.values())),
                        _freeze(held)))
            obs.append((label + '/src_unchanged', before == _freeze(srcs)))
            obs.append((label + '/not_aliased', tuple(
                bool(isinstance(srcs[i], np.ndarray) and np.shares_memory(srcs[i], sig.values))
                for i, sig in enumerate(cl.signals.values()))))
            # history: match again, same_start, match with other steps
            if ki in (0, 1, 4):
                call(label + '/again', lambda: cl.time_match(**kw))
                obs.append((label + '/again/state', cluster_state(cl)))
                call(label + '/same_start', lambda: cl.same_start())
                call(label + '/steps4', lambda: cl.time_match(steps=4))
                obs.append((label + '/hist/state', cluster_state(cl)))
                for sig in cl.signals.values():
                    if hasattr(sig, 'pga'):
                        call(label + '/pga', lambda: (sig.pga, sig.velocity[-1]))
                obs.append((label + '/src_unchanged2', before == _freeze(srcs)))

    with open(out_path, 'wb') as f:
        pickle.dump(obs, f)


# ----------------------------------------------------------------------------
# driver side
# ----------------------------------------------------------------------------
def main():
    tmp = tempfile.mkdtemp(prefix='c05_equiv3_', dir='/tmp')
    subprocess.check_call('git archive HEAD eqsig | tar -x -C %s' % tmp, shell=True, cwd=WORKTREE)
    # make sure the edit under test is really applied
    diff = subprocess.check_output(['git', 'diff', '--stat', '--', 'eqsig'], cwd=WORKTREE).decode()
    assert 'multiple.py' in diff, 'twin3 is not applied'
    outs = []
    for tag, root in (('orig', tmp), ('edit', WORKTREE)):
        out = os.path.join(tmp, tag + '.pkl')
        env = dict(os.environ, PYTHONWARNINGS='ignore', PYTHONDONTWRITEBYTECODE='1')
        subprocess.check_call([sys.executable, os.path.abspath(__file__), '--worker', root, out],
                              cwd=WORKTREE, env=env)
        with open(out, 'rb') as f:
            outs.append(pickle.load(f))
    a, b = outs
    assert len(a) == len(b), (len(a), len(b))
    bad = 0
    n_exc = 0
    for x, y in zip(a, b):
        if len(x) > 1 and x[1] in ('exc', 'ctor-exc'):
            n_exc += 1
        if x != y:
            bad += 1
            if bad <= 10:
                print('MISMATCH', x[0], str(x[1:])[:300], '!=', str(y[1:])[:300])
    print('observations: %i, of which exceptions (identical on both sides): %i, mismatches: %i' % (len(a), n_exc, bad))
    import shutil
    shutil.rmtree(tmp, ignore_errors=True)
    sys.exit(1 if bad else 0)


if __name__ == '__main__':
    if len(sys.argv) > 1 and sys.argv[1] == '--worker':
        import warnings
        warnings.simplefilter('ignore')
        worker(sys.argv[2], sys.argv[3])
    else:
        main()

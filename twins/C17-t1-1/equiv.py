"""Equivalence check for twin1 (butter_pass restructuring in eqsig/single.py).

Run with twin1 applied, cwd = the worktree.  Exit 0 iff original == edited everywhere.
"""
import os
import sys
import subprocess
import types
import warnings
import itertools

HERE = os.getcwd()
sys.path.insert(0, HERE)

import numpy as np
import eqsig
import eqsig.single as new_single

assert eqsig.__file__.startswith(HERE), eqsig.__file__


def load_original(relpath, modname):
    src = subprocess.check_output(['git', 'show', 'HEAD:' + relpath], cwd=HERE).decode()
    mod = types.ModuleType(modname)
    mod.__package__ = modname.rpartition('.')[0]
    mod.__file__ = '<git HEAD:%s>' % relpath
    exec(compile(src, mod.__file__, 'exec'), mod.__dict__)
    return mod


old_single = load_original('eqsig/single.py', 'eqsig._orig_single')
cur_src = open(os.path.join(HERE, 'eqsig/single.py')).read()
head_src = subprocess.check_output(['git', 'show', 'HEAD:eqsig/single.py'], cwd=HERE).decode()
assert cur_src != head_src, "twin1 is not applied"

n_checks = 0


def same(a, b, path=''):
    """Strict structural / bit-for-bit comparison."""
    if isinstance(a, np.ndarray) or isinstance(b, np.ndarray):
        assert isinstance(a, np.ndarray) and isinstance(b, np.ndarray), (path, type(a), type(b))
        assert a.dtype == b.dtype, (path, a.dtype, b.dtype)
        assert a.shape == b.shape, (path, a.shape, b.shape)
        if a.dtype == object:
            assert all(x is y or x == y for x, y in zip(a.ravel(), b.ravel())), path
        else:
            assert np.array_equal(a, b, equal_nan=a.dtype.kind in 'fc'), (path, a, b)
            if a.dtype.kind == 'f':
                assert np.array_equal(np.signbit(a), np.signbit(b)), (path, 'sign of zero')
        return
    assert type(a) is type(b), (path, type(a), type(b))
    if isinstance(a, dict):
        assert list(a.keys()) == list(b.keys()), (path, a.keys(), b.keys())
        for k in a:
            same(a[k], b[k], path + '.' + str(k))
    elif isinstance(a, (list, tuple)):
        assert len(a) == len(b), path
        for i, (x, y) in enumerate(zip(a, b)):
            same(x, y, path + '[%d]' % i)
    elif isinstance(a, float):
        assert a == b or (a != a and b != b), (path, a, b)
    else:
        assert a == b, (path, a, b)


def state(sig):
    return dict(vars(sig))


def run(cls_name, values, dt, calls, ctor_kwargs=None):
    """Build the same object with both implementations, run the same calls, compare everything."""
    global n_checks
    ctor_kwargs = ctor_kwargs or {}
    outs = []
    for mod in (old_single, new_single):
        vals_in = values.copy() if isinstance(values, np.ndarray) else list(values)
        log = []
        with warnings.catch_warnings():
            warnings.simplefilter('ignore')
            try:
                sig = getattr(mod, cls_name)(vals_in, dt, **ctor_kwargs)
            except Exception as e:  # constructor failure must match as well
                outs.append((('ctor-exc', type(e).__name__, str(e)), None, vals_in))
                continue
            held = sig.values  # a reference held by a caller
            for name, args, kwargs in calls:
                args = tuple(a.copy() if isinstance(a, np.ndarray) else a for a in args)
                try:
                    ret = getattr(sig, name)(*args, **kwargs)
                    log.append(('ok', ret, args, sig.values.copy(), sig.values is held, held.copy()))
                except Exception as e:
                    log.append(('exc', type(e).__name__, str(e), args, sig.values.copy(), sig.values is held,
                                held.copy()))
        outs.append((log, state(sig), vals_in))
    (log_o, st_o, in_o), (log_n, st_n, in_n) = outs
    same(log_o, log_n, 'log')
    same(st_o, st_n, 'state')
    same(in_o, in_n, 'ctor-arg')
    n_checks += 1
    return log_o


rng = np.random.RandomState(1717)

# ---------------------------------------------------------------- valid option grid
cut_band = [(0.1, 15), [0.5, 8.0], np.array([1.0, 5.0]), (2, 10), np.array([1, 4]), [0.25, np.float32(3.5)]]
cut_low = [(None, 15), [None, 4.0], (None, 3), np.array([None, 7.5], dtype=object)]
cut_high = [(0.1, None), [2.0, None], (1, None), np.array([0.7, None], dtype=object)]
gibbs = [None, 'start', 'end', 'mid', 'both', '']
dts = [0.01, 0.005, 0.02, 0.0125, 1.0 / 3 / 10, np.float64(0.01), np.float32(0.01), 0.1]

n_ok = 0
for trial in range(700):
    n = int(rng.choice([40, 64, 100, 127, 128, 129, 257, 600, 1000, 1024, 2049]))
    kind = trial % 6
    if kind == 0:
        values = rng.randn(n)
    elif kind == 1:
        values = (rng.randn(n) * 100).astype(int)
    elif kind == 2:
        values = list(rng.randn(n))
    elif kind == 3:
        values = rng.randn(n).astype(np.float32)
    elif kind == 4:
        t = np.arange(n) * 0.01
        values = np.sin(2 * np.pi * rng.uniform(0.05, 30) * t) + 0.3
    else:
        values = np.zeros(n)
    dt = dts[rng.randint(len(dts))]
    pool = (cut_band, cut_low, cut_high)[rng.randint(3)]
    cut_off = pool[rng.randint(len(pool))]
    kwargs = {}
    if rng.rand() < 0.8:
        kwargs['filter_order'] = int(rng.randint(1, 5))
    if rng.rand() < 0.8:
        kwargs['remove_gibbs'] = gibbs[rng.randint(len(gibbs))]
    if rng.rand() < 0.4:
        kwargs['gibbs_extra'] = int(rng.randint(0, 3))
    if rng.rand() < 0.4:
        kwargs['gibbs_range'] = int(rng.choice([1, 5, 50, 10 ** 6]))
    cls_name = 'AccSignal' if trial % 3 == 0 else 'Signal'
    calls = [('butter_pass', (cut_off,), kwargs)]
    if trial % 5 == 0:  # multi-step history with cache activity in between
        calls = [('gen_fa_spectrum', (), {}),
                 ('butter_pass', (cut_off,), kwargs),
                 ('butter_pass', ((None, 20.0) if dt < 0.02 else (None, 2.0),), {'filter_order': 2}),
                 ('butter_pass', (), {})]
    log = run(cls_name, values, dt, calls)
    n_ok += sum(1 for entry in log if entry[0] == 'ok')

assert n_ok > 500, n_ok  # the grid above is overwhelmingly the valid domain

# ---------------------------------------------------------------- exhaustive small grid
base = rng.randn(300)
for cut_off, order, rg, cls_name in itertools.product(
        [(0.5, 10.0), [0.5, 10.0], np.array([0.5, 10.0]), (None, 10.0), [0.5, None]],
        [1, 2, 3, 4], [None, 'start', 'end', 'mid'], ['Signal', 'AccSignal']):
    log = run(cls_name, base, 0.01, [('butter_pass', (cut_off,), {'filter_order': order, 'remove_gibbs': rg})])
    assert log[0][0] == 'ok'
# default arguments, keyword spelling
run('Signal', base, 0.01, [('butter_pass', (), {})])
run('Signal', base, 0.01, [('butter_pass', (), {'cut_off': [1.0, 2.0], 'remove_gibbs': 'mid', 'gibbs_extra': 0})])

# ---------------------------------------------------------------- edge cases / error paths
short = [[], [1.0], [1.0, 2.0], list(range(5)), list(range(9)), list(range(15)), list(range(16)), list(range(28)),
         np.arange(33.)]
bad_cuts = ['ab', 5.0, None, (1.0,), (1.0, 2.0, 3.0), {0: 1, 1: 2}, (None, None), [None, None], (), (5.0, 1.0),
            (0.0, 10.0), (1.0, 50.0), (1.0, 60.0), (-1.0, None), (None, 0.0), np.array([[1.0, 2.0], [3.0, 4.0]]),
            np.array([1.0, 2.0, 3.0]), ('a', 'b'), (None, 'b'), range(2), np.array(3.0),
            (np.nan, 5.0), (None, np.inf)]
for values in short:
    for rg in [None, 'start', 'end', 'mid']:
        for cut_off in [(0.1, 15), (None, 15), (0.1, None)]:
            for order in (1, 4):
                run('Signal', values, 0.01,
                    [('butter_pass', (cut_off,), {'filter_order': order, 'remove_gibbs': rg})])
for cut_off in bad_cuts:
    for rg in [None, 'mid']:
        run('Signal', base, 0.01, [('butter_pass', (cut_off,), {'remove_gibbs': rg})])
        run('AccSignal', base[:50], 0.01, [('butter_pass', (cut_off,), {'remove_gibbs': rg})])
# odd option values
for kwargs in [{'gibbs_extra': -1, 'remove_gibbs': 'mid'}, {'gibbs_extra': -2, 'remove_gibbs': 'end'},
               {'gibbs_extra': -1, 'remove_gibbs': 'start'}, {'gibbs_extra': 1.5, 'remove_gibbs': 'mid'},
               {'gibbs_range': 0, 'remove_gibbs': 'start'}, {'gibbs_range': -3, 'remove_gibbs': 'end'},
               {'filter_order': 0}, {'filter_order': 2.5}, {'filter_order': -1}, {'remove_gibbs': 0},
               {'remove_gibbs': False}, {'remove_gibbs': 1}, {'unknown': 3}]:
    run('Signal', base, 0.01, [('butter_pass', ((0.5, 10.0),), kwargs)])
    run('Signal', base[:256], 0.01, [('butter_pass', ([None, 10.0],), kwargs)])
# odd time steps: exactness of the Nyquist expression
for dt in [1, 2, 0.3, 1e-3, 1e-300, 5e-324, 1e300, np.float32(0.02), np.float16(0.01), 0.0, -0.01, np.inf, np.nan,
           'x', None] + list(rng.uniform(1e-4, 0.5, 200)) + list(10 ** rng.uniform(-12, 3, 100)):
    with np.errstate(all='ignore'):
        run('Signal', base, dt, [('butter_pass', ((0.5, 10.0),), {}),
                                 ('butter_pass', ((None, 0.1),), {'remove_gibbs': 'end'})])
        if isinstance(dt, float) and dt > 0 and np.isfinite(dt):
            f = 0.2 / dt  # always inside (0, nyq)
            run('Signal', base, dt, [('butter_pass', ((0.1 * f, f),), {'filter_order': 2, 'remove_gibbs': 'mid'})])
# complex / 2-D / non-finite records
run('Signal', base + 1j * base[::-1], 0.01, [('butter_pass', ((0.5, 10.0),), {'remove_gibbs': 'mid'})])
run('Signal', base + 1j * base[::-1], 0.01, [('butter_pass', ((0.5, 10.0),), {})])
run('Signal', rng.randn(4, 100), 0.01, [('butter_pass', ((0.5, 10.0),), {})])
run('Signal', rng.randn(4, 100), 0.01, [('butter_pass', ((0.5, 10.0),), {'remove_gibbs': 'start'})])
nanrec = base.copy()
nanrec[17] = np.nan
run('Signal', nanrec, 0.01, [('butter_pass', ((0.5, 10.0),), {'remove_gibbs': 'end'})])

# ---------------------------------------------------------------- the other methods are untouched: spot check
run('Signal', base, 0.01, [('remove_poly', (2,), {}), ('add_constant', (1.5,), {}), ('running_average', (5,), {}),
                           ('butter_pass', ([0.3, 12.0],), {'remove_gibbs': 'start'})])

print('equiv1: %d object histories compared, all identical' % n_checks)

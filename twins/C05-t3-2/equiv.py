"""Equivalence check for twin2 (determine_peaks_only_delta_series and
determine_pseudo_cyclic_peak_only_series restructured into stages that pass a
namedtuple of intermediate arrays).

Run with twin2 applied, cwd = the worktree.  The original package is extracted
from git HEAD into a temporary directory; the same deterministic scenario list is
executed in two subprocesses (original / edited) and the pickled observations are
compared bit-for-bit.  Exit status 0 iff everything matches.
"""
import os
import pickle
import subprocess
import sys
import tempfile

HERE = os.path.dirname(os.path.abspath(__file__))
WORKTREE = os.path.dirname(HERE)


# ----------------------------------------------------------------------------
# worker side
# ----------------------------------------------------------------------------
def _freeze(obj):
    """Turns an observation into a picklable, exactly comparable structure"""
    import numpy as np
    if isinstance(obj, np.ndarray):
        return ('nd', str(obj.dtype), obj.shape, obj.tobytes())
    if isinstance(obj, np.generic):
        return ('npscalar', str(obj.dtype), obj.tobytes())
    if isinstance(obj, dict):
        return ('dict', tuple(sorted((str(k), _freeze(v)) for k, v in obj.items())))
    if isinstance(obj, (list, tuple)):
        return (type(obj).__name__, tuple(_freeze(v) for v in obj))
    if isinstance(obj, float):
        return ('float', repr(obj))
    if isinstance(obj, (int, bool, str, type(None))):
        return (type(obj).__name__, obj)
    return ('repr', type(obj).__name__)


def _state(sig):
    """Complete observable state of a signal object"""
    out = {'__class__': type(sig).__name__}
    for k, v in sig.__dict__.items():
        out[k] = v
    out['@values'] = sig.values
    out['@npts'] = sig.npts
    out['@time'] = sig.time
    out['@dt'] = sig.dt
    out['@len_eq'] = len(sig.values) == sig.npts
    return _freeze(out)


def worker(pkg_root, out_path):
    sys.path.insert(0, pkg_root)
    import numpy as np
    import eqsig
    assert os.path.abspath(eqsig.__file__).startswith(os.path.abspath(pkg_root)), eqsig.__file__
    from eqsig.fns import peaks_and_crossings as pc
    from eqsig import AccSignal, Signal

    obs = []

    def call(label, fn):
        try:
            res = fn()
            obs.append((label, 'ok', _freeze(res)))
            return res
        except BaseException as e:  # noqa
            obs.append((label, 'exc', type(e).__name__, str(e)))
            return None

    rng = np.random.RandomState(77)
    motion = np.loadtxt(os.path.join(WORKTREE, 'tests', 'unit_test_data', 'test_motion_dt0p01.txt'), skiprows=2)

    inputs = []
    # documented examples and test-suite style inputs
    inputs.append(('doc1', np.array([0, 2, 1, 2, 0, 1, 0, -1, 0, 1, 0])))
    inputs.append(('doc2', np.array([0, 2, 1, 2, 0.3, 1, 0.3, -1, 0.4, 1, 0])))
    inputs.append(('double_peak_offset', np.array([0, 2, 1, 2, 0, 1, 1, 0, -1, 0, 1, 0]) + 4))
    inputs.append(('triangle', np.array([0, 1, 2, 1, 0, -1, -2, -1, 0, 1, 0], dtype=float)))
    inputs.append(('sine', np.sin(np.linspace(0, 30, 700))))
    inputs.append(('motion', motion))
    inputs.append(('motion_short', motion[200:260]))
    # short arrays
    for n in (0, 1, 2, 3, 4, 5):
        inputs.append(('arange%i' % n, np.arange(n, dtype=float)))
        inputs.append(('desc%i' % n, -np.arange(n, dtype=float)))
        inputs.append(('const%i' % n, np.ones(n) * 2.5))
        inputs.append(('zeros%i' % n, np.zeros(n)))
        inputs.append(('izeros%i' % n, np.zeros(n, dtype=int)))
        inputs.append(('rand%i' % n, rng.randn(n)))
    # random floats with and without repeated values, first move up or down or flat
    for k in range(120):
        n = int(rng.randint(2, 200))
        v = rng.randn(n)
        if k % 3 == 1:
            v = np.round(v * 2) / 2  # many repeats
        if k % 5 == 2:
            v[:3] = v[0]  # flat start
        if k % 7 == 3:
            v[-4:] = v[-1]  # flat end
        if k % 11 == 4:
            v = np.repeat(v, 3)
        inputs.append(('randf%i' % k, v))
    # integer dtypes
    for k in range(40):
        n = int(rng.randint(2, 80))
        inputs.append(('randi%i' % k, rng.randint(-4, 5, size=n)))
    inputs.append(('i32', rng.randint(-9, 9, size=30).astype(np.int32)))
    inputs.append(('i8', rng.randint(-9, 9, size=30).astype(np.int8)))
    inputs.append(('u8', rng.randint(0, 9, size=30).astype(np.uint8)))
    inputs.append(('f32', rng.randn(30).astype(np.float32)))
    inputs.append(('f16', rng.randn(30).astype(np.float16)))
    inputs.append(('bool', rng.randn(30) > 0))
    inputs.append(('cplx', rng.randn(12) + 1j * rng.randn(12)))
    inputs.append(('nan', np.array([0.0, 1.0, np.nan, 2.0, 1.0, 3.0])))
    inputs.append(('inf', np.array([0.0, 1.0, np.inf, 2.0, 1.0, 3.0])))
    inputs.append(('nan_first', np.array([np.nan, 1.0, 0.5, 2.0, 1.0, 3.0])))
    inputs.append(('twod', rng.randn(4, 5)))
    inputs.append(('noncontig', rng.randn(60)[::3]))
    inputs.append(('reversed_view', rng.randn(40)[::-1]))
    ro = rng.randn(25)
    ro.setflags(write=False)
    inputs.append(('readonly', ro))
    # lists / tuples
    inputs.append(('list_f', list(rng.randn(30))))
    inputs.append(('list_i', [3, 1, 4, 1, 5, 9, 2, 6, 5, 3, 5]))
    inputs.append(('list_mixed', [0, 1.5, 1, 2, -1, -1, 0.5]))
    inputs.append(('tuple_i', (0, -1, -1, 2, 0, 0, 3)))
    inputs.append(('list_const', [2, 2, 2]))
    inputs.append(('list_empty', []))
    inputs.append(('list_pyfloat', [float(x) for x in rng.randn(17)]))

    fns = ['determine_peaks_only_delta_series', 'determine_pseudo_cyclic_peak_only_series']

    for name, vals in inputs:
        for fname in fns:
            fn = getattr(pc, fname)
            label = '%s/%s' % (name, fname)
            before = _freeze(vals)
            r1 = call(label + '/1', lambda: fn(vals))
            obs.append((label + '/arg_unchanged', before == _freeze(vals)))
            obs.append((label + '/arg_after', _freeze(vals), type(vals).__name__))
            r2 = call(label + '/2', lambda: fn(vals))
            if isinstance(r1, np.ndarray) and isinstance(vals, np.ndarray):
                obs.append((label + '/aliased', bool(np.shares_memory(r1, vals))))
            if isinstance(r1, np.ndarray) and isinstance(r2, np.ndarray):
                obs.append((label + '/fresh_each_call', bool(np.shares_memory(r1, r2))))
                obs.append((label + '/flags', bool(r1.flags.writeable), bool(r1.flags.owndata),
                            bool(r1.flags.c_contiguous)))

    # signal objects: values handed straight to the functions, object state untouched
    for k, (cls, src) in enumerate([(AccSignal, motion[:1500]), (Signal, rng.randn(300)),
                                    (AccSignal, rng.randint(-9, 9, size=100)), (Signal, list(rng.randn(50)))]):
        sig = cls(src, 0.01)
        for fname in fns:
            fn = getattr(pc, fname)
            label = 'sig%i/%s' % (k, fname)
            s0 = _state(sig)
            call(label, lambda: fn(sig.values))
            obs.append((label + '/state_same', s0 == _state(sig)))
            obs.append((label + '/state', _state(sig)))

    # the untouched neighbours in the module still agree (they share clean_out_non_changing)
    for name, vals in inputs[:60]:
        for fname in ('get_peak_array_indices', 'get_switched_peak_array_indices',
                      'get_zero_crossings_array_indices'):
            call('%s/%s' % (name, fname), lambda: getattr(pc, fname)(vals))
        call('%s/clean' % name, lambda: pc.clean_out_non_changing(vals))

    # module namespace: same public names as before
    obs.append(('public_names', tuple(sorted(n for n in dir(pc) if not n.startswith('_')
                                            and n != 'namedtuple'))))

    with open(out_path, 'wb') as f:
        pickle.dump(obs, f)


# ----------------------------------------------------------------------------
# driver side
# ----------------------------------------------------------------------------
def main():
    tmp = tempfile.mkdtemp(prefix='c05_equiv2_', dir='/tmp')
    subprocess.check_call('git archive HEAD eqsig | tar -x -C %s' % tmp, shell=True, cwd=WORKTREE)
    # make sure the edit under test is really applied
    diff = subprocess.check_output(['git', 'diff', '--stat', '--', 'eqsig'], cwd=WORKTREE).decode()
    assert 'peaks_and_crossings.py' in diff, 'twin2 is not applied'
    outs = []
    for tag, root in (('orig', tmp), ('edit', WORKTREE)):
        out = os.path.join(tmp, tag + '.pkl')
        env = dict(os.environ, PYTHONWARNINGS='ignore', PYTHONDONTWRITEBYTECODE='1')
        subprocess.check_call([sys.executable, os.path.abspath(__file__), '--worker', root, out],
                              cwd=WORKTREE, env=env)
        with open(out, 'rb') as f:
            outs.append(pickle.load(f))
    a, b = outs
    assert len(a) == len(b), (len(a), len(b))
    bad = 0
    n_exc = 0
    for x, y in zip(a, b):
        if len(x) > 1 and x[1] in ('exc', 'ctor-exc'):
            n_exc += 1
        if x != y:
            bad += 1
            if bad <= 10:
                print('MISMATCH', x[0], str(x[1:])[:300], '!=', str(y[1:])[:300])
    print('observations: %i, of which exceptions (identical on both sides): %i, mismatches: %i' % (len(a), n_exc, bad))
    import shutil
    shutil.rmtree(tmp, ignore_errors=True)
    sys.exit(1 if bad else 0)


if __name__ == '__main__':
    if len(sys.argv) > 1 and sys.argv[1] == '--worker':
        import warnings
        warnings.simplefilter('ignore')
        worker(sys.argv[2], sys.argv[3])
    else:
        main()

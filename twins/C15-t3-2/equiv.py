"""Equivalence check for twin2 (Toeplitz matrix replaced by a generator of lagged spectra + np.stack).

Run with the twin applied, cwd = the worktree.  The ORIGINAL package is extracted from git
(`git archive HEAD eqsig`) into a temporary directory; the same deterministic battery of calls is
evaluated in two subprocesses (original / edited package first on sys.path) and the pickled
outcomes (full bytes digests incl. dtype, shape, memory-order flags; argument mutation; object
state) are compared for exact equality.  Exit code 0 iff everything matches.
"""
import hashlib
import os
import pickle
import subprocess
import sys
import tempfile

WORKTREE = os.path.dirname(os.path.dirname(os.path.abspath(__file__)))


def sig(a):
    """bit-exact signature of a result"""
    import numpy as np
    if isinstance(a, np.ndarray):
        return ("nd", str(a.dtype), a.shape, bool(a.flags.c_contiguous), bool(a.flags.f_contiguous),
                hashlib.sha256(np.ascontiguousarray(a).tobytes()).hexdigest())
    if isinstance(a, (list, tuple)):
        return (type(a).__name__,) + tuple(sig(x) for x in a)
    return (type(a).__name__, repr(a))


def call(fn, *args):
    """outcome of a call, exceptions included"""
    import warnings
    with warnings.catch_warnings(record=True) as w:
        warnings.simplefilter("always")
        try:
            res = ("ok", sig(fn(*args)))
        except Exception as e:  # noqa
            res = ("exc", type(e).__name__, str(e))
    return res + (tuple(sorted(set(x.category.__name__ for x in w))),)


def records():
    """deterministic battery of input records (name, values)"""
    import numpy as np
    rng = np.random.RandomState(1515)
    out = []
    lengths = list(range(2, 71)) + [95, 96, 127, 128, 129, 200, 255, 256, 257, 333, 500, 511, 512, 777, 1000,
                                    1023, 1024]
    for n in lengths:
        out.append(("randn%i" % n, rng.randn(n)))
    for n in [4, 5, 6, 7, 8, 9, 16, 31, 64, 100, 257]:
        x = rng.randn(n)
        out.append(("list%i" % n, list(x)))
        out.append(("tuple%i" % n, tuple(x)))
        out.append(("int%i" % n, rng.randint(-50, 50, n)))
        out.append(("int32_%i" % n, rng.randint(-50, 50, n).astype(np.int32)))
        out.append(("f32_%i" % n, rng.randn(n).astype(np.float32)))
        out.append(("zeros%i" % n, np.zeros(n)))
        out.append(("ones%i" % n, np.ones(n)))
        out.append(("const%i" % n, np.full(n, -3.25)))
        out.append(("strided%i" % n, rng.randn(2 * n)[::2]))
        out.append(("rev%i" % n, rng.randn(n)[::-1]))
        out.append(("big%i" % n, 1e12 * rng.randn(n)))
        out.append(("tiny%i" % n, 1e-12 * rng.randn(n)))
        imp = np.zeros(n)
        imp[n // 3] = 1.0
        out.append(("impulse%i" % n, imp))
    for n in [8, 16, 32, 64, 100, 128, 256]:
        t = np.arange(n)
        for k in range(1, n // 2 + 1, max(1, n // 16)):
            out.append(("sin%i_%i" % (n, k), np.sin(2 * np.pi * k * t / n)))
            out.append(("cos%i_%i" % (n, k), 0.3 + 2.5 * np.cos(2 * np.pi * k * t / n + 0.4)))
    return out


class Rec(object):
    """minimal signal-like object (values, dt)"""

    def __init__(self, values, dt):
        self.values = values
        self.dt = dt


def state(obj):
    return tuple((k, sig(v)) for k, v in sorted(vars(obj).items()) if k in ("values", "dt", "swtf"))


def worker(pkg_root, out_path):
    sys.path.insert(0, pkg_root)
    import numpy as np
    import eqsig
    from eqsig import stockwell as st
    assert os.path.abspath(eqsig.__file__).startswith(os.path.abspath(pkg_root) + os.sep), eqsig.__file__
    assert os.path.abspath(st.__file__).startswith(os.path.abspath(pkg_root) + os.sep), st.__file__
    res = {}

    # the window itself
    for n_d2 in list(range(1, 140)) + [200, 255, 256, 257, 400, 500, 511, 512]:
        res["gauss", n_d2] = call(st.generate_gaussian, n_d2)
        res["gauss_npint", n_d2] = call(st.generate_gaussian, np.int64(n_d2))

    dts = [0.01, 0.005, 1.0, 0.02, 1. / 3, 2.5, 1e-4]
    for i, (name, x) in enumerate(records()):
        before = pickle.dumps(x)
        is_nd = isinstance(x, np.ndarray)
        keep = x.copy() if is_nd else None
        res[name, "transform"] = call(st.transform, x)
        res[name, "transform_scipy"] = call(st.transform_w_scipy_fft, x)
        res[name, "transform_interp"] = call(st.transform, x, True)
        res[name, "arg_unchanged"] = (pickle.dumps(x) == before) and (not is_nd or np.array_equal(keep, x))
        try:
            stock = st.transform(x)
        except Exception:  # noqa
            continue
        res[name, "itransform"] = call(st.itransform, stock)
        res[name, "dep_itransform"] = call(st.dep_itransform, stock)
        dt = dts[i % len(dts)]
        res[name, "max_tifq"] = call(st.get_max_tifq_vals_freq, abs(stock), dt)
        res[name, "max_tifq_cplx"] = call(st.get_max_tifq_vals_freq, stock, dt)
        # object with lazily cached transform: multi-step history
        obj = Rec(x, dt)
        hist = [state(obj)]
        hist.append(call(st.get_max_stockwell_freq, obj))
        hist.append(state(obj))
        hist.append(call(st.get_max_stockwell_freq, obj))
        hist.append(state(obj))
        obj.dt = 2 * dt
        hist.append(call(st.get_max_stockwell_freq, obj))
        hist.append(state(obj))
        res[name, "obj_history"] = tuple(hist)
        if i % 9 == 0 and len(x) >= 4:
            asig = eqsig.AccSignal(np.array(x, dtype=float), dt)
            h2 = [hasattr(asig, "swtf"), call(st.get_max_stockwell_freq, asig), sig(asig.swtf), sig(asig.values),
                  call(st.get_stockwell_freqs, asig), call(st.get_stockwell_times, asig)]
            asig.swtf = st.transform_w_scipy_fft(asig.values)  # pre-cached by the caller
            h2 += [call(st.get_max_stockwell_freq, asig), sig(asig.swtf)]
            res[name, "accsig_history"] = tuple(h2)

    with open(out_path, "wb") as f:
        pickle.dump(res, f)


def direct_check():
    """the new generator against scipy's Toeplitz matrix on arbitrary (non-Hermitian) complex spectra"""
    sys.path.insert(0, WORKTREE)
    import numpy as np
    from scipy.linalg import toeplitz
    from eqsig import stockwell as st
    assert os.path.abspath(st.__file__).startswith(WORKTREE + os.sep), st.__file__
    rng = np.random.RandomState(2)
    n_bad = 0
    for n_d2 in list(range(1, 80)) + [128, 255, 256, 500, 512]:
        for dtype in (np.complex128, np.complex64):
            fa = (rng.randn(2 * n_d2) + 1j * rng.randn(2 * n_d2)).astype(dtype)
            keep = fa.copy()
            ref = toeplitz(np.conj(fa[:n_d2 + 1]), fa)[1:n_d2 + 1, :]
            new = np.stack(list(st._iter_lagged_spectra(fa, n_d2)))
            ok = (ref.dtype == new.dtype and ref.shape == new.shape and ref.tobytes() == new.tobytes()
                  and new.flags.c_contiguous == ref.flags.c_contiguous and np.array_equal(fa, keep)
                  and new.flags.writeable and not np.shares_memory(new, fa))
            n_bad += not ok
    print("direct generator-vs-toeplitz check: %i failures" % n_bad)
    return n_bad


def main():
    tmp = tempfile.mkdtemp(prefix="c15_equiv_", dir="/tmp")
    subprocess.check_call("git archive HEAD eqsig | tar -x -C '%s'" % tmp, shell=True, cwd=WORKTREE)
    # the edited tree must really differ from the original one
    differs = subprocess.call(["diff", "-rq", "-x", "__pycache__", os.path.join(tmp, "eqsig"),
                               os.path.join(WORKTREE, "eqsig")], stdout=subprocess.DEVNULL)
    if differs == 0:
        print("WARNING: worktree identical to HEAD - is the twin applied?")
    outs = []
    for label, root in (("orig", tmp), ("edit", WORKTREE)):
        outp = os.path.join(tmp, label + ".pkl")
        env = dict(os.environ, PYTHONDONTWRITEBYTECODE="1")
        env.pop("PYTHONPATH", None)
        subprocess.check_call([sys.executable, os.path.abspath(__file__), "--worker", root, outp], cwd=root, env=env)
        with open(outp, "rb") as f:
            outs.append(pickle.load(f))
    orig, edit = outs
    bad = 0
    if set(orig) != set(edit):
        print("different sets of cases", set(orig) ^ set(edit))
        bad += 1
    n_ok_calls = 0
    for k in sorted(orig, key=repr):
        if orig[k] != edit.get(k):
            bad += 1
            if bad < 20:
                print("MISMATCH", k, "\n   orig:", orig[k], "\n   edit:", edit.get(k))
        if isinstance(orig[k], tuple) and orig[k] and orig[k][0] == "ok":
            n_ok_calls += 1
    n_unch = sum(1 for k in orig if k[1] == "arg_unchanged" and orig[k] is True)
    print("%i cases compared (%i direct successful calls, %i argument-unchanged checks), %i mismatches"
          % (len(orig), n_ok_calls, n_unch, bad))
    import shutil
    shutil.rmtree(tmp, ignore_errors=True)
    bad += direct_check()
    sys.exit(1 if bad else 0)


if __name__ == "__main__":
    if len(sys.argv) > 1 and sys.argv[1] == "--worker":
        worker(sys.argv[2], sys.argv[3])
    else:
        main()

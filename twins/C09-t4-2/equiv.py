"""
Equivalence check for twin2 (run with twin2 applied, cwd = the worktree).

Loads the ORIGINAL eqsig package from git (HEAD) into a temporary directory under /tmp and the
EDITED package from the worktree, both in this process (as two independent sets of module objects),
and compares the cumulative intensity measure functions of eqsig.im on many inputs:
returned values (bit-for-bit, dtype, shape, type), exceptions, argument mutation and object state.

Exit code 0 iff everything matches.
"""
import importlib
import inspect
import os
import shutil
import subprocess
import sys
import tempfile
import warnings

import numpy as np

TWIN = 2
# functions whose source is expected to differ between the original and the edited package
EDITED_FUNCTIONS = ["calc_cav_dp"]

WORKTREE = os.path.dirname(os.path.dirname(os.path.abspath(__file__)))
os.chdir(WORKTREE)
warnings.simplefilter("ignore")


# ----------------------------------------------------------------------------------------------
# loading of the two packages
# ----------------------------------------------------------------------------------------------
def _purge():
    for key in list(sys.modules):
        if key == "eqsig" or key.startswith("eqsig."):
            del sys.modules[key]


def load_pkg(path):
    _purge()
    sys.path.insert(0, path)
    try:
        importlib.invalidate_caches()
        pkg = importlib.import_module("eqsig")
        importlib.import_module("eqsig.im")
        importlib.import_module("eqsig.single")
    finally:
        sys.path.remove(path)
    assert os.path.abspath(pkg.__file__).startswith(os.path.abspath(path) + os.sep), (pkg.__file__, path)
    assert os.path.abspath(pkg.im.__file__).startswith(os.path.abspath(path) + os.sep), (pkg.im.__file__, path)
    _purge()
    return pkg


TMP = tempfile.mkdtemp(prefix="eqsig_orig_C09_t%d_" % TWIN, dir="/tmp")
try:
    subprocess.check_call("git archive HEAD eqsig | tar -x -C '%s'" % TMP, shell=True, cwd=WORKTREE)
    OLD = load_pkg(TMP)
    NEW = load_pkg(WORKTREE)
finally:
    pass
assert OLD is not NEW and OLD.im is not NEW.im

for fname in EDITED_FUNCTIONS:
    src_old = inspect.getsource(getattr(OLD.im, fname))
    src_new = inspect.getsource(getattr(NEW.im, fname))
    assert src_old != src_new, "twin%d does not seem to be applied (%s unchanged)" % (TWIN, fname)

# ----------------------------------------------------------------------------------------------
# comparison helpers
# ----------------------------------------------------------------------------------------------
N_CHECKS = [0]
FAILURES = []


def same(a, b):
    """Strict equality: type, dtype, shape and bit pattern (NaNs equal, -0.0 != 0.0)"""
    if isinstance(a, np.ndarray) or isinstance(b, np.ndarray):
        if type(a) is not type(b):
            return False
        if a.dtype != b.dtype or a.shape != b.shape:
            return False
        if a.dtype == object:
            return all(same(x, y) for x, y in zip(a.ravel(), b.ravel()))
        if not np.array_equal(a, b, equal_nan=(a.dtype.kind in "fc")):
            return False
        return np.ascontiguousarray(a).tobytes() == np.ascontiguousarray(b).tobytes()
    if isinstance(a, (tuple, list)) or isinstance(b, (tuple, list)):
        if type(a) is not type(b) or len(a) != len(b):
            return False
        return all(same(x, y) for x, y in zip(a, b))
    if isinstance(a, dict) or isinstance(b, dict):
        if type(a) is not type(b) or set(a) != set(b):
            return False
        return all(same(a[k], b[k]) for k in a)
    if isinstance(a, (np.generic, float, int, complex)) and isinstance(b, (np.generic, float, int, complex)):
        if type(a) is not type(b):
            return False
        return same(np.asarray(a), np.asarray(b))
    if type(a) is not type(b):
        # classes of the two packages are distinct objects, compare by name
        return type(a).__name__ == type(b).__name__ and same(getattr(a, "__dict__", None), getattr(b, "__dict__", None))
    try:
        return bool(a == b)
    except Exception:
        return False


def state(sig):
    return {k: (v.copy() if isinstance(v, np.ndarray) else v) for k, v in sig.__dict__.items()}


def call(fn, *args, **kwargs):
    try:
        return ("ok", fn(*args, **kwargs))
    except Exception as e:  # compare exception class name and message
        return ("exc", type(e).__name__, str(e))


def check(label, a, b):
    N_CHECKS[0] += 1
    if not same(a, b):
        FAILURES.append(label)
        if len(FAILURES) <= 20:
            print("MISMATCH:", label)
            print("   old:", repr(a)[:300])
            print("   new:", repr(b)[:300])


SIGNAL_FUNCS = ["calc_arias_intensity", "calc_cav", "calc_cav_dp", "calc_isv", "calc_integral_of_abs_velocity",
                "calc_integral_of_abs_acceleration", "calc_unit_kinetic_energy", "calc_cumulative_abs_displacement"]


def apply_history(sig, history):
    """Multi-step histories on the signal object before the measure is evaluated"""
    for step in history:
        if step == "vel":
            sig.velocity
        elif step == "disp":
            sig.displacement
        elif step == "rect":
            sig.generate_displacement_and_velocity_series(trap=False)
        elif step == "trap":
            sig.generate_displacement_and_velocity_series(trap=True)
        elif step == "reset":
            sig.reset_values(np.asarray(sig.values)[::-1] * 0.5)
        elif step == "reset_list":
            sig.reset_values(list(np.asarray(sig.values) * -2))
        elif step == "add_const":
            sig.add_constant(0.01)
        elif step == "remove_poly":
            sig.remove_poly(poly_fit=1)
        elif step == "clear":
            sig.clear_cache()
        elif step == "fa":
            sig.fa_spectrum
        else:
            raise ValueError(step)


def compare_signal_funcs(label, values, dt, funcs=SIGNAL_FUNCS, history=(), repeat=1):
    """Builds the same AccSignal in both packages and compares every function in funcs"""
    for fname in funcs:
        def mk(pkg):
            v = values.copy() if isinstance(values, np.ndarray) else list(values)
            return v, pkg.AccSignal(v, dt)
        v_old, s_old = mk(OLD)
        v_new, s_new = mk(NEW)
        h_old = call(apply_history, s_old, history)
        h_new = call(apply_history, s_new, history)
        check("%s/%s/history" % (label, fname), h_old, h_new)
        for r in range(repeat):
            r_old = call(getattr(OLD.im, fname), s_old)
            r_new = call(getattr(NEW.im, fname), s_new)
            check("%s/%s/result[%d]" % (label, fname, r), r_old, r_new)
            check("%s/%s/state[%d]" % (label, fname, r), state(s_old), state(s_new))
            if r_old[0] == "ok" and r_new[0] == "ok" and isinstance(r_new[1], np.ndarray):
                # the result must not alias object state differently: mutate results and re-compare the state
                al_old = np.shares_memory(r_old[1], s_old._velocity) or np.shares_memory(r_old[1], s_old._values)
                al_new = np.shares_memory(r_new[1], s_new._velocity) or np.shares_memory(r_new[1], s_new._values)
                check("%s/%s/alias[%d]" % (label, fname, r), al_old, al_new)
                check("%s/%s/writeable[%d]" % (label, fname, r), r_old[1].flags.writeable, r_new[1].flags.writeable)
        # arguments handed to the constructor are not touched
        check("%s/%s/args" % (label, fname), v_old, v_new)
        if isinstance(values, np.ndarray):
            check("%s/%s/args_vs_input" % (label, fname), v_new, values)


# ----------------------------------------------------------------------------------------------
# inputs
# ----------------------------------------------------------------------------------------------
rng = np.random.RandomState(20260926 + TWIN)


def synth(n, dt, amp, rng):
    """A band limited noise burst with an envelope, peak about amp [m/s2]"""
    t = np.arange(n) * dt
    x = rng.randn(n)
    if n > 4:
        k = max(1, min(n // 4, int(0.05 / dt) + 1))
        x = np.convolve(x, np.ones(k) / k, mode="same")
    env = np.exp(-0.5 * ((t - 0.4 * t[-1] if n > 1 else t) / (0.25 * (t[-1] if n > 1 and t[-1] > 0 else 1.0))) ** 2)
    x = x * env
    m = np.max(np.abs(x))
    if m > 0:
        x = x / m * amp
    return x


# dt values with an integer number of samples per second (incl. ones where 1/dt is not exact in floating point)
DTS_INT = [0.01, 0.005, 0.02, 0.1, 0.25, 0.5, 1.0, 0.0125, 0.2, 0.05, 0.04, 1. / 3, 1. / 7, 1. / 49, 1. / 93,
           1. / 98, 1. / 103, 1. / 107, 1. / 161, 1. / 187, 1. / 196, 1. / 197, 0.002, 0.001, 1. / 30, 1. / 60, 1. / 128]
DTS_OTHER = [0.03, 0.007, 0.3, 0.15, 0.011, 2.0, 1.5, 0.6]
G = 9.81

# 1. random records, all functions, records >= 2 s
for i, dt in enumerate(DTS_INT):
    pps = int(round(1 / dt))
    for n_sec in (2, 3, 7.5, 12):
        for extra in (0, 1, 2, -1):
            n = int(n_sec * pps) + 1 + extra
            if n < 2:
                continue
            if n > 6000:
                continue
            for amp in (0.1, 0.5, 3.0):
                acc = synth(n, dt, amp, rng)
                compare_signal_funcs("rand dt=%r n=%d amp=%r" % (dt, n, amp), acc, dt)

# 2. scaling, sign reversal and zero padding variants of a base record (the relations in the property)
for dt in (0.01, 0.02, 0.1, 1. / 3, 0.005):
    pps = int(round(1 / dt))
    n = 6 * pps + 1
    base = synth(n, dt, 1.0, rng)
    base[-1] = 0.0
    for alpha in (1.0, -1.0, 2.0, -0.5, 0.02, 0.2452 / 1.0, 1e-8, 1e8, 3):
        rec = alpha * base
        compare_signal_funcs("scaled dt=%r alpha=%r" % (dt, alpha), rec, dt)
    for pad in (0, 1, 2, pps - 1, pps, pps + 1, 3 * pps + 5):
        rec = np.concatenate([base, np.zeros(pad)])
        compare_signal_funcs("padded dt=%r pad=%d" % (dt, pad), rec, dt)

# 3. threshold cases for the standardised CAV gate (0.025 g): windows just below, at and above
for dt in (0.01, 0.1, 0.5, 1.0, 0.25):
    pps = int(round(1 / dt))
    n = 5 * pps + 1
    for level in (0.025 * G, np.nextafter(0.025 * G, 0), np.nextafter(0.025 * G, 1), 0.025, 0.0249999 * G,
                  0.0250001 * G, 0.24525, 0.2452, 0.2453):
        acc = np.zeros(n)
        acc[pps // 2] = level  # first window only
        acc[2 * pps] = -level  # on the border between window 1 and window 2
        acc[4 * pps + pps // 3] = 0.9 * level
        compare_signal_funcs("gate dt=%r level=%r" % (dt, level), acc, dt)
        acc2 = np.full(n, level)
        compare_signal_funcs("gate-const dt=%r level=%r" % (dt, level), acc2, dt)
        compare_signal_funcs("gate-const-neg dt=%r level=%r" % (dt, level), -acc2, dt)

# 4. edge cases: short arrays, lists vs arrays, integer dtype, float32, zeros, constant, single spike
for dt in (0.01, 0.1, 0.5, 1.0, 2.0, 1. / 3):
    for n in (1, 2, 3, 4, 5, 9, 21, 22, 201):
        acc = synth(n, dt, 2.0, rng)
        compare_signal_funcs("short dt=%r n=%d" % (dt, n), acc, dt)
        compare_signal_funcs("short-list dt=%r n=%d" % (dt, n), [float(x) for x in acc], dt)
        compare_signal_funcs("short-zeros dt=%r n=%d" % (dt, n), np.zeros(n), dt)
        compare_signal_funcs("short-int dt=%r n=%d" % (dt, n), rng.randint(-5, 6, size=n), dt)
        compare_signal_funcs("short-intlist dt=%r n=%d" % (dt, n), [int(x) for x in rng.randint(-5, 6, size=n)], dt)
        compare_signal_funcs("short-f32 dt=%r n=%d" % (dt, n), acc.astype(np.float32), dt)
        compare_signal_funcs("short-ones dt=%r n=%d" % (dt, n), np.ones(n), dt)
        compare_signal_funcs("short-negzero dt=%r n=%d" % (dt, n), -np.zeros(n), dt)
    spike = np.zeros(301)
    spike[150] = -4.0
    compare_signal_funcs("spike dt=%r" % dt, spike, dt)
for dt in (0.01, 0.5):
    compare_signal_funcs("empty dt=%r" % dt, np.zeros(0), dt)
    compare_signal_funcs("empty-list dt=%r" % dt, [], dt)
    compare_signal_funcs("int-dtype dt=%r" % dt, (100 * synth(801, 0.01, 1.0, rng)).astype(np.int64), dt)
    compare_signal_funcs("int32-dtype dt=%r" % dt, (100 * synth(801, 0.01, 1.0, rng)).astype(np.int32), dt)
    compare_signal_funcs("bool-dtype dt=%r" % dt, synth(801, 0.01, 1.0, rng) > 0.1, dt)
    compare_signal_funcs("non-contiguous dt=%r" % dt, synth(1602, 0.01, 1.0, rng)[::2], dt)
    compare_signal_funcs("reversed-view dt=%r" % dt, synth(801, 0.01, 1.0, rng)[::-1], dt)
# numpy scalar / integer time steps
compare_signal_funcs("dt np.float64", synth(801, 0.01, 1.0, rng), np.float64(0.01))
compare_signal_funcs("dt np.float32", synth(801, 0.01, 1.0, rng), np.float32(0.25))
compare_signal_funcs("dt int 1", synth(40, 1.0, 1.0, rng), 1)
compare_signal_funcs("dt int 2", synth(40, 1.0, 1.0, rng), 2)

# 5. dt values without an integer number of samples per second (outside the CAVdp domain, still compared, incl. errors)
for dt in DTS_OTHER:
    for n in (50, 333, 1000):
        acc = synth(n, dt, 1.5, rng)
        compare_signal_funcs("other dt=%r n=%d" % (dt, n), acc, dt)

# 6. non-finite content (outside of the property's domain, behaviour should nevertheless be the same)
for pos in (0, 57, 150, 300):
    for bad in (np.nan, np.inf, -np.inf):
        acc = synth(301, 0.01, 1.0, rng)
        acc[pos] = bad
        compare_signal_funcs("nonfinite pos=%d bad=%r" % (pos, bad), acc, 0.01)

# 7. multi-step histories on the objects, repeated evaluation
HISTORIES = [("vel",), ("disp", "vel"), ("rect",), ("rect", "vel"), ("vel", "rect"), ("trap", "rect", "trap"),
             ("vel", "reset"), ("rect", "reset"), ("reset_list",), ("vel", "add_const"), ("rect", "add_const", "vel"),
             ("remove_poly",), ("vel", "clear"), ("fa", "vel", "reset", "disp"), ("rect", "clear", "rect")]
for dt in (0.01, 0.1, 1. / 3):
    pps = int(round(1 / dt))
    for history in HISTORIES:
        acc = synth(4 * pps + 3, dt, 1.2, rng)
        compare_signal_funcs("history dt=%r %s" % (dt, "+".join(history)), acc, dt, history=history, repeat=3)

# interleaved calls of all functions on ONE object per package (shared caches)
for dt in (0.01, 0.25):
    pps = int(round(1 / dt))
    acc = synth(5 * pps + 1, dt, 0.8, rng)
    s_old = OLD.AccSignal(acc.copy(), dt)
    s_new = NEW.AccSignal(acc.copy(), dt)
    order = list(SIGNAL_FUNCS) * 2
    rng.shuffle(order)
    for step, fname in enumerate(order):
        if step == len(order) // 2:
            s_old.reset_values(acc[::-1] * 3)
            s_new.reset_values(acc[::-1] * 3)
        check("interleaved dt=%r step=%d %s" % (dt, step, fname),
              call(getattr(OLD.im, fname), s_old), call(getattr(NEW.im, fname), s_new))
        check("interleaved-state dt=%r step=%d %s" % (dt, step, fname), state(s_old), state(s_new))

# 8. other entry points that reach the anchored functions
for dt in (0.01, 0.05):
    for n in (300, 1001):
        acc = synth(n, dt, 2.5, rng)
        a_old, a_new = acc.copy(), acc.copy()
        check("raw arias 1d", call(OLD.im._raw_calc_arias_intensity, a_old, dt),
              call(NEW.im._raw_calc_arias_intensity, a_new, dt))
        check("raw arias 1d args", a_old, a_new)
        acc2d = np.vstack([synth(n, dt, 1.0, rng) for _ in range(3)])
        check("raw arias 2d", call(OLD.im._raw_calc_arias_intensity, acc2d.copy(), dt),
              call(NEW.im._raw_calc_arias_intensity, acc2d.copy(), dt))
        s_old, s_new = OLD.AccSignal(acc.copy(), dt), NEW.AccSignal(acc.copy(), dt)
        periods = [0.2, 0.5, 1.0]
        check("cumulative_response_spectra", call(OLD.im.cumulative_response_spectra, s_old, "arias_intensity", periods),
              call(NEW.im.cumulative_response_spectra, s_new, "arias_intensity", periods))
        check("cumulative_response_spectra bad name", call(OLD.im.cumulative_response_spectra, s_old, "cav", periods),
              call(NEW.im.cumulative_response_spectra, s_new, "cav", periods))
        for se in (False, True):
            check("calc_sig_dur se=%r" % se, call(OLD.im.calc_sig_dur, s_old, se=se), call(NEW.im.calc_sig_dur, s_new, se=se))
            for imname in ("calc_cav", "calc_isv", "calc_unit_kinetic_energy", "calc_integral_of_abs_velocity"):
                check("calc_sig_dur im=%s se=%r" % (imname, se),
                      call(OLD.im.calc_sig_dur, s_old, im=getattr(OLD.im, imname), se=se),
                      call(NEW.im.calc_sig_dur, s_new, im=getattr(NEW.im, imname), se=se))
        check("generate_cumulative_stats", call(s_old.generate_cumulative_stats), call(s_new.generate_cumulative_stats))
        check("generate_cumulative_stats state", state(s_old), state(s_new))

# 9. twin2 specific: standardised CAV for every integer number of samples per second from 1 to 260 (the rounding of
#    1/dt, of the np.arange end point and of the window limits differs from one dt to the next), amplitudes around
#    the 0.025 g gate so that some windows qualify and others do not
CAV_FUNCS = ["calc_cav_dp"]
for pps in range(1, 261):
    dt = 1.0 / pps
    for n_sec, extra_pts in ((2, 0), (3, 1), (5, -1), (4.5, 0)):
        n = int(n_sec * pps) + 1 + extra_pts
        if n < 2:
            continue
        amp = (0.05, 0.3, 0.6, 5.0)[(pps + int(n_sec)) % 4]
        acc = synth(n, dt, amp, rng) + 0.02 * rng.randn(n)
        compare_signal_funcs("cavdp pps=%d n=%d amp=%r" % (pps, n, amp), acc, dt, funcs=CAV_FUNCS)
for dt in (0.01, 0.005, 0.02, 0.025, 0.004, 0.008, 0.0025, 1. / 256, 1. / 512):
    for trial in range(6):
        n = int(rng.randint(2, 30) / dt) + rng.randint(0, 5) + 1
        n = min(n, 8000)
        amp = 10 ** rng.uniform(-1.5, 0.8)
        acc = synth(n, dt, amp, rng)
        compare_signal_funcs("cavdp-rand dt=%r n=%d amp=%r" % (dt, n, amp), acc, dt, funcs=CAV_FUNCS)
        compare_signal_funcs("cavdp-rand-list dt=%r n=%d amp=%r" % (dt, n, amp), list(acc), dt, funcs=CAV_FUNCS)
        compare_signal_funcs("cavdp-rand-f32 dt=%r n=%d amp=%r" % (dt, n, amp), acc.astype(np.float32), dt,
                             funcs=CAV_FUNCS)
        compare_signal_funcs("cavdp-rand-int dt=%r n=%d amp=%r" % (dt, n, amp), np.round(acc * 3).astype(int), dt,
                             funcs=CAV_FUNCS)
# a NaN as the first sample of a window triggers the ValueError of the gate, elsewhere it propagates
for pos in (0, 1, 99, 100, 101, 200, 250, 300):
    acc = synth(401, 0.01, 1.0, rng)
    acc[pos] = np.nan
    compare_signal_funcs("cavdp-nan pos=%d" % pos, acc, 0.01, funcs=CAV_FUNCS)
    acc = 0.001 * synth(401, 0.01, 1.0, rng)
    acc[pos] = np.nan
    compare_signal_funcs("cavdp-nan-small pos=%d" % pos, acc, 0.01, funcs=CAV_FUNCS)
# weird time steps: errors must be the same
for dt in (0.0, -0.01, np.float64(0.0), np.inf, np.nan, 3.0, 1e-5 + 1.0):
    compare_signal_funcs("cavdp-weird-dt %r" % dt, synth(301, 0.01, 1.0, rng), dt, funcs=CAV_FUNCS)

# public surface of the module is unchanged
names_old = sorted(k for k, v in vars(OLD.im).items() if not k.startswith("_") and inspect.isfunction(v))
names_new = sorted(k for k, v in vars(NEW.im).items() if not k.startswith("_") and inspect.isfunction(v))
check("public names", names_old, names_new)
for k in names_old:
    if k in names_new:
        check("signature %s" % k, str(inspect.signature(getattr(OLD.im, k))), str(inspect.signature(getattr(NEW.im, k))))
check("raw arias signature", str(inspect.signature(OLD.im._raw_calc_arias_intensity)),
      str(inspect.signature(NEW.im._raw_calc_arias_intensity)))

shutil.rmtree(TMP, ignore_errors=True)
print("twin%d: %d checks, %d mismatches" % (TWIN, N_CHECKS[0], len(FAILURES)))
sys.exit(1 if FAILURES else 0)

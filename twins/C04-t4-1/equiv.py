"""
Equivalence check for a refactoring of eqsig/single.py (property C04: derived quantities never go stale).

Run with the edit applied and cwd = the worktree:

    /venv/bin/python out/equivK.py

The ORIGINAL package is extracted from git (`git archive HEAD eqsig`) into a temporary directory.  The same
deterministic list of scenarios (histories of public operations on Signal / AccSignal objects, with a full snapshot
of the object state, the returned values, the identity of the values array and the mutation of the arguments after
every step) is executed in two subprocesses - one importing the original package, one importing the edited package -
and the two traces are compared bit-for-bit (dtype, shape, bytes).

Exit status 0 iff everything matches.
"""
import hashlib
import os
import pickle
import subprocess
import sys
import tempfile
import shutil

FOCUS = "twin1"   # only used to label the output / choose extra focussed scenarios


# ----------------------------------------------------------------------------------------------------------------------
# worker side
# ----------------------------------------------------------------------------------------------------------------------

def freeze(v, depth=0):
    """Turns a value into a picklable, exactly comparable structure"""
    import numpy as np
    if depth > 6:
        return ('deep', repr(type(v)))
    if v is None or isinstance(v, (bool, str)):
        return ('py', type(v).__name__, v)
    if isinstance(v, np.ndarray):
        if v.dtype == object:
            return ('nd-obj', v.shape, tuple(freeze(x, depth + 1) for x in v.ravel().tolist()))
        raw = np.ascontiguousarray(v).tobytes()
        if len(raw) > 64:  # keep the trace small: large buffers are compared through their digest
            raw = 'sha1:' + hashlib.sha1(raw).hexdigest()
        return ('nd', v.dtype.str, v.shape, raw)
    if isinstance(v, np.generic):
        return ('npscalar', type(v).__name__, v.dtype.str, v.tobytes())
    if isinstance(v, int):
        return ('py', 'int', v)
    if isinstance(v, float):
        return ('py', 'float', v.hex())
    if isinstance(v, complex):
        return ('py', 'complex', v.real.hex(), v.imag.hex())
    if isinstance(v, tuple):
        return ('tuple', tuple(freeze(x, depth + 1) for x in v))
    if isinstance(v, list):
        return ('list', tuple(freeze(x, depth + 1) for x in v))
    if isinstance(v, dict):
        return ('dict', tuple((repr(k), freeze(x, depth + 1)) for k, x in sorted(v.items(), key=lambda kv: repr(kv[0]))))
    if isinstance(v, range):
        return ('range', v.start, v.stop, v.step)
    if hasattr(v, '__dict__') and type(v).__name__ in ('Signal', 'AccSignal'):
        return ('sig', type(v).__name__, snap(v, depth + 1))
    return ('other', type(v).__name__)


def snap(obj, depth=0):
    """Complete state of a signal object: every instance attribute (incl. private caches and flags)"""
    return tuple((k, freeze(v, depth + 1)) for k, v in sorted(obj.__dict__.items()))


SIGNAL_READS = ['npts', 'dt', 'time', 'values', 'fa_spectrum', 'fa_spectrum_abs', 'fa_freqs', 'fa_frequencies',
                'smooth_fa_spectrum', 'smooth_fa_freqs', 'smooth_fa_frequencies', 'smooth_freq_range',
                'smooth_freq_points']
ACC_READS = ['velocity', 'displacement', 'pga', 'pgv', 'pgd', 's_a', 's_v', 's_d', 'response_times']


def run_worker(pkg_root, out_file):
    sys.path.insert(0, pkg_root)
    import warnings
    warnings.simplefilter('ignore')
    import numpy as np
    import eqsig
    assert os.path.realpath(eqsig.__file__).startswith(os.path.realpath(pkg_root)), (eqsig.__file__, pkg_root)
    from eqsig.single import Signal, AccSignal

    trace = []

    # -- helpers -------------------------------------------------------------------------------------------------
    def do(obj, label, fn, args=()):
        """Performs one step and records everything observable about it"""
        vals_before = obj.__dict__.get('_values')
        args_before = freeze(list(args))
        try:
            ret = ('ret', freeze(fn()))
        except Exception as e:  # noqa
            ret = ('exc', type(e).__name__, str(e))
        vals_after = obj.__dict__.get('_values')
        trace.append((label, ret, vals_before is vals_after, args_before == freeze(list(args)), freeze(list(args)),
                      snap(obj)))

    def read(obj, name):
        do(obj, 'read:' + name, lambda: getattr(obj, name))

    def read_all(obj, twice=False):
        names = SIGNAL_READS + (ACC_READS if isinstance(obj, AccSignal) else [])
        for name in names:
            read(obj, name)
        if twice:
            for name in reversed(names):
                read(obj, name)

    def fresh_check(obj):
        """Records what a freshly built object with the same values / settings reports"""
        if isinstance(obj, AccSignal):
            f = AccSignal(np.array(obj.values), obj.dt, smooth_fa_freqs=np.array(obj.smooth_fa_freqs),
                          response_times=np.array(obj.response_times))
        else:
            f = Signal(np.array(obj.values), obj.dt, smooth_fa_freqs=np.array(obj.smooth_fa_freqs))
        read_all(f)

    # -- catalogue of operations ---------------------------------------------------------------------------------
    # every entry: (label, builder(rs, obj) -> (callable, args))   where the rs draws are identical in both workers
    def op_reset_values_arr(rs, o):
        new = rs.randn(o.npts if rs.rand() < 0.7 else max(4, o.npts + rs.randint(-3, 4)))
        return (lambda: o.reset_values(new)), (new,)

    def op_reset_values_list(rs, o):
        new = list(rs.randn(max(o.npts, 4)))
        return (lambda: o.reset_values(new)), (new,)

    def op_reset_values_int(rs, o):
        new = rs.randint(-5, 6, size=max(o.npts, 4))
        return (lambda: o.reset_values(new)), (new,)

    def op_add_constant(rs, o):
        c = [0.3, -1, 0, 2.5e-3][rs.randint(4)]
        return (lambda: o.add_constant(c)), (c,)

    def op_add_series_arr(rs, o):
        s = rs.randn(o.npts)
        return (lambda: o.add_series(s)), (s,)

    def op_add_series_list(rs, o):
        s = list(rs.randn(o.npts))
        return (lambda: o.add_series(s)), (s,)

    def op_add_series_bad(rs, o):
        s = rs.randn(o.npts + 1)
        return (lambda: o.add_series(s)), (s,)

    def op_add_signal(rs, o):
        other = Signal(rs.randn(o.npts), o.dt)
        return (lambda: o.add_signal(other)), (other,)

    def op_add_acc_signal(rs, o):
        other = AccSignal(rs.randn(o.npts), o.dt)
        return (lambda: o.add_signal(other)), (other,)

    def op_add_signal_bad_dt(rs, o):
        other = Signal(rs.randn(o.npts), o.dt * 2)
        return (lambda: o.add_signal(other)), (other,)

    def op_add_signal_not_signal(rs, o):
        other = rs.randn(o.npts)
        return (lambda: o.add_signal(other)), (other,)

    def op_butter(rs, o):
        nyq = 0.5 / o.dt
        k = rs.randint(6)
        if k == 0:
            kw = dict(cut_off=(0.05 * nyq, 0.6 * nyq))
        elif k == 1:
            kw = dict(cut_off=(None, 0.5 * nyq), filter_order=2)
        elif k == 2:
            kw = dict(cut_off=[0.1 * nyq, None], filter_order=2)
        elif k == 3:
            kw = dict(cut_off=(0.05 * nyq, 0.6 * nyq), remove_gibbs='start', filter_order=2)
        elif k == 4:
            kw = dict(cut_off=np.array([0.05 * nyq, 0.6 * nyq]), remove_gibbs='end', gibbs_extra=2, filter_order=2)
        else:
            kw = dict(cut_off=(0.05 * nyq, 0.6 * nyq), remove_gibbs='mid', gibbs_range=5, filter_order=3)
        return (lambda: o.butter_pass(**kw)), (kw,)

    def op_butter_bad(rs, o):
        co = [(1, 2, 3), 5.0][rs.randint(2)]
        return (lambda: o.butter_pass(co)), (co,)

    def op_remove_average(rs, o):
        sec = [-1, 5, 3][rs.randint(3)]
        return (lambda: o.remove_average(section=sec)), (sec,)

    def op_remove_poly(rs, o):
        k = rs.randint(0, 4)
        return (lambda: o.remove_poly(k)), (k,)

    def op_running_average(rs, o):
        w = [1, 2, 3, 4, 5, 8, 11, 0, 2.5, 7.0, 40, 1000][rs.randint(12)]
        return (lambda: o.running_average(w)), (w,)

    def op_running_average_default(rs, o):
        return (lambda: o.running_average()), ()

    def op_get_section_average(rs, o):
        return (lambda: o.get_section_average(start=1, end=o.npts - 2, index=True)), ()

    def op_gen_fa(rs, o):
        k = rs.randint(3)
        if k == 0:
            return (lambda: o.gen_fa_spectrum(p2_plus=1)), ()
        if k == 1:
            return (lambda: o.gen_fa_spectrum(n=2 * o.npts + 3)), ()
        return (lambda: o.generate_fa_spectrum()), ()

    def op_gen_smooth(rs, o):
        k = rs.randint(3)
        if k == 0:
            return (lambda: o.generate_smooth_fa_spectrum(band=20)), ()
        if k == 1:
            fr = np.array([0.5, 1.0, 2.0, 4.0])
            return (lambda: o.gen_smooth_fa_spectrum(smooth_fa_freqs=fr, band=30)), (fr,)
        return (lambda: o.gen_smooth_fa_spectrum()), ()

    # settings
    def op_set_smooth_fa_freqs(rs, o):
        fr = [np.array([0.2, 1.0, 5.0]), [0.5, 2, 3], (1, 2), np.logspace(-1, 1, 7)][rs.randint(4)]
        return (lambda: setattr(o, 'smooth_fa_freqs', fr)), (fr,)

    def op_set_smooth_fa_frequencies(rs, o):
        fr = [np.array([0.3, 1.5, 4.0]), [1, 2, 3, 4], (0.25, 2.5), np.arange(1, 6)][rs.randint(4)]
        return (lambda: setattr(o, 'smooth_fa_frequencies', fr)), (fr,)

    def op_set_smooth_freq_range(rs, o):
        lim = [(0.2, 10), [0.5, 5.0], np.array([1.0, 8.0])][rs.randint(3)]
        return (lambda: setattr(o, 'smooth_freq_range', lim)), (lim,)

    def op_set_smooth_freq_points(rs, o):
        n = [5, 12, 7.0][rs.randint(3)]
        return (lambda: setattr(o, 'smooth_freq_points', n)), (n,)

    def op_set_by_range(rs, o):
        lim = [(0.2, 10), [0.5, 5.0], np.array([1.0, 8.0])][rs.randint(3)]
        n = rs.randint(3, 9)
        return (lambda: o.set_smooth_fa_frequecies_by_range(lim, n)), (lim, n)

    def op_clear_cache(rs, o):
        return (lambda: o.clear_cache()), ()

    SIGNAL_OPS = [op_reset_values_arr, op_reset_values_list, op_reset_values_int, op_add_constant, op_add_series_arr,
                  op_add_series_list, op_add_series_bad, op_add_signal, op_add_acc_signal, op_add_signal_bad_dt,
                  op_add_signal_not_signal, op_butter, op_butter_bad, op_remove_average, op_remove_poly,
                  op_running_average, op_running_average_default, op_get_section_average, op_gen_fa, op_gen_smooth,
                  op_set_smooth_fa_freqs, op_set_smooth_fa_frequencies, op_set_smooth_freq_range,
                  op_set_smooth_freq_points, op_set_by_range, op_clear_cache]

    # AccSignal only
    def op_correct_me(rs, o):
        return (lambda: o.correct_me()), ()

    def op_remove_rolling(rs, o):
        mt = ['velocity', 'acceleration', 'velocity', 'other'][rs.randint(4)]
        fw = [5, 2, 1, 0.5, 10, 1.0e6, 0.01][rs.randint(7)]
        return (lambda: o.remove_rolling_average(mtype=mt, freq_window=fw)), (mt, fw)

    def op_remove_rolling_default(rs, o):
        return (lambda: o.remove_rolling_average()), ()

    def op_rebase(rs, o):
        return (lambda: o.rebase_displacement()), ()

    def op_zero_res_velocity(rs, o):
        tz = [None, (o.dt * 2, o.dt * 10), (o.dt * 3, None)][rs.randint(3)]
        return (lambda: o.set_zero_residual_velocity(timezone=tz)), (tz,)

    def op_zero_res_disp(rs, o):
        tz = [None, None, (0.1, 0.2)][rs.randint(3)]
        return (lambda: o.set_zero_residual_displacement(timezone=tz)), (tz,)

    def op_zero_res_disp_velo(rs, o):
        tz = [None, (o.dt * 2, o.dt * 10), (o.dt * 3, None)][rs.randint(3)]
        return (lambda: o.set_zero_residual_displacement_and_velocity(timezone=tz)), (tz,)

    def op_set_response_times(rs, o):
        rt = [np.array([0.1, 0.5, 1.0]), [0.2, 0.4], (0.0, 0.3, 0.6), np.linspace(0.05, 2, 6)][rs.randint(4)]
        return (lambda: setattr(o, 'response_times', rt)), (rt,)

    def op_gen_response(rs, o):
        k = rs.randint(4)
        if k == 0:
            return (lambda: o.generate_response_spectrum()), ()
        if k == 1:
            rt = np.array([0.3, 0.9])
            return (lambda: o.generate_response_spectrum(response_times=rt, xi=0.02)), (rt,)
        if k == 2:
            return (lambda: o.gen_response_spectrum(xi=0.1, min_dt_ratio=1)), ()
        rt = [0.0, 0.2, 0.7]
        return (lambda: o.gen_response_spectrum(response_times=rt)), (rt,)

    def op_gen_dv(rs, o):
        tr = bool(rs.randint(2))
        return (lambda: o.generate_displacement_and_velocity_series(trap=tr)), (tr,)

    def op_all_stats(rs, o):
        return (lambda: o.generate_all_motion_stats()), ()

    def op_reset_stats(rs, o):
        return (lambda: o.reset_all_motion_stats()), ()

    def op_peak_values(rs, o):
        return (lambda: o.generate_peak_values()), ()

    def op_response_series(rs, o):
        rt = np.array([0.2, 0.8])
        return (lambda: o.response_series(response_times=rt)), (rt,)

    ACC_OPS = SIGNAL_OPS + [op_correct_me, op_remove_rolling, op_remove_rolling_default, op_rebase,
                            op_zero_res_velocity, op_zero_res_disp, op_zero_res_disp_velo, op_set_response_times,
                            op_gen_response, op_gen_dv, op_all_stats, op_reset_stats, op_peak_values,
                            op_response_series]

    # -- object builders -----------------------------------------------------------------------------------------
    RT = np.array([0.1, 0.3, 0.8, 1.5])

    def build(kind, rs, cls):
        dt = [0.01, 0.02, 0.005, 0.1][rs.randint(4)]
        if kind == 'rand':
            v = rs.randn(int(rs.choice([32, 50, 64, 97, 130])))
        elif kind == 'list':
            v = list(rs.randn(40))
        elif kind == 'int':
            v = rs.randint(-9, 10, size=48)
        elif kind == 'intlist':
            v = [int(x) for x in rs.randint(-9, 10, size=33)]
        elif kind == 'zeros':
            v = np.zeros(36)
        elif kind == 'short':
            v = rs.randn(int(rs.choice([4, 5, 6, 8, 11])))
        elif kind == 'tiny':
            v = rs.randn(int(rs.choice([0, 1, 2, 3])))
        elif kind == 'float32':
            v = rs.randn(45).astype(np.float32)
        elif kind == 'record':
            t = np.arange(200) * dt
            v = np.sin(2 * np.pi * 1.3 * t) * np.exp(-0.5 * t) + 0.1 * rs.randn(200)
        else:
            raise ValueError(kind)
        kw = {}
        k = rs.randint(3)
        if k == 0:
            kw['smooth_fa_freqs'] = np.array([0.5, 1.0, 3.0, 9.0])
        elif k == 1:
            kw['smooth_freq_range'] = (0.2, 20)
        if cls is AccSignal:
            k = rs.randint(3)
            if k == 0:
                kw['response_times'] = RT
            elif k == 1:
                kw['response_period_range'] = (0.2, 2.0)
            else:
                kw['response_times'] = [0.0, 0.25, 1.0]
        v_arg = v
        obj = cls(v_arg, dt, **kw)
        trace.append(('build', kind, cls.__name__, freeze(v_arg), obj.values is v_arg, snap(obj)))
        return obj

    KINDS = ['rand', 'list', 'int', 'intlist', 'zeros', 'short', 'float32', 'record', 'tiny']

    # -- part A: exhaustive over the observational cache state x mutators -----------------------------------------
    GROUPS = [['fa_spectrum'], ['smooth_fa_spectrum'], ['velocity'], ['pga'], ['pgv'], ['pgd'], ['s_a']]
    n_ops = len(ACC_OPS)
    base_rs = np.random.RandomState(1234)
    base_vals = base_rs.randn(40)
    for mask in range(2 ** len(GROUPS)):
        for j, op in enumerate(ACC_OPS):
            # keep the run time bounded: all ops for the focussed masks, a rotating third of them otherwise
            if mask not in (0, 2 ** len(GROUPS) - 1) and (j + mask) % 3:
                continue
            rs = np.random.RandomState(1000 * j + mask)
            o = AccSignal(np.array(base_vals), 0.02, smooth_fa_freqs=np.array([0.5, 1.0, 3.0, 9.0]),
                          response_times=RT)
            for g in range(len(GROUPS)):
                if mask >> g & 1:
                    for name in GROUPS[g]:
                        read(o, name)
            fn, args = op(rs, o)
            do(o, 'op:' + op.__name__, fn, args)
            read_all(o)
    # Signal (base class): fa / smooth_fa state
    for mask in range(4):
        for j, op in enumerate(SIGNAL_OPS):
            rs = np.random.RandomState(5000 + 10 * j + mask)
            o = Signal(np.array(base_vals), 0.02, smooth_fa_freqs=np.array([0.5, 1.0, 3.0, 9.0]))
            if mask & 1:
                read(o, 'fa_spectrum_abs')
            if mask & 2:
                read(o, 'smooth_fa_spectrum')
            fn, args = op(rs, o)
            do(o, 'op:' + op.__name__, fn, args)
            read_all(o, twice=True)

    # -- part B: random longer histories on many kinds of inputs ------------------------------------------------------
    for seed in range(70):
        rs = np.random.RandomState(seed)
        cls = AccSignal if seed % 3 else Signal
        kind = KINDS[seed % len(KINDS)]
        o = build(kind, rs, cls)
        ops = ACC_OPS if cls is AccSignal else SIGNAL_OPS
        names = SIGNAL_READS + (ACC_READS if cls is AccSignal else [])
        for step in range(14):
            r = rs.rand()
            if r < 0.5:
                op = ops[rs.randint(len(ops))]
                fn, args = op(rs, o)
                do(o, 'op:' + op.__name__, fn, args)
            else:
                for _ in range(rs.randint(1, 4)):
                    read(o, names[rs.randint(len(names))])
        read_all(o, twice=True)
        fresh_check(o)

    # -- part C: focussed scenarios -----------------------------------------------------------------------------------
    rs = np.random.RandomState(99)
    # every kind of input x every operation once, reading everything before and after
    for kind in KINDS:
        for cls in (Signal, AccSignal):
            ops = ACC_OPS if cls is AccSignal else SIGNAL_OPS
            for op in ops:
                if FOCUS == 'twin1' and op.__name__ not in (
                        'op_set_smooth_fa_frequencies', 'op_set_smooth_fa_freqs', 'op_clear_cache', 'op_gen_fa',
                        'op_reset_values_arr', 'op_rebase', 'op_running_average', 'op_remove_rolling'):
                    continue
                if FOCUS == 'twin2' and op.__name__ not in (
                        'op_reset_stats', 'op_clear_cache', 'op_gen_dv', 'op_reset_values_int', 'op_rebase',
                        'op_zero_res_velocity', 'op_all_stats', 'op_add_constant'):
                    continue
                if FOCUS == 'twin3' and op.__name__ not in (
                        'op_running_average', 'op_running_average_default', 'op_remove_rolling',
                        'op_remove_rolling_default'):
                    continue
                reps = 6 if FOCUS == 'twin3' else 2
                for rep in range(reps):
                    o = build(kind, rs, cls)
                    if rep % 2:
                        read_all(o)
                    held = o.values
                    fn, args = op(rs, o)
                    do(o, 'op:' + op.__name__, fn, args)
                    trace.append(('held', freeze(held), held is o.values))
                    read_all(o, twice=True)
                    fresh_check(o)

    with open(out_file, 'wb') as f:
        pickle.dump(trace, f, protocol=pickle.HIGHEST_PROTOCOL)


# ----------------------------------------------------------------------------------------------------------------------
# driver side
# ----------------------------------------------------------------------------------------------------------------------

def first_difference(a, b, path='trace'):
    if type(a) is not type(b):
        return '%s: type %s != %s' % (path, type(a).__name__, type(b).__name__)
    if isinstance(a, (tuple, list)):
        if len(a) != len(b):
            return '%s: len %i != %i' % (path, len(a), len(b))
        for i, (x, y) in enumerate(zip(a, b)):
            d = first_difference(x, y, '%s[%s]' % (path, x if (i == 0 and isinstance(x, str)) else i))
            if d:
                return d
        return None
    if a != b:
        return '%s: %r != %r' % (path, a if not isinstance(a, bytes) else a[:32], b if not isinstance(b, bytes) else b[:32])
    return None


def main():
    here = os.getcwd()
    assert os.path.isdir(os.path.join(here, 'eqsig')), 'run with cwd = the worktree'
    tmp = tempfile.mkdtemp(prefix='c04_tw4_eq1_', dir='/tmp')
    try:
        p1 = subprocess.Popen(['git', 'archive', 'HEAD', 'eqsig'], cwd=here, stdout=subprocess.PIPE)
        subprocess.check_call(['tar', '-x', '-C', tmp], stdin=p1.stdout)
        assert p1.wait() == 0
        outs = []
        procs = []
        for tag, root in (('orig', tmp), ('edit', here)):
            out_file = os.path.join(tmp, tag + '.pkl')
            outs.append(out_file)
            env = dict(os.environ)
            env.pop('PYTHONPATH', None)
            procs.append(subprocess.Popen([sys.executable, os.path.abspath(__file__), '--worker', root, out_file],
                                          cwd=root, env=env))
        for p in procs:
            if p.wait() != 0:
                print('worker failed')
                return 1
        with open(outs[0], 'rb') as f:
            t_orig = pickle.load(f)
        with open(outs[1], 'rb') as f:
            t_edit = pickle.load(f)
        n_exc = sum(1 for r in t_orig if len(r) > 1 and isinstance(r[1], tuple) and r[1] and r[1][0] == 'exc')
        print('%s: %i records in the original trace (%i of them exceptions), %i in the edited trace'
              % (FOCUS, len(t_orig), n_exc, len(t_edit)))
        d = first_difference(t_orig, t_edit)
        if d:
            print('MISMATCH at', d[:2000])
            return 1
        print('all identical')
        return 0
    finally:
        shutil.rmtree(tmp, ignore_errors=True)


if __name__ == '__main__':
    if len(sys.argv) == 4 and sys.argv[1] == '--worker':
        if sys.path and os.path.realpath(sys.path[0]) == os.path.realpath(os.path.dirname(os.path.abspath(__file__))):
            sys.path.pop(0)
        run_worker(sys.argv[2], sys.argv[3])
        sys.exit(0)
    sys.exit(main())

"""Equivalence check for twin1 (run with twin1 applied, cwd = worktree).

Compares eqsig.displacements.calc_velo_and_disp_from_accel_arr (and its thin wrapper
velocity_and_displacement_from_acceleration, and AccSignal.generate_displacement_and_velocity_series)
of the ORIGINAL package (git HEAD) against the edited working copy, bit for bit.
"""
import os
import subprocess
import sys
import tempfile
import warnings

import numpy as np

HERE = os.getcwd()


def load_pair():
    """returns (original package, edited package) as two independent sets of modules"""
    tmp = tempfile.mkdtemp(prefix="c08_equiv1_", dir="/tmp")
    subprocess.check_call("git archive HEAD eqsig | tar -x -C %s" % tmp, shell=True, cwd=HERE)

    def _import(root):
        for name in [m for m in sys.modules if m == "eqsig" or m.startswith("eqsig.")]:
            del sys.modules[name]
        sys.path.insert(0, root)
        try:
            import eqsig
            import eqsig.displacements
            import eqsig.single
            import eqsig.im
            assert eqsig.__file__.startswith(root + os.sep), (eqsig.__file__, root)
            return eqsig
        finally:
            sys.path.remove(root)

    orig = _import(tmp)
    new = _import(HERE)
    assert orig is not new and orig.displacements is not new.displacements
    return orig, new


n_checks = 0


def same(a, b, ctx):
    global n_checks
    n_checks += 1
    assert type(a) is type(b), (ctx, type(a), type(b))
    if isinstance(a, tuple):
        assert len(a) == len(b), ctx
        for k, (x, y) in enumerate(zip(a, b)):
            same(x, y, ctx + (k,))
        return
    if isinstance(a, np.ndarray):
        assert a.dtype == b.dtype, (ctx, a.dtype, b.dtype)
        assert a.shape == b.shape, (ctx, a.shape, b.shape)
        assert a.flags.writeable == b.flags.writeable, ctx
        # bit-for-bit (NaN payloads and signed zeros included)
        assert a.tobytes() == b.tobytes(), (ctx, a, b)
        return
    assert a == b or (a != a and b != b), (ctx, a, b)


def call(fn, *args, **kwargs):
    """result or exception signature"""
    try:
        with warnings.catch_warnings():
            warnings.simplefilter("ignore")
            return ("ok", fn(*args, **kwargs))
    except Exception as e:  # noqa
        return ("err", type(e).__name__)


def snapshot(x):
    if isinstance(x, np.ndarray):
        return ("arr", x.dtype.str, x.shape, x.tobytes())
    return ("obj", repr(x))


def check_array_level(orig, new, acc, dt, ctx):
    for fname in ("calc_velo_and_disp_from_accel_arr", "velocity_and_displacement_from_acceleration"):
        f0 = getattr(orig.displacements, fname)
        f1 = getattr(new.displacements, fname)
        variants = [((), {}), ((True,), {}), ((False,), {}), ((), {"trap": True}), ((), {"trap": False}),
                    ((), {"trap": 0}), ((), {"trap": 1}), ((), {"trap": None}), ((), {"trap": np.False_}),
                    ((), {"trap": np.True_})]
        for extra, kw in variants:
            a0 = acc.copy() if isinstance(acc, np.ndarray) else list(acc) if isinstance(acc, list) else acc
            a1 = acc.copy() if isinstance(acc, np.ndarray) else list(acc) if isinstance(acc, list) else acc
            before = snapshot(a0)
            with warnings.catch_warnings():
                warnings.simplefilter("ignore")  # deprecation print / warnings of the wrapper
                r0 = call(f0, a0, dt, *extra, **kw)
                r1 = call(f1, a1, dt, *extra, **kw)
            same(r0, r1, ctx + (fname, extra, tuple(sorted(kw.items(), key=str))))
            # the argument is never modified, in either version
            assert snapshot(a0) == before and snapshot(a1) == before, ctx
            if r0[0] == "ok":
                v1, d1 = r1[1]
                v0, d0 = r0[1]
                # results are independent, writeable arrays that do not alias the input or each other
                if isinstance(a1, np.ndarray):
                    assert not np.shares_memory(v1, a1) and not np.shares_memory(d1, a1), ctx
                    assert not np.shares_memory(v0, a0) and not np.shares_memory(d0, a0), ctx
                assert not np.shares_memory(v1, d1) and not np.shares_memory(v0, d0), ctx
                if isinstance(acc, np.ndarray) and acc.ndim == 1:
                    assert len(v1) == len(acc) and len(d1) == len(acc), ctx


def main():
    orig, new = load_pair()
    import io
    import contextlib
    sink = io.StringIO()
    rng = np.random.default_rng(808)

    with contextlib.redirect_stdout(sink), contextlib.redirect_stderr(sink):
        # ---- edge cases -------------------------------------------------
        dts = [0.01, 0.005, 1.0, 1, 2, 0.1, 1e-6, 3.7e3, np.float64(0.02), np.float32(0.01), -0.01, 0.0]
        edge = [
            np.array([0.0, 0.0]), np.array([1.0, -1.0]), np.array([1.0, 1.0, 1.0]),
            np.array([3.0, 3.0, 3.0, 3.0, 3.0, 3.0]),  # constant
            np.arange(7, dtype=float),  # linear
            np.arange(7),  # integer dtype
            np.arange(-4, 5, dtype=np.int32),
            np.array([1, 2], dtype=np.int64),
            np.zeros(10), -np.zeros(5), np.ones(4, dtype=np.float32),
            np.array([1e308, 1e308, -1e308]),  # overflow to inf
            np.array([1e-320, -1e-320, 5e-324]),  # subnormals
            np.array([0.1, np.nan, 0.3, 0.2]), np.array([np.inf, 1.0, -np.inf]),
            np.array([2.5]), np.array([]),  # below the domain, still compared
            np.linspace(-1, 1, 11)[::2],  # non-contiguous view
            np.linspace(-1, 1, 11)[::-1],
            np.array([True, False, True]),
            [0.1, -0.2, 0.3], [1, 2, 3], [0.0, 0.0], (0.5, 0.25, -0.75),
            np.arange(6.).reshape(2, 3),  # outside the domain (2-D), still compared
        ]
        for i, acc in enumerate(edge):
            for dt in dts:
                check_array_level(orig, new, acc, dt, ("edge", i, repr(dt)))

        # ---- random records ---------------------------------------------
        for trial in range(400):
            n = int(rng.choice([2, 3, 4, 5, 8, 17, 64, 257, 1000, 4099]))
            scale = 10.0 ** rng.integers(-8, 8)
            kind = trial % 5
            if kind == 0:
                acc = rng.standard_normal(n) * scale
            elif kind == 1:
                acc = rng.uniform(-1, 1, n) * scale
            elif kind == 2:
                acc = rng.integers(-1000, 1000, n)
            elif kind == 3:
                acc = (rng.standard_normal(n) * scale).astype(np.float32)
            else:
                acc = list(rng.standard_normal(n) * scale)
            dt = float(rng.choice([0.001, 0.005, 0.01, 0.02, 0.1, 1.0, rng.uniform(1e-4, 2.0)]))
            if kind == 4 and trial % 2:
                dt = np.float64(dt)
            check_array_level(orig, new, acc, dt, ("rand", trial))

        # ---- object level: explicit generation with both schemes, multi-step histories ----------
        for trial in range(60):
            n = int(rng.choice([2, 3, 10, 100, 1001]))
            vals = rng.standard_normal(n) * 10.0 ** rng.integers(-3, 3)
            if trial % 7 == 0:
                vals = list(vals)
            if trial % 11 == 0:
                vals = rng.integers(-50, 50, n)
            dt = float(rng.choice([0.005, 0.01, 0.1, 1.0]))
            s0 = orig.AccSignal(vals, dt)
            s1 = new.AccSignal(vals, dt)

            def cmp_state(tag):
                same(s0._cached_disp_and_velo, s1._cached_disp_and_velo, ("obj", trial, tag, "flag"))
                same(s0._velocity, s1._velocity, ("obj", trial, tag, "_velocity"))
                same(s0._displacement, s1._displacement, ("obj", trial, tag, "_displacement"))
                same(s0._values, s1._values, ("obj", trial, tag, "_values"))
                same(sorted(s0._cached_params.items()), sorted(s1._cached_params.items()), ("obj", trial, tag, "params"))
                same(sorted(k for k in s0.__dict__), sorted(k for k in s1.__dict__), ("obj", trial, tag, "keys"))

            cmp_state("fresh")
            same(s0.velocity, s1.velocity, ("obj", trial, "velocity"))
            same(s0.displacement, s1.displacement, ("obj", trial, "displacement"))
            same((s0.pga, s0.pgv, s0.pgd), (s1.pga, s1.pgv, s1.pgd), ("obj", trial, "peaks"))
            cmp_state("lazy")
            for s in (s0, s1):
                s.generate_displacement_and_velocity_series(trap=False)
            cmp_state("rect")
            same(s0.velocity, s1.velocity, ("obj", trial, "velocity rect"))
            same(s0.displacement, s1.displacement, ("obj", trial, "displacement rect"))
            same((s0.pga, s0.pgv, s0.pgd), (s1.pga, s1.pgv, s1.pgd), ("obj", trial, "peaks after rect"))
            # in-place use of the returned series must behave alike (both are writeable, own their data logically)
            s0.velocity[0] += 1.0
            s1.velocity[0] += 1.0
            cmp_state("poked")
            new_vals = rng.standard_normal(max(2, n // 2))
            s0.reset_values(new_vals)
            s1.reset_values(new_vals)
            cmp_state("reset")
            for s in (s0, s1):
                s.generate_displacement_and_velocity_series(trap=False)
            same((s0.pgv, s0.pgd), (s1.pgv, s1.pgd), ("obj", trial, "peaks rect after reset"))
            cmp_state("rect2")
            for s in (s0, s1):
                s.generate_displacement_and_velocity_series()
            cmp_state("trap again")
            if n > 4:
                s0.rebase_displacement()
                s1.rebase_displacement()
                same(s0.displacement, s1.displacement, ("obj", trial, "rebased"))
                cmp_state("rebased")

    print("equiv1: %d comparisons identical" % n_checks)


if __name__ == "__main__":
    main()

"""
Equivalence program for twin 3 of property C12 (zero crossings / switched peaks).

Run with the edit applied and cwd = the worktree:
    cd <worktree> && PYTHONPATH=<worktree> /venv/bin/python out/equiv3.py

It extracts the ORIGINAL package with `git archive HEAD eqsig` into a temporary directory, then runs the same
deterministic battery of calls in two subprocesses (one importing the original package, one importing the edited
package from os.getcwd()), and compares every outcome exactly: returned value (dtype, shape and raw bytes),
exception type and message, and the state of the argument objects after the call.
Exit status 0 iff every case matches.
"""
import itertools
import os
import pickle
import subprocess
import sys
import tempfile
import time

TWIN = 3
INCLUDE_ND = True  # twin 1 rebuilds the index union with a 1-D mask, so n-D garbage-in/garbage-out differs


# --------------------------------------------------------------------------------------------------------------
# worker: runs the battery against whatever `eqsig` is first on sys.path
# --------------------------------------------------------------------------------------------------------------

def enc(obj):
    """Canonical, exactly comparable encoding of a result or of an argument state"""
    import numpy as np
    if isinstance(obj, np.ndarray) and obj.dtype == object:
        return ('ndobj', obj.shape, tuple(enc(o) for o in obj.ravel().tolist()))
    if isinstance(obj, np.ndarray):
        return ('nd', str(obj.dtype), obj.shape, obj.tobytes())
    if isinstance(obj, np.generic):
        return ('ng', str(obj.dtype), obj.tobytes())
    if isinstance(obj, (list, tuple)):
        return (type(obj).__name__,) + tuple(enc(o) for o in obj)
    if isinstance(obj, float):
        return ('float', repr(obj))
    if isinstance(obj, (int, bool, str, type(None))):
        return (type(obj).__name__, repr(obj))
    if hasattr(obj, 'values') and hasattr(obj, 'dt'):
        return ('sig', enc(obj.values), repr(obj.dt))
    if hasattr(obj, 'values'):
        return ('holder', enc(obj.values))
    return ('other', repr(obj))


class Holder(object):
    """Minimal object with a `.values` attribute (what the *_indices(asig) wrappers need)"""
    def __init__(self, values):
        self.values = values


def build_series(np):
    """Deterministic list of (label, series-object) covering the domain and its corners"""
    out = []
    # 1. exhaustive small alphabets
    for n in range(1, 7):
        for tup in itertools.product((-2, -1, 0, 1, 2), repeat=n):
            out.append(('ex5', list(tup)))
    for n in range(1, 5):
        for tup in itertools.product((-3, -2, -1, 0, 1, 2, 3), repeat=n):
            out.append(('ex7', np.array(tup, dtype=float)))
    rs = np.random.RandomState(20260928 + TWIN)
    # longer series over small alphabets (length 7..12), many of them
    for _ in range(1000):
        n = rs.randint(7, 13)
        out.append(('rnd5', rs.randint(-2, 3, size=n)))
    for _ in range(800):
        n = rs.randint(5, 10)
        out.append(('rnd7', (rs.randint(-3, 4, size=n) * 0.5).tolist()))
    # zero-heavy series: runs of zeros, leading / trailing zeros
    for _ in range(800):
        n = rs.randint(1, 40)
        v = rs.randint(-3, 4, size=n).astype(float)
        v[rs.rand(n) < rs.choice([0.2, 0.5, 0.8])] = 0.0
        out.append(('zeros', v))
    # small-amplitude wiggles around zero between large excursions (exercise the tol pruning with runs)
    for _ in range(1000):
        n = rs.randint(2, 60)
        v = rs.choice([-2.0, -0.3, -0.1, 0.0, 0.1, 0.3, 2.0], size=n, p=[0.05, 0.2, 0.2, 0.1, 0.2, 0.2, 0.05])
        out.append(('wiggle', v))
    for _ in range(600):
        n = rs.randint(2, 80)
        v = rs.randn(n) * rs.choice([0.1, 0.5, 1.0, 3.0])
        if rs.rand() < 0.5:
            v[rs.rand(n) < 0.15] = 0.0
        out.append(('randn', v))
    # random series with >= 3 distinct levels per excursion, up to length 5000
    for n in (10, 100, 1000, 5000):
        t = np.arange(n)
        v = np.sin(t * 0.07) * 3 + rs.randn(n) * 0.4
        out.append(('sine', v))
        w = np.cumsum(rs.randn(n))
        out.append(('walk', w))
        wi = np.cumsum(rs.randint(-2, 3, size=n))
        out.append(('iwalk', wi))
        out.append(('iwalk_list', wi.tolist()))
        z = w.copy()
        z[rs.rand(n) < 0.3] = 0.0
        out.append(('walk_zeros', z))
        out.append(('tiny', rs.randn(n) * 0.01))
    # different containers and dtypes
    base = [0, 2, 1, 2, -1, 1, 0, 0, 1, 0.3, 0, -1, 0.2, 1, 0.2]
    out.append(('doc_list', list(base)))
    out.append(('doc_tuple', tuple(base)))
    out.append(('doc_f32', np.array(base, dtype=np.float32)))
    out.append(('doc_f16', np.array(base, dtype=np.float16)))
    out.append(('doc_noncontig', np.array(base * 2, dtype=float)[::2]))
    out.append(('doc_reversed', np.array(base, dtype=float)[::-1]))
    for dt in (np.int8, np.int16, np.int32, np.int64, np.uint8, np.uint32):
        out.append(('int_' + np.dtype(dt).name, np.array([3, 1, 0, 0, 2, 5, 1, 0, 4], dtype=dt)))
    for dt in (np.int8, np.int32, np.int64):
        out.append(('sint_' + np.dtype(dt).name, np.array([-3, 1, 0, 0, -2, -5, 1, 0, 4, -4, 4], dtype=dt)))
    out.append(('bigint', np.array([2 ** 62, -2 ** 62, 2 ** 53 + 1, -(2 ** 53) - 1, 0, 1], dtype=np.int64)))
    out.append(('pybigint', [2 ** 70, -2 ** 70, 0, 5]))
    out.append(('bool', [True, False, True]))
    out.append(('bool_arr', np.array([False, True, True, False])))
    out.append(('mixed_list', [1, -1.5, True, 0, np.float32(2.5), np.int8(-3)]))
    # corners: empty, scalars, length 1-2, constants
    out.append(('empty_list', []))
    out.append(('empty_arr', np.array([])))
    out.append(('empty_int', np.array([], dtype=int)))
    out.append(('scalar', 5.0))
    out.append(('scalar0', 0))
    out.append(('scalar_np', np.float64(-1.0)))
    out.append(('zerod', np.array(2.0)))
    out.append(('none', None))
    out.append(('string', ['a', 'b']))
    out.append(('cplx', [1 + 2j, -1]))
    for v in ([5], [0], [-5], [0.0, 0.0], [0, 0, 0, 0], [1, 1], [1, -1], [-1, 1], [-1, -1], [0, 1], [1, 0], [0, -1],
              [-1, 0], [3, 3, 3, 3], [-3, -3, -3], [0, 0, 1], [1, 0, 0], [1, 0, 0, -1], [1, 0, 0, 1], [-1, 0, 1],
              [1, 2, 3, 4], [4, 3, 2, 1], [-1, -2, -3], [1, 2, 2, 1], [1, -1, 1, -1, 1, -1]):
        out.append(('corner', v))
        out.append(('corner_f', np.array(v, dtype=float)))
    # non-finite and under/overflowing products
    out.append(('underflow', np.array([1e-200, -1e-200, 1e-200, -1e-100, 1e-300, -1.0, 1e-320, -1e-320])))
    out.append(('overflow', np.array([1e200, -1e200, 1e300, -1e308, 1e308])))
    out.append(('negzero', np.array([-0.0, 1.0, -0.0, -1.0, 0.0, -0.0, 2.0])))
    out.append(('inf', np.array([np.inf, -np.inf, 0.0, np.inf, 1.0, -1.0, -np.inf])))
    for k in range(60):
        n = rs.randint(1, 12)
        v = rs.randint(-2, 3, size=n).astype(float) * 0.4
        m = rs.rand(n)
        v[m < 0.2] = np.nan
        if k % 3 == 0:
            v[m > 0.9] = np.inf
        out.append(('nan', v))
    out.append(('nan_first', [np.nan, 1, -1, 0.1, -0.1, 2]))
    out.append(('nan_mid', [1, np.nan, -1, 0.1, np.nan, -0.1, 2]))
    out.append(('nan_all', [np.nan, np.nan]))
    # n-D input is outside the domain (a series is 1-D); it is only included for the edits that do not touch it
    if INCLUDE_ND:
        out.append(('nd', [[1, -1], [0, 2]]))
        out.append(('nd', np.zeros((2, 2))))
        out.append(('nd', np.ones((3, 1))))
        out.append(('nd', np.array([[1.0, -1.0, 0.0]])))
        out.append(('nd', [[]]))
        for _ in range(150):
            shp = (rs.randint(1, 5), rs.randint(1, 5)) if rs.rand() < 0.8 else tuple(rs.randint(1, 3, size=3))
            out.append(('nd', rs.randint(-2, 3, size=shp).astype(float)))
    return out


TOLS_COMMON = [0.0, 0.5, 1.5]


def worker(pkg_root, out_path):
    sys.path.insert(0, pkg_root)
    import warnings
    warnings.simplefilter('ignore')
    import numpy as np
    np.seterr(all='ignore')
    import eqsig
    import eqsig.fns
    import eqsig.fns.peaks_and_crossings as pc
    import eqsig.im
    assert os.path.realpath(os.path.dirname(os.path.dirname(eqsig.__file__))) == os.path.realpath(pkg_root), \
        (eqsig.__file__, pkg_root)

    results = []

    def call(tag, fn, args, kwargs=None):
        kwargs = kwargs or {}
        try:
            r = ('ok', enc(fn(*args, **kwargs)))
        except Exception as e:  # the kind and the text of the failure are part of the behaviour
            r = ('exc', type(e).__name__, str(e))
        # state of the arguments after the call (mutation of arguments is observable)
        results.append((tag, r, tuple(enc(a) for a in args)))

    series = build_series(np)
    extra_tols = [0, 1, 1e-300, 0.3, 0.1, 0.15, 1.0, 2.5, 1.1, float('inf'), float('nan'), np.float32(0.5), np.float64(0.25),
                  np.int64(2), -0.5, -1, True]
    prof = {}
    t_last = [time.time(), None]
    for si, (label, v) in enumerate(series):
        tag = '%s#%d' % (label, si)
        if os.environ.get('EQUIV_PROFILE'):
            now = time.time()
            if t_last[1] is not None:
                prof[t_last[1]] = prof.get(t_last[1], 0.0) + now - t_last[0]
            t_last[:] = [now, label]
        small = label in ('ex5', 'ex7')
        try:
            size = len(v)
        except TypeError:
            size = 1
        tols = TOLS_COMMON if not small else [0.0, 1.5]
        if not small and size <= 100:
            tols = TOLS_COMMON + [extra_tols[si % len(extra_tols)], extra_tols[(si * 7 + 3) % len(extra_tols)]]
        if label in ('nan', 'nan_first', 'nan_mid', 'nan_all', 'inf', 'underflow', 'overflow', 'negzero', 'corner',
                     'corner_f', 'doc_list', 'doc_f32', 'empty_list', 'empty_arr', 'scalar', 'bool', 'wiggle') \
                and (label != 'wiggle' or si % 10 == 0):
            tols = TOLS_COMMON + extra_tols
        tols_sw = tols
        if size >= 1000:
            tols_sw = [0.0, 0.5]
        if small and size == 6 and si % 5:
            tols_sw = []
        # -- the two anchored functions, every configuration
        if not small:
            call(tag + ':zc-default', pc.get_zero_crossings_array_indices, (v,))
            call(tag + ':sw-default', pc.get_switched_peak_array_indices, (v,))
        for tol in tols:
            for kaz in (False, True):
                call(tag + ':zc(%r,%r)' % (kaz, tol), pc.get_zero_crossings_array_indices, (v,),
                     dict(keep_adj_zeros=kaz, tol=tol))
        for tol in tols_sw:
            call(tag + ':sw(%r)' % (tol,), pc.get_switched_peak_array_indices, (v,), dict(tol=tol))
        if (small and si % 40) or (label in ('rnd5', 'rnd7', 'zeros', 'wiggle', 'randn') and si % 6):
            continue
        if size >= 1000:
            call(tag + ':ncyc-sw', pc.get_n_cyc_array, (v,), dict(opt='switched'))
            call(tag + ':zp', pc.get_zero_and_peak_array_indices, (v,))
            call(tag + ':zc-wrap', pc.get_zero_crossings_indices, (Holder(v),))
            continue
        # -- positional forms / truthy flags
        call(tag + ':zc-pos', pc.get_zero_crossings_array_indices, (v, 1, 0.5))
        call(tag + ':sw-pos', pc.get_switched_peak_array_indices, (v, 0.5))
        # -- wrappers and dependants (a history of public operations on the same argument object)
        call(tag + ':zc-wrap', pc.get_zero_crossings_indices, (Holder(v),))
        call(tag + ':sw-wrap', pc.get_switched_peak_indices, (Holder(v),))
        call(tag + ':sw-wrap-raw', pc.get_switched_peak_indices, (v,))
        call(tag + ':pk', pc.get_peak_array_indices, (v,))
        call(tag + ':pk-min', pc.get_peak_array_indices, (v,), dict(ptype='min'))
        call(tag + ':pk-max', pc.get_peak_array_indices, (v,), dict(ptype='max'))
        call(tag + ':ncyc-sw', pc.get_n_cyc_array, (v,), dict(opt='switched'))
        call(tag + ':ncyc-sw-peak', pc.get_n_cyc_array, (v,), dict(opt='switched', start='peak'))
        call(tag + ':ncyc-all', pc.get_n_cyc_array, (v,), dict(opt='all'))
        call(tag + ':zp', pc.get_zero_and_peak_array_indices, (v,))
        call(tag + ':zp-step', pc.get_zero_and_peak_array_indices, (v,), dict(min_step=1))
        if size > 2 and hasattr(v, '__len__'):
            try:
                z = np.roll(np.asarray(v, dtype=float), 1)
            except Exception:
                z = None
            if z is not None:
                call(tag + ':zp-z', pc.get_zero_and_peak_array_indices, (v, z, 2))
        if hasattr(v, '__len__') and size:
            try:
                cv = pc.clean_out_non_changing(np.array(v, dtype=float))
                results.append((tag + ':clean', ('ok', enc(list(cv))), ()))
            except Exception as e:
                results.append((tag + ':clean', ('exc', type(e).__name__, str(e)), ()))
        call(tag + ':fns-zc', eqsig.fns.get_zero_crossings_array_indices, (v,), dict(keep_adj_zeros=True, tol=0.2))
        call(tag + ':fns-sw', eqsig.fns.get_switched_peak_array_indices, (v,), dict(tol=0.2))
        if si % 3 == 0 or not small:
            call(tag + ':im-amp', eqsig.im.calc_cyc_amp_array_w_power_law, (v, 15, 0.34))
            call(tag + ':im-comb', eqsig.im.calc_cyc_amp_combined_arrays_w_power_law, (v, v, 15, 0.34))
        if isinstance(v, np.ndarray) and v.ndim == 1 and v.dtype == float and 3 <= size <= 200 and si % 5 == 0:
            call(tag + ':im-ncyc', eqsig.im.calc_n_cyc_array_w_power_law, (v, 1.0, 0.3))
        # repeat the first call at the end of the history: no hidden state
        call(tag + ':zc-again', pc.get_zero_crossings_array_indices, (v,), dict(tol=0.5))
        call(tag + ':sw-again', pc.get_switched_peak_array_indices, (v,), dict(tol=0.5))

    if os.environ.get('EQUIV_PROFILE'):
        print(sorted(prof.items(), key=lambda kv: -kv[1]))
    # AccSignal objects: histories of public operations, then the wrappers
    rs = np.random.RandomState(77)
    for k in range(12):
        n = [50, 200, 1000][k % 3]
        acc = np.sin(np.arange(n) * 0.11) * (1 + 0.3 * np.cos(np.arange(n) * 0.013)) + rs.randn(n) * 0.05
        if k % 2:
            acc[rs.rand(n) < 0.1] = 0.0
        try:
            asig = eqsig.AccSignal(acc, 0.01)
            call('asig%d:zc' % k, pc.get_zero_crossings_indices, (asig,))
            call('asig%d:sw' % k, pc.get_switched_peak_indices, (asig,))
            call('asig%d:pk' % k, pc.get_peak_indices, (asig,))
            asig.remove_average()
            call('asig%d:zc2' % k, pc.get_zero_crossings_indices, (asig,))
            asig.butter_pass((0.5, 20))
            call('asig%d:sw2' % k, pc.get_switched_peak_indices, (asig,))
            call('asig%d:zc3' % k, pc.get_zero_crossings_array_indices, (asig.velocity,), dict(tol=1e-4))
            call('asig%d:sw3' % k, pc.get_switched_peak_array_indices, (asig.displacement,), dict(tol=1e-6))
            asig.reset_values(acc[::-1].copy())
            call('asig%d:zc4' % k, pc.get_zero_crossings_indices, (asig,))
            call('asig%d:sw4' % k, pc.get_switched_peak_indices, (asig,))
        except Exception as e:
            results.append(('asig%d:history' % k, ('exc', type(e).__name__, str(e)), ()))

    # namespace of the public modules (an edit must not add or remove public names)
    results.append(('names:pc', ('ok', enc(sorted(n for n in dir(pc) if not n.startswith('_')))), ()))
    results.append(('names:fns', ('ok', enc(sorted(n for n in dir(eqsig.fns) if not n.startswith('_')))), ()))
    import inspect
    for name in ('get_zero_crossings_array_indices', 'get_switched_peak_array_indices', 'get_peak_array_indices',
                 'get_zero_and_peak_array_indices', 'get_n_cyc_array', 'clean_out_non_changing'):
        results.append(('sig:' + name, ('ok', enc(str(inspect.signature(getattr(pc, name))))), ()))

    with open(out_path, 'wb') as f:
        pickle.dump(results, f, protocol=pickle.HIGHEST_PROTOCOL)


# --------------------------------------------------------------------------------------------------------------
# driver
# --------------------------------------------------------------------------------------------------------------

def main():
    t0 = time.time()
    cwd = os.getcwd()
    if not os.path.isdir(os.path.join(cwd, 'eqsig')):
        print('run from the worktree root (cwd must contain eqsig/)')
        return 2
    this = os.path.abspath(__file__)
    with tempfile.TemporaryDirectory(prefix='equiv%d_' % TWIN) as tmp:
        orig_root = os.path.join(tmp, 'orig')
        os.makedirs(orig_root)
        tar_path = os.path.join(tmp, 'orig.tar')
        with open(tar_path, 'wb') as f:
            subprocess.check_call(['git', 'archive', 'HEAD', 'eqsig'], cwd=cwd, stdout=f)
        subprocess.check_call(['tar', '-xf', tar_path, '-C', orig_root])
        procs = []
        outs = []
        for name, root in (('orig', orig_root), ('edit', cwd)):
            out_path = os.path.join(tmp, name + '.pkl')
            env = dict(os.environ)
            env['PYTHONPATH'] = root
            env['PYTHONHASHSEED'] = '0'
            env['PYTHONDONTWRITEBYTECODE'] = '1'
            # run the worker from the temporary directory so that '' / cwd on sys.path cannot shadow the package
            procs.append(subprocess.Popen([sys.executable, this, '--worker', root, out_path], env=env, cwd=tmp))
            outs.append(out_path)
        codes = [p.wait() for p in procs]
        t_workers = time.time() - t0
        if any(codes):
            print('worker failed', codes)
            return 3
        with open(outs[0], 'rb') as f:
            r_orig = pickle.load(f)
        with open(outs[1], 'rb') as f:
            r_edit = pickle.load(f)
    n_bad = 0
    if len(r_orig) != len(r_edit):
        print('different number of cases', len(r_orig), len(r_edit))
        n_bad += 1
    n_exc = 0
    for a, b in zip(r_orig, r_edit):
        if a[1][0] == 'exc':
            n_exc += 1
        if a != b:
            n_bad += 1
            if n_bad <= 15:
                print('MISMATCH', a[0])
                print('   orig:', _short(a[1]), '| args after:', _short(a[2]))
                print('   edit:', _short(b[1]), '| args after:', _short(b[2]))
    print('twin %d: %d cases compared (%d of them raise in the original), %d mismatches, %.1f s (workers %.1f s)'
          % (TWIN, len(r_orig), n_exc, n_bad, time.time() - t0, t_workers))
    return 0 if n_bad == 0 else 1


def _short(x):
    import numpy as np

    def dec(e):
        if isinstance(e, tuple) and e and e[0] == 'nd':
            try:
                return np.frombuffer(e[3], dtype=e[1]).reshape(e[2]).tolist()
            except Exception:
                return e
        if isinstance(e, tuple):
            return tuple(dec(i) for i in e)
        return e
    s = repr(dec(x))
    return s if len(s) < 400 else s[:400] + '...'


if __name__ == '__main__':
    if len(sys.argv) == 4 and sys.argv[1] == '--worker':
        worker(sys.argv[2], sys.argv[3])
        sys.exit(0)
    sys.exit(main())

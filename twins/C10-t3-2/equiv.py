"""
Equivalence check for twin 2 of property C10 (significant / bracketed durations).

Run WITH the twin applied, cwd = the worktree:

    cd /tmp/twin3/C10 && /venv/bin/python out/equiv2.py

The original package is taken from git (`git archive HEAD eqsig`) into a temporary
directory under /tmp.  The same battery of calls is executed in two subprocesses - one
importing the original package, one importing the edited package in the worktree - and
the encoded results (values bit-for-bit, numpy types, dtypes, shapes, exception types,
warnings, argument contents after the call, object state after every step) are compared.
Exit status 0 iff everything matches.

Twin 2 makes calc_brac_dur reuse the Signal.time property with a boolean mask and replaces the
IndexError-driven handling of 'threshold never exceeded' by an explicit emptiness test.
"""
import os
import pickle
import shutil
import subprocess
import sys
import tempfile
import warnings

TWIN = "2"


# --------------------------------------------------------------------------------------
# encoding of results so that they can be compared exactly across processes
# --------------------------------------------------------------------------------------
def enc(x):
    import numpy as np
    if x is None or isinstance(x, (bool, str)):
        return ("py", type(x).__name__, x)
    if isinstance(x, np.ndarray):
        return ("nd", x.dtype.str, x.shape, np.ascontiguousarray(x).tobytes())
    if isinstance(x, np.generic):
        return ("ng", type(x).__name__, x.dtype.str, x.tobytes())
    if isinstance(x, float):
        return ("py", "float", x.hex())
    if isinstance(x, int):
        return ("py", "int", x)
    if isinstance(x, tuple):
        # a namedtuple must not leak out of the public functions: keep the exact type name
        return ("tuple", type(x).__name__, tuple(enc(v) for v in x))
    if isinstance(x, list):
        return ("list", tuple(enc(v) for v in x))
    if isinstance(x, dict):
        return ("dict", tuple((repr(k), enc(x[k])) for k in sorted(x, key=repr)))
    if isinstance(x, BaseException):
        return ("exc", type(x).__name__)
    if callable(x):
        return ("callable", getattr(x, "__name__", "?"))
    return ("repr", type(x).__name__, repr(x))


def state(obj):
    return enc(dict(vars(obj)))


def call(fn, *args, **kwargs):
    """result (or exception type) plus the warnings raised"""
    with warnings.catch_warnings(record=True) as wlist:
        warnings.simplefilter("always")
        try:
            res = enc(fn(*args, **kwargs))
        except Exception as e:  # noqa
            res = enc(e)
    return res, tuple(sorted((w.category.__name__, str(w.message)) for w in wlist))


# --------------------------------------------------------------------------------------
# the battery
# --------------------------------------------------------------------------------------
def make_records(np):
    rng = np.random.RandomState(20260926)
    recs = []

    def add(name, vals):
        recs.append((name, vals))

    for n in (1, 2, 3, 4, 5, 8, 17, 100, 1000, 4096):
        t = np.arange(n)
        add("gauss%d" % n, rng.randn(n))
        add("env%d" % n, rng.randn(n) * np.exp(-((t - 0.4 * n) / (0.2 * n + 1)) ** 2))
        add("small%d" % n, 0.05 * rng.randn(n))                # mostly below 0.01 g
        add("mid%d" % n, 0.6 * rng.randn(n) * np.sin(t / (n + 1.0) * np.pi))
        add("int%d" % n, rng.randint(-9, 10, size=n))
        add("int32_%d" % n, rng.randint(-300, 300, size=n).astype(np.int32))
        add("f32_%d" % n, rng.randn(n).astype(np.float32))
    add("int8", rng.randint(-11, 12, size=50).astype(np.int8))
    add("zeros1", np.zeros(1))
    add("zeros7", np.zeros(7))
    add("izeros", np.zeros(5, dtype=int))
    add("ones9", np.ones(9))
    add("const-", -2.5 * np.ones(20))
    add("spike_first", np.r_[3.0, np.zeros(10)])
    add("spike_last", np.r_[np.zeros(10), 3.0])
    add("spike_mid", np.r_[np.zeros(6), -3.0, np.zeros(6)])
    add("two_spikes", np.r_[np.zeros(3), 1.0, np.zeros(6), -1.0, np.zeros(4)])
    add("ramp", np.linspace(-1, 1, 31))
    add("tiny", 1e-160 * rng.randn(40))
    add("huge", 1e150 * rng.randn(40))
    add("tiny_g", 0.0979 * np.sin(np.arange(60.)))
    add("edge_g", np.r_[0.0, 0.098, 0.0980001, -0.49, 0.4900001, 0.98, -0.9800001, 0.0])
    base = rng.randn(200) * np.hanning(200)
    add("base", base)
    for k in (1, 3, 50):
        add("pre%d" % k, np.r_[np.zeros(k), base])
        add("post%d" % k, np.r_[base, np.zeros(k)])
    for c in (2.0, 0.5, -1.0, 1024.0, 1e-3, 3.7):
        add("scale%g" % c, c * base)
    add("empty", np.zeros(0))
    return recs


DTS = [0.01, 0.005, 1.0, 0.1, 1, 1.0 / 3.0, "f32", 2.5e-4]
FRACS = [(0.05, 0.95), (0.05, 0.75), (0.01, 0.99), (0.001, 0.999), (0.2, 0.8), (0.25, 0.5),
         (0.4999, 0.5001), (0.3, 0.3000001), (0.9, 0.99), (0.01, 0.02), (1e-12, 1 - 1e-12)]


def battery(np, eqsig):
    im = eqsig.im
    out = []
    rng = np.random.RandomState(7)
    recs = make_records(np)
    dts = [np.float32(0.02) if d == "f32" else d for d in DTS]
    fracs = FRACS + [tuple(sorted(rng.uniform(0.001, 0.999, size=2))) for _ in range(6)]

    def cum_sq(asig):
        return np.cumsum(asig.values ** 2)

    def cum_abs_dt(asig):
        return np.cumsum(abs(asig.values)) * asig.dt

    def signed_cum(asig):  # not monotone
        return np.cumsum(asig.values) + 0.0

    def int_measure(asig):
        return np.cumsum(np.abs(np.rint(3 * asig.values)).astype(np.int64))

    def f32_measure(asig):
        return np.cumsum(asig.values ** 2).astype(np.float32)

    def short_measure(asig):  # other length than the record
        return np.cumsum(asig.values[::2] ** 2)

    def list_measure(asig):
        return list(np.cumsum(asig.values ** 2))

    measures = [None, im.calc_arias_intensity, im.calc_cav, cum_sq, cum_abs_dt, signed_cum, int_measure,
                f32_measure, short_measure, list_measure]

    # ---------------- calc_sig_dur_vals (array variant) ----------------
    for ri, (name, vals) in enumerate(recs):
        for di, dt in enumerate(dts):
            if (ri + di) % 2 and len(vals) > 100:
                continue
            for fi, (lo, hi) in enumerate(fracs):
                for se in (False, True):
                    arg = vals.copy()
                    r = call(im.calc_sig_dur_vals, arg, dt, start=lo, end=hi, se=se)
                    out.append((("sdv", name, di, fi, se), r, enc(arg)))
            # defaults / positional / truthy se values
            arg = vals.copy()
            out.append((("sdv-def", name, di), call(im.calc_sig_dur_vals, arg, dt), enc(arg)))
            out.append((("sdv-pos", name, di), call(im.calc_sig_dur_vals, arg, dt, 0.1, 0.9, 1), enc(arg)))
            out.append((("sdv-se0", name, di), call(im.calc_sig_dur_vals, arg, dt, 0.1, 0.9, 0), enc(arg)))
        # lists are not squared by `**`: same exception expected
        lst = [float(v) for v in vals[:20]]
        out.append((("sdv-list", name), call(im.calc_sig_dur_vals, lst, 0.01), enc(lst)))
        # the deprecated alias
        out.append((("sdv-old", name), call(im.calc_significant_duration, vals.copy(), 0.01, 0.05, 0.95)))

    # ---------------- calc_sig_dur / calc_brac_dur on objects ----------------
    for ri, (name, vals) in enumerate(recs):
        for di, dt in enumerate(dts):
            if (ri + di) % 3 and len(vals) > 100:
                continue
            try:
                src = vals.tolist() if (ri + di) % 4 == 0 else vals.copy()   # lists as well as arrays
                asig = eqsig.AccSignal(src, dt)
            except Exception as e:  # noqa
                out.append((("ctor", name, di), enc(e)))
                continue
            st0 = state(asig)
            for mi, meas in enumerate(measures):
                for fi, (lo, hi) in enumerate(fracs):
                    if (fi + mi + ri) % 3 and mi > 1:
                        continue
                    for se in (False, True):
                        if meas is None and fi % 2:
                            r = call(im.calc_sig_dur, asig, lo, hi, se=se)
                        else:
                            r = call(im.calc_sig_dur, asig, start=lo, end=hi, im=meas, se=se)
                        out.append((("sd", name, di, mi, fi, se), r))
            out.append((("sd-def", name, di), call(im.calc_sig_dur, asig)))
            out.append((("sd-state", name, di), st0 == state(asig), state(asig)))

            a = abs(np.asarray(vals, dtype=float))
            thr = [0, 0.0, 1e-300, 0.098, 0.49, 0.98, 1e300, float("inf"), 1, np.float32(0.3), -1.0]
            if len(a):
                thr += [float(a.max()), float(a.max()) * (1 + 1e-15), float(a.max()) * (1 - 1e-15), float(a.min()),
                        float(np.median(a))] + [float(q) for q in np.quantile(a, [0.1, 0.5, 0.9, 0.99])]
            for ti, th in enumerate(thr):
                out.append((("bd", name, di, ti), call(im.calc_brac_dur, asig, th)))
                out.append((("bd-se", name, di, ti), call(im.calc_brac_dur, asig, th, se=True)))
                out.append((("bd-pos", name, di, ti), call(im.calc_brac_dur, asig, th, 1)))
            out.append((("bd-old", name, di), call(im.calc_bracketed_duration, asig, 0.1)))
            # scaled together
            if len(a):
                for c in (2.0, 0.37):
                    sc = eqsig.AccSignal(c * np.asarray(vals), dt)
                    out.append((("bd-scaled", name, di, c), call(im.calc_brac_dur, sc, c * float(np.median(a))),
                                call(im.calc_brac_dur, sc, c * float(np.median(a)), se=True)))
            out.append((("bd-state", name, di), st0 == state(asig), state(asig)))

    # ---------------- multi-step histories on one object ----------------
    for seed in range(12):
        r2 = np.random.RandomState(100 + seed)
        n = int(r2.choice([6, 40, 333, 1500]))
        dt = float(r2.choice([0.01, 0.02, 0.005]))
        asig = eqsig.AccSignal(r2.randn(n) * np.hanning(n + 2)[1:-1], dt, label="h%d" % seed)
        hist = []

        def snap(tag):
            hist.append((tag, call(im.calc_sig_dur, asig), call(im.calc_sig_dur, asig, 0.1, 0.8, se=True),
                         call(im.calc_sig_dur, asig, im=im.calc_cav, se=True),
                         call(im.calc_sig_dur_vals, asig.values, asig.dt, se=True),
                         call(im.calc_brac_dur, asig, 0.2), call(im.calc_brac_dur, asig, 0.2, se=True),
                         call(im.calc_brac_dur, asig, 50.0, se=True), asig.npts, state(asig)))

        snap("new")
        _ = asig.velocity
        _ = asig.pga
        snap("after-lazy")
        asig.reset_values(np.r_[np.zeros(7), asig.values])
        snap("prepended")
        asig.reset_values(asig.values * 3.0)
        snap("scaled")
        asig.remove_average()
        snap("remove_average")
        asig.add_constant(0.01)
        snap("add_constant")
        asig.reset_values(asig.values[: max(2, n // 2)])
        snap("shortened")
        if asig.npts > 40:
            asig.butter_pass([0.5, 20.0])
        snap("filtered")
        asig.reset_values((asig.values * 40).astype(int))
        snap("integer")
        asig.reset_values(np.zeros(5))
        snap("zeros")
        out.append((("history", seed), tuple(hist)))

    # ---------------- deprecated AccSignal.generate_duration_stats ----------------
    def dur_stats(tag):
        for ri, (name, vals) in enumerate(recs):
            for dt in (0.01, 0.005, 1, np.float32(0.02)):
                try:
                    asig = eqsig.AccSignal(vals.copy(), dt)
                except Exception as e:  # noqa
                    out.append(((tag, "ctor", name), enc(e)))
                    continue
                r1 = call(asig.generate_duration_stats)
                s1 = state(asig)
                asig.reset_values(np.asarray(vals) * 0.01)   # everything below 0.01 g for most records
                r2 = call(asig.generate_duration_stats)
                s2 = state(asig)
                r3 = call(asig.generate_all_motion_stats)
                s3 = state(asig)
                out.append(((tag, name, repr(dt)), r1, s1, r2, s2, r3, s3))

    dur_stats("gds")
    if not hasattr(np, "trapz"):
        # numpy >= 2.4 dropped np.trapz, which makes the method stop at the first bracketed level that is
        # exceeded; with the old name restored (for BOTH packages) the whole method is exercised
        np.trapz = np.trapezoid
        dur_stats("gds-trapz")
        del np.trapz
    return out


def worker(root, dest):
    sys.path.insert(0, root)
    import numpy as np
    import eqsig
    import eqsig.im
    assert os.path.realpath(eqsig.__file__).startswith(os.path.realpath(root) + os.sep), (eqsig.__file__, root)
    np.seterr(all="warn")
    res = battery(np, eqsig)
    with open(dest, "wb") as f:
        pickle.dump(res, f, protocol=4)


def main():
    here = os.getcwd()
    assert os.path.isdir(os.path.join(here, "eqsig")) and os.path.exists(os.path.join(here, ".git")), \
        "run from the worktree"
    tmp = tempfile.mkdtemp(prefix="c10_equiv%s_" % TWIN, dir="/tmp")
    try:
        orig = os.path.join(tmp, "orig")
        os.mkdir(orig)
        subprocess.check_call("git archive HEAD eqsig | tar -x -C %s" % orig, shell=True, cwd=here)
        # the edit must actually be applied, otherwise the comparison is vacuous
        changed = subprocess.run(["git", "diff", "--quiet", "HEAD", "--", "eqsig"], cwd=here).returncode != 0
        if not changed:
            print("WARNING: worktree eqsig/ is identical to HEAD - is twin %s applied?" % TWIN)
        env = dict(os.environ, PYTHONDONTWRITEBYTECODE="1")
        env.pop("PYTHONPATH", None)
        files = {}
        for tag, root in (("orig", orig), ("edit", here)):
            files[tag] = os.path.join(tmp, tag + ".pkl")
            subprocess.check_call([sys.executable, os.path.abspath(__file__), "--worker", root, files[tag]],
                                  cwd=root, env=env)
        with open(files["orig"], "rb") as f:
            a = pickle.load(f)
        with open(files["edit"], "rb") as f:
            b = pickle.load(f)
    finally:
        shutil.rmtree(tmp, ignore_errors=True)
    bad = 0
    if len(a) != len(b):
        print("different number of cases", len(a), len(b))
        bad += 1
    for x, y in zip(a, b):
        if x != y:
            bad += 1
            if bad <= 10:
                print("MISMATCH", x[0])
                print("   orig:", repr(x[1:])[:600])
                print("   edit:", repr(y[1:])[:600])
    n_exc = sum(1 for x in a if len(x) > 1 and isinstance(x[1], tuple) and x[1] and isinstance(x[1][0], tuple)
                and x[1][0][:1] == ("exc",))
    print("twin %s: %d cases compared (%d of them raise in the original), %d mismatches" % (TWIN, len(a), n_exc, bad))
    return 1 if bad else 0


if __name__ == "__main__":
    if len(sys.argv) == 4 and sys.argv[1] == "--worker":
        worker(sys.argv[2], sys.argv[3])
        sys.exit(0)
    sys.exit(main())

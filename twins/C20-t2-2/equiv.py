"""
Equivalence check for twin2 (design_spectra.c_h_factor: loop over the periods directly, collect the factors in a list,
unwrap the single-period result after the loop; design_spectra.t_eff: branch only selects the corner constant, the
corner displacement formula is written once).

Run with twin2 applied and cwd = the worktree:  /venv/bin/python out/equiv2.py
The ORIGINAL package is extracted from git HEAD into a temporary directory; the same deterministic list of
calls is evaluated in two sub-processes (original / edited) and the encoded outcomes (bit patterns, dtypes, shapes,
exceptions, warnings, printed text, state of the arguments after the call) are compared for exact equality.
"""
import copy
import contextlib
import io
import os
import pickle
import struct
import subprocess
import sys
import tempfile
import warnings

HERE = os.getcwd()


# ---------------------------------------------------------------- encoding
def enc(o):
    import numpy as np
    if isinstance(o, np.ndarray):
        return ('nd', str(o.dtype), o.shape, np.ascontiguousarray(o).tobytes())
    if isinstance(o, np.generic):
        return ('ng', type(o).__name__, str(o.dtype), o.tobytes())
    if isinstance(o, bool) or o is None or isinstance(o, (int, str)):
        return ('py', type(o).__name__, repr(o))
    if isinstance(o, float):
        return ('f', struct.pack('d', o))
    if isinstance(o, (tuple, list)):
        return (type(o).__name__, [enc(i) for i in o])
    if isinstance(o, range):
        return ('range', repr(o))
    if isinstance(o, dict):
        return ('dict', [(k, enc(v)) for k, v in sorted(o.items())])
    raise TypeError(type(o))


def call(fn, *args, **kwargs):
    args = copy.deepcopy(args)
    kwargs = copy.deepcopy(kwargs)
    before = enc([list(args), kwargs])
    buf = io.StringIO()
    with warnings.catch_warnings(record=True) as wlist, contextlib.redirect_stdout(buf):
        warnings.simplefilter('always')
        try:
            res = ('ok', enc(fn(*args, **kwargs)))
        except Exception as e:  # noqa
            res = ('exc', type(e).__name__, str(e))
    after = enc([list(args), kwargs])
    wl = sorted((w.category.__name__, str(w.message)) for w in wlist)
    return {'res': res, 'args_after': after, 'mutated': before != after, 'stdout': buf.getvalue(), 'warnings': wl}


# ---------------------------------------------------------------- cases
def cases():
    import numpy as np
    import eqsig
    from eqsig import design_spectra as ds
    out = []

    def add(label, fn, *a, **k):
        out.append((label, call(fn, *a, **k)))

    rng = np.random.RandomState(2020)
    bounds = [0.0, 0.1, 0.3, 0.56, 1.0, 1.5, 3.0]
    pts = set(bounds)
    for b in bounds:
        pts.add(float(np.nextafter(b, np.inf)))
        if b > 0:
            pts.add(float(np.nextafter(b, -np.inf)))
    pts.update([5e-324, 1e-300, 1e-12, 0.05, 0.2, 0.4, 0.7, 1.2, 2.0, 2.999, 4.0, 10.0, 1e6, 1e200, float('inf')])
    pts.update(float(v) for v in rng.uniform(0, 6, size=300))
    pts.update(float(v) for v in 10 ** rng.uniform(-6, 2, size=100))
    pts = sorted(pts)
    site_classes = ['C', 'D', 'E']

    # --- c_h_factor: scalars
    for sc in site_classes:
        for i, t in enumerate(pts):
            add('ch-float-%s-%i' % (sc, i), ds.c_h_factor, t, sc)
            add('ch-npfloat-%s-%i' % (sc, i), ds.c_h_factor, np.float64(t), site_class=sc)
            add('ch-list1-%s-%i' % (sc, i), ds.c_h_factor, [t], sc)
    for i, t in enumerate(pts[:40]):
        add('ch-default-%i' % i, ds.c_h_factor, t)
        add('ch-default-kw-%i' % i, ds.c_h_factor, period=t)
        add('ch-eqsig-%i' % i, eqsig.design_spectra.c_h_factor, t, 'D')
    add('ch-nan-float', ds.c_h_factor, float('nan'), 'C')
    add('ch-nan-list', ds.c_h_factor, [0.5, float('nan'), 2.0], 'D')
    # --- c_h_factor: sequences
    seqs = [('all-list', list(pts)), ('all-tuple', tuple(pts)), ('all-array', np.array(pts)),
            ('all-rev', np.array(pts)[::-1]), ('strided', np.array(pts)[::3]),
            ('empty-list', []), ('empty-array', np.array([])), ('empty-tuple', ()),
            ('int-list', [0, 1, 2, 3, 4, 7]), ('int-array', np.array([0, 1, 2, 3, 4, 7])),
            ('int32-array', np.array([0, 1, 2, 3, 4, 7], dtype=np.int32)),
            ('uint8-array', np.array([0, 1, 2, 3, 4, 7], dtype=np.uint8)),
            ('range', range(0, 6)), ('mixed', [0, 0.05, np.float64(0.2), 1, np.float32(1.25), 2.5, 3, 30.0]),
            ('f32-array', np.array(pts[:200], dtype=np.float32)),
            ('f16-array', np.array([0, 0.05, 0.2, 0.5, 1.2, 2.0, 5.0], dtype=np.float16)),
            ('bool-list', [True, False]), ('linspace', np.linspace(0, 5, 501)), ('zeros', np.zeros(4)),
            ('one', np.array([0.7])), ('two', [0.0, 3.0])]
    for n in [1, 2, 3, 10, 100]:
        seqs.append(('rand%i' % n, rng.uniform(0, 5, size=n)))
        seqs.append(('randlist%i' % n, list(rng.uniform(0, 5, size=n))))
    for name, seq in seqs:
        for sc in site_classes:
            add('ch-seq-%s-%s' % (name, sc), ds.c_h_factor, seq, sc)
        add('ch-seq-%s-default' % name, ds.c_h_factor, seq)
    # --- c_h_factor: invalid inputs (same exception, same printed text expected)
    for sc in ['A', 'c', '', None, 1]:
        add('ch-badsc-float-%r' % (sc,), ds.c_h_factor, 0.5, sc)
        add('ch-badsc-list-%r' % (sc,), ds.c_h_factor, [0.5, 1.0], sc)
        add('ch-badsc-empty-%r' % (sc,), ds.c_h_factor, [], sc)
        add('ch-badsc-neg-%r' % (sc,), ds.c_h_factor, [-0.5, 1.0], sc)
        add('ch-badsc-neglater-%r' % (sc,), ds.c_h_factor, [0.5, -1.0], sc)
    for sc in site_classes:
        add('ch-neg-float-%s' % sc, ds.c_h_factor, -0.1, sc)
        add('ch-neg-first-%s' % sc, ds.c_h_factor, [-0.1, 0.2], sc)
        add('ch-neg-last-%s' % sc, ds.c_h_factor, np.array([0.1, 0.2, -1e-300]), sc)
        add('ch-negzero-%s' % sc, ds.c_h_factor, [-0.0, 0.0], sc)
        add('ch-negzero-float-%s' % sc, ds.c_h_factor, -0.0, sc)
        add('ch-pyint-%s' % sc, ds.c_h_factor, 1, sc)
        add('ch-pyint0-%s' % sc, ds.c_h_factor, 0, sc)
        add('ch-npint-%s' % sc, ds.c_h_factor, np.int64(2), sc)
        add('ch-none-%s' % sc, ds.c_h_factor, None, sc)
        add('ch-f32scalar-%s' % sc, ds.c_h_factor, np.float32(0.5), sc)
        add('ch-0d-%s' % sc, ds.c_h_factor, np.array(0.5), sc)
        add('ch-str-%s' % sc, ds.c_h_factor, 'ab', sc)

    # --- t_eff
    for sc in site_classes:
        coef = {'C': 3.96, 'D': 6.42, 'E': 9.96}[sc]
        for j in range(150):
            z = float(rng.choice([0.13, 0.2, 0.3, 0.4, 0.6, rng.uniform(0.05, 1.0)]))
            r = float(rng.choice([0.25, 0.5, 1.0, 1.3, 1.8, rng.uniform(0.2, 2.0)]))
            n = float(rng.choice([1.0, 1.0, 1.2, rng.uniform(1.0, 1.8)]))
            d_c = coef * z * r * n / (2 * np.pi) ** 2 * 9.81
            disps = [0.0, d_c, float(np.nextafter(d_c, 0)), float(np.nextafter(d_c, np.inf)), 0.5 * d_c,
                     float(rng.uniform(0, d_c)), float(rng.uniform(0, d_c)), 2 * d_c, 1e-12, -0.1]
            for k, d in enumerate(disps):
                add('teff-%s-%i-%i' % (sc, j, k), ds.t_eff, d, sc, z, r, n)
            add('teff-np-%s-%i' % (sc, j), ds.t_eff, np.float64(disps[5]), sc, np.float64(z), np.float32(r),
                np.float64(n))
            add('teff-kw-%s-%i' % (sc, j), ds.t_eff, displacement=disps[6], site_class=sc, z_factor=z, r_factor=r,
                n_factor=n)
        add('teff-int-%s' % sc, ds.t_eff, 0, sc, 1, 1, 1)
        add('teff-int2-%s' % sc, ds.t_eff, 1, sc, 2, 3, 1)
        add('teff-nan-%s' % sc, ds.t_eff, float('nan'), sc, 0.4, 1.0, 1.0)
        add('teff-zeroz-%s' % sc, ds.t_eff, 0.0, sc, 0.0, 1.0, 1.0)
        add('teff-arr-z-%s' % sc, ds.t_eff, 0.01, sc, np.array([0.4]), 1.0, 1.0)
        add('teff-arr-d-%s' % sc, ds.t_eff, np.array([0.01]), sc, 0.4, 1.0, 1.0)
        add('teff-arr2-%s' % sc, ds.t_eff, np.array([0.01, 0.02]), sc, 0.4, 1.0, 1.0)
    for sc in ['A', 'c', '', None]:
        add('teff-badsc-%r' % (sc,), ds.t_eff, 0.1, sc, 0.4, 1.0, 1.0)
        add('teff-badsc-big-%r' % (sc,), ds.t_eff, 1e9, sc, 0.4, 1.0, 1.0)

    # --- the untouched sibling and the relations of the property, evaluated with this copy of the package
    for sc in site_classes:
        for i, t in enumerate(pts):
            add('sd-%s-%i' % (sc, i), ds.sd_nzs, t, sc, 0.4, 1.0, 1.0)

        def relation(t, sc=sc):
            z, r, n = 0.4, 1.3, 1.1
            sd = ds.sd_nzs(t, sc, z, r, n)
            ch = ds.c_h_factor(t, sc)
            return [sd, ch * t ** 2 * z * n * r]
        for i, t in enumerate(pts[:-3]):
            add('rel-%s-%i' % (sc, i), relation, t)

        def roundtrip(d, sc=sc):
            z, r, n = 0.4, 1.3, 1.1
            t = ds.t_eff(d, sc, z, r, n)
            return [t, ds.sd_nzs(t, sc, z, r, n) / (2 * np.pi) ** 2 * 9.81]
        for i, d in enumerate(rng.uniform(0, 0.4, size=30)):
            add('rt-%s-%i' % (sc, i), roundtrip, float(d))
    return out


def worker(path, outfile):
    sys.path.insert(0, path)
    os.chdir(path)
    import eqsig
    assert os.path.realpath(eqsig.__file__).startswith(os.path.realpath(path)), (eqsig.__file__, path)
    with open(outfile, 'wb') as f:
        pickle.dump(cases(), f)


def run_worker(path, outfile):
    env = dict(os.environ)
    env.pop('PYTHONPATH', None)
    subprocess.run([sys.executable, os.path.abspath(__file__), '--worker', path, outfile], check=True, env=env,
                   cwd=path)
    with open(outfile, 'rb') as f:
        return pickle.load(f)


def main():
    tmp = tempfile.mkdtemp(prefix='equiv2_C20_', dir='/tmp')
    orig = os.path.join(tmp, 'orig')
    os.makedirs(orig)
    subprocess.run('git archive HEAD eqsig | tar -x -C "%s"' % orig, shell=True, check=True, cwd=HERE)
    assert os.path.exists(os.path.join(orig, 'eqsig', 'design_spectra.py'))
    # make sure the edit under test is really applied here and absent in the original
    assert 'ch_t2_corner' in open(os.path.join(HERE, 'eqsig', 'design_spectra.py')).read(), 'twin2 not applied'
    assert 'ch_t2_corner' not in open(os.path.join(orig, 'eqsig', 'design_spectra.py')).read()
    r_orig = run_worker(orig, os.path.join(tmp, 'orig.pkl'))
    r_new = run_worker(HERE, os.path.join(tmp, 'new.pkl'))
    assert len(r_orig) == len(r_new) and len(r_orig) > 1000
    bad = 0
    n_ok = 0
    n_exc = 0
    # a period that is neither a float nor a sized sequence is outside the domain: both versions raise TypeError,
    # but the text names the operation that failed first (len() before, iteration now)
    type_only = ('ch-pyint', 'ch-npint', 'ch-none', 'ch-0d', 'ch-f32scalar')
    for (la, a), (lb, b) in zip(r_orig, r_new):
        assert la == lb
        assert not a['mutated'] and not b['mutated'], la
        if la.startswith(type_only):
            same = (a['res'][0] == b['res'][0] == 'exc') and a['res'][1] == b['res'][1] == 'TypeError' and \
                a['args_after'] == b['args_after'] and a['stdout'] == b['stdout']
        else:
            # everything: values (bit patterns), types, exception type + text, printed text, warnings, arguments
            same = (a == b)
        if a['res'][0] == 'ok':
            n_ok += 1
        else:
            n_exc += 1
        if not same:
            bad += 1
            if bad < 10:
                print('MISMATCH', la, a['res'][:3] if a['res'][0] == 'exc' else a['res'][1][:3],
                      b['res'][:3] if b['res'][0] == 'exc' else b['res'][1][:3])
    print('cases: %i (returned: %i, raised: %i), mismatches: %i' % (len(r_orig), n_ok, n_exc, bad))
    return 1 if bad else 0


if __name__ == '__main__':
    if len(sys.argv) > 1 and sys.argv[1] == '--worker':
        worker(sys.argv[2], sys.argv[3])
    else:
        sys.exit(main())

"""
Equivalence check for twin2 (run with twin2.diff applied, cwd = the worktree).

Edited: eqsig/fns/frequency.py  generate_fa_spectrum, calc_fa_spectrum (+ new private helper _one_sided_fa_spectrum)

The original package is exported from git (HEAD) into a temp dir under /tmp and imported as a second,
independent set of module objects; original and edited are then compared on many inputs.
Exit status 0 iff everything matches.
"""
import importlib
import io
import os
import shutil
import subprocess
import sys
import tarfile
import tempfile
import warnings

import numpy as np

HERE = os.getcwd()
assert os.path.isdir(os.path.join(HERE, 'eqsig')), 'run with cwd = the worktree'


def _purge():
    for k in [k for k in sys.modules if k == 'eqsig' or k.startswith('eqsig.')]:
        del sys.modules[k]


def load_pkg(root):
    """Imports the eqsig package found under `root` as a fresh set of modules; returns {name: module}"""
    _purge()
    sys.path.insert(0, root)
    try:
        importlib.invalidate_caches()
        import eqsig
        import eqsig.single
        import eqsig.im
        import eqsig.fns.frequency
        assert os.path.realpath(eqsig.__file__).startswith(os.path.realpath(root) + os.sep), eqsig.__file__
        mods = {k: v for k, v in sys.modules.items() if k == 'eqsig' or k.startswith('eqsig.')}
    finally:
        sys.path.remove(root)
    _purge()
    return mods


class using(object):
    """Installs one set of package modules in sys.modules (for the lazy imports done inside functions)"""

    def __init__(self, mods):
        self.mods = mods

    def __enter__(self):
        _purge()
        sys.modules.update(self.mods)

    def __exit__(self, *args):
        _purge()


tmp = tempfile.mkdtemp(prefix='eqsig_orig_', dir='/tmp')
try:
    tar_bytes = subprocess.check_output(['git', 'archive', 'HEAD', 'eqsig'], cwd=HERE)
    tarfile.open(fileobj=io.BytesIO(tar_bytes)).extractall(tmp)
    ORIG = load_pkg(tmp)
    NEW = load_pkg(HERE)
finally:
    pass

# the module under test really differs, the other really is the git version
src_new = open(os.path.join(HERE, 'eqsig', 'fns', 'frequency.py')).read()
src_orig = subprocess.check_output(['git', 'show', 'HEAD:eqsig/fns/frequency.py'], cwd=HERE).decode()
assert src_new != src_orig, 'twin2 is not applied'
assert open(os.path.join(tmp, 'eqsig', 'fns', 'frequency.py')).read() == src_orig
FO = ORIG['eqsig.fns.frequency']
FN = NEW['eqsig.fns.frequency']
assert FO is not FN and '_one_sided_fa_spectrum' in vars(FN) and '_one_sided_fa_spectrum' not in vars(FO)

# public names of the module and of the packages that star-import it are unchanged
for name in ('eqsig.fns.frequency', 'eqsig.fns', 'eqsig'):
    pub_o = sorted(k for k in vars(ORIG[name]) if not k.startswith('_'))
    pub_n = sorted(k for k in vars(NEW[name]) if not k.startswith('_'))
    assert pub_o == pub_n, (name, set(pub_o) ^ set(pub_n))
import inspect
for fname in ('generate_fa_spectrum', 'calc_fa_spectrum'):
    assert str(inspect.signature(getattr(FO, fname))) == str(inspect.signature(getattr(FN, fname)))
    assert getattr(FO, fname).__doc__ == getattr(FN, fname).__doc__

n_checks = 0


def same(a, b, what):
    """bit-for-bit equality incl. type, dtype and shape"""
    global n_checks
    n_checks += 1
    assert type(a) is type(b), (what, type(a), type(b))
    if isinstance(a, np.ndarray):
        assert a.dtype == b.dtype, (what, a.dtype, b.dtype)
        assert a.shape == b.shape, (what, a.shape, b.shape)
        assert np.array_equal(a, b, equal_nan=True), (what, a, b)
        assert a.tobytes() == b.tobytes(), what
        assert a.flags.owndata == b.flags.owndata and a.flags.writeable == b.flags.writeable, what
    elif isinstance(a, tuple):
        assert len(a) == len(b), what
        for i, (x, y) in enumerate(zip(a, b)):
            same(x, y, (what, i))
    elif isinstance(a, (float, np.floating)):
        assert (a == b) or (np.isnan(a) and np.isnan(b)), (what, a, b)
    else:
        assert a == b, (what, a, b)


STATE = ('_fa_spectrum', '_fa_freqs', '_cached_fa', '_cached_smooth_fa', '_values', '_npts', '_dt',
         '_smooth_fa_freqs', '_smooth_fa_spectrum')


def same_state(so, sn, what):
    for att in STATE:
        same(getattr(so, att), getattr(sn, att), (what, att))
    assert set(so.__dict__) == set(sn.__dict__), (what, set(so.__dict__) ^ set(sn.__dict__))


def outcome(f, *args, **kwargs):
    try:
        return 'ok', f(*args, **kwargs)
    except Exception as e:  # noqa
        return 'exc', (type(e).__name__, str(e))


def compare_call(fname, sig_o, sig_n, args, kwargs, what, must_be_ok=True):
    if isinstance(sig_o, Rec):
        del sig_o.log[:], sig_n.log[:]
    ro = outcome(getattr(FO, fname), sig_o, *args, **kwargs)
    rn = outcome(getattr(FN, fname), sig_n, *args, **kwargs)
    assert ro[0] == rn[0], (what, ro, rn)
    if isinstance(sig_o, Rec):
        assert sig_o.log == sig_n.log, (what, sig_o.log, sig_n.log)  # same attribute reads in the same order
    if must_be_ok:
        assert ro[0] == 'ok', (what, ro)
    if ro[0] == 'ok':
        assert isinstance(ro[1], tuple) and len(ro[1]) == 2
        same(ro[1], rn[1], what)
        assert not np.shares_memory(rn[1][0], np.asarray(sig_n.values))
    else:
        assert ro[1] == rn[1], (what, ro, rn)  # same exception type and message
    return ro


class Rec(object):
    """duck-typed record: the functions only read .npts, .values and .dt; reads are logged"""

    def __init__(self, values, dt, npts=None):
        self._v = values
        self._dt = dt
        self._n = len(values) if npts is None else npts
        self.log = []

    @property
    def values(self):
        self.log.append('values')
        return self._v

    @property
    def dt(self):
        self.log.append('dt')
        return self._dt

    @property
    def npts(self):
        self.log.append('npts')
        return self._n


rng = np.random.RandomState(6062)
warnings.simplefilter('ignore')

lengths = list(range(2, 70)) + [100, 127, 128, 129, 255, 256, 257, 500, 1000, 1023, 1024, 1025, 4096, 5000]
dts = [0.01, 0.005, 0.02, 0.1, 1.0, 0.0078125, 1. / 3, 2, np.float64(0.004), np.float32(0.01)]


def record(npts, flavour):
    if flavour == 'normal':
        return rng.randn(npts)
    if flavour == 'list':
        return list(rng.randn(npts))
    if flavour == 'int':
        return rng.randint(-50, 50, size=npts)
    if flavour == 'intlist':
        return [int(v) for v in rng.randint(-50, 50, size=npts)]
    if flavour == 'zeros':
        return np.zeros(npts)
    if flavour == 'trailing_zeros':
        v = rng.randn(npts)
        v[npts // 2:] = 0
        return v
    if flavour == 'float32':
        return rng.randn(npts).astype(np.float32)
    if flavour == 'complex':
        return rng.randn(npts) + 1j * rng.randn(npts)
    if flavour == 'const':
        return np.ones(npts) * 3.5
    raise ValueError(flavour)


flavours = ['normal', 'list', 'int', 'intlist', 'zeros', 'trailing_zeros', 'float32', 'complex', 'const']

GEN_CALLS = [((), {}), ((True,), {}), ((False,), {}), ((), {'n_pad': True}), ((), {'n_pad': False}), ((0,), {}), ((1,), {}),
             ((None,), {}), (('',), {}), (('yes',), {}), ((np.bool_(False),), {}), ((np.bool_(True),), {})]

for npts in lengths:
    for iflav, flavour in enumerate(flavours):
        if npts > 300 and flavour in ('list', 'intlist') and npts not in (1000, 1024):
            continue
        values = record(npts, flavour)
        keep = np.array(values).copy()
        dt = dts[(npts + iflav) % len(dts)]
        calc_calls = [((), {}), ((None,), {}), ((None, None), {}), ((), {'n': None, 'p2_plus': None})]
        for p in (0, 1, 2, 3, np.int64(1), 2.0, True, False):
            calc_calls.append(((), {'p2_plus': p}))
            calc_calls.append(((None, p), {}))
        for n in (npts, npts + 1, npts + 7, 2 * npts, 2 * npts + 1, 3 * npts, max(npts - 1, 1), max(npts // 2, 1), 1, 2, 3,
                  64, 2 ** int(np.ceil(np.log2(npts))), np.int64(2 * npts), np.int32(npts + 3)):
            calc_calls.append(((), {'n': n}))
            calc_calls.append(((n,), {}))
            calc_calls.append(((n,), {'p2_plus': 2}))   # n wins over p2_plus
            calc_calls.append(((), {'p2_plus': 0, 'n': n}))
        sigs = []
        for kind in ('Signal', 'AccSignal', 'Rec'):
            if kind == 'Rec':
                sigs.append((kind, Rec(values, dt), Rec(values, dt)))
            else:
                sigs.append((kind, getattr(ORIG['eqsig.single'], kind)(values, dt), getattr(NEW['eqsig.single'], kind)(values, dt)))
        for kind, so, sn in sigs:
            if kind != 'Rec' and flavour not in ('normal', 'int', 'list') and npts > 40:
                continue
            for args, kwargs in GEN_CALLS:
                compare_call('generate_fa_spectrum', so, sn, args, kwargs, (npts, flavour, kind, 'gen', args, kwargs))
            for args, kwargs in calc_calls:
                compare_call('calc_fa_spectrum', so, sn, args, kwargs, (npts, flavour, kind, 'calc', args, kwargs))
            if kind == 'Rec':
                # values/npts/dt were read only (not modified)
                assert so._v is values and sn._v is values
            else:
                # array-level functions leave the object alone (nothing cached)
                same_state(so, sn, (npts, flavour, kind))
                assert so._cached_fa is False and sn._cached_fa is False
                assert so._fa_spectrum is None and sn._fa_spectrum is None
            assert np.array_equal(np.array(values), keep)

        # object-level and array-level agree, in the edited code exactly as in the original
        if flavour != 'complex':
            for mods, F in ((ORIG, FO), (NEW, FN)):
                s = mods['eqsig.single'].AccSignal(values, dt)
                fas, freqs = F.generate_fa_spectrum(s)
                assert np.array_equal(fas, s.fa_spectrum) and np.array_equal(freqs, s.fa_freqs)
                for p in (0, 1, 2, 3):
                    s.gen_fa_spectrum(p2_plus=p)
                    fas, freqs = F.calc_fa_spectrum(s, p2_plus=p)
                    assert np.array_equal(fas, s.fa_spectrum) and np.array_equal(freqs, s.fa_freqs)
                s.gen_fa_spectrum(n=npts + 5)
                fas, freqs = F.calc_fa_spectrum(s, n=npts + 5)
                assert np.array_equal(fas, s.fa_spectrum) and np.array_equal(freqs, s.fa_freqs)

# invalid inputs / options: same exception type and message (or same result)
bad_calls = [('calc_fa_spectrum', (), {'n': 0}), ('calc_fa_spectrum', (), {'n': -2}), ('calc_fa_spectrum', (), {'n': 8.0}),
             ('calc_fa_spectrum', (), {'n': '8'}), ('calc_fa_spectrum', (), {'p2_plus': '1'}), ('calc_fa_spectrum', (), {'p2_plus': -1}),
             ('calc_fa_spectrum', (), {'p2_plus': -10}), ('calc_fa_spectrum', (), {'p2_plus': 0.5}),
             ('generate_fa_spectrum', (), {}), ('generate_fa_spectrum', (False,), {}), ('calc_fa_spectrum', (), {})]
bad_recs = [lambda: Rec(np.arange(10.), 0.01), lambda: Rec(np.arange(10.), 0.01, npts=0), lambda: Rec(np.arange(10.), 0.01, npts=7),
            lambda: Rec(np.arange(10.), 0.01, npts=33), lambda: Rec([], 0.01), lambda: Rec([1.0], 0.01), lambda: Rec(np.ones((4, 6)), 0.01),
            lambda: Rec(np.ones((8, 8)), 0.01), lambda: Rec(np.arange(10.), 0), lambda: Rec(np.arange(10.), None),
            lambda: Rec(np.arange(10.), np.array([0.01, 0.02, 0.03, 0.04, 0.05, 0.06, 0.07, 0.08]))]
for fname, args, kwargs in bad_calls:
    for mk in bad_recs:
        ro_rec, rn_rec = mk(), mk()
        compare_call(fname, ro_rec, rn_rec, args, kwargs, ('bad', fname, args, kwargs), must_be_ok=False)

# the attribute reads on the record (checked for every Rec call above): e.g.
ro_rec, rn_rec = Rec(np.arange(10.), 0.01), Rec(np.arange(10.), 0.01)
FO.calc_fa_spectrum(ro_rec, p2_plus=1)
FN.calc_fa_spectrum(rn_rec, p2_plus=1)
assert ro_rec.log == rn_rec.log == ['npts', 'values', 'dt', 'dt'], (ro_rec.log, rn_rec.log)
FO.generate_fa_spectrum(ro_rec, False)
FN.generate_fa_spectrum(rn_rec, False)
assert ro_rec.log[4:] == rn_rec.log[4:] == ['npts', 'values', 'npts', 'dt', 'dt'], (ro_rec.log, rn_rec.log)

shutil.rmtree(tmp, ignore_errors=True)
print('equiv2: %i comparisons, all identical' % n_checks)
sys.exit(0)

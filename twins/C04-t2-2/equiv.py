#!/usr/bin/env python
"""
Equivalence check for twin 2 of property C04 (derived quantities of a signal never go stale).

Run with the twin applied, cwd = the worktree:

    cd /tmp/twin2/C04 && /venv/bin/python out/equiv2.py

The ORIGINAL package is extracted from git (`git archive HEAD eqsig`) into a temporary
directory under /tmp.  The same deterministic battery of histories is then executed in two
sub-processes, one importing the original package and one importing the edited package of the
worktree.  Each sub-process logs, after every single step of every history: the returned value
(or the exception type and message), the complete instance state (`vars(obj)`: values, caches,
validity flags, memo dict, ...), the memory-sharing relations between the stored arrays and the
state of the arguments after the call.  Every one of these observations is reduced to a SHA-256
digest of an exact serialisation (python type, dtype, shape and raw bytes of every array; type and
bits of every scalar; order of dict keys) next to a short readable summary, and the two logs must be
identical entry by entry, i.e. the results must agree bit-for-bit.

Exit status 0 iff everything matches.
"""
import hashlib
import os
import pickle
import shutil
import struct
import subprocess
import sys
import tempfile

TWIN = 2
# (file, text) that must be present in the edited tree and absent from the original tree
MARKERS = {
    1: [('eqsig/fns/average.py', 'def _fill_centred_window_means('),
        ('eqsig/single.py', '_fill_centred_window_means(mot, width, out=self._values)')],
    2: [('eqsig/single.py', 'super(AccSignal, self).clear_cache()'),
        ('eqsig/single.py', 'def _get_peak(')],
    3: [('eqsig/single.py', 'np.diff(disp)'),
        ('eqsig/single.py', 'fa[:points]')],
}[TWIN]


# --------------------------------------------------------------------------------------
#  worker: runs the battery against the package found under `root`
# --------------------------------------------------------------------------------------

def run_worker(root, outfile):
    sys.path.insert(0, root)
    import warnings
    warnings.simplefilter('ignore')
    warnings.showwarning = lambda *a, **k: None  # np.polyfit re-enables its RankWarning
    import itertools
    import numpy as np
    np.seterr(all='ignore')
    import eqsig
    import eqsig.single
    import eqsig.fns.average
    rroot = os.path.realpath(root) + os.sep
    for mod in (eqsig, eqsig.single, eqsig.fns.average):
        assert os.path.realpath(mod.__file__).startswith(rroot), (mod.__file__, root)

    log = []
    import time as _time
    t_start = [_time.time()]

    def lap(name):
        if os.environ.get('EQUIV_TIMING'):
            sys.stdout.write('%s: battery %s done, %.1f s, %i entries\n' % (root, name, _time.time() - t_start[0], len(log)))
            sys.stdout.flush()
        t_start[0] = _time.time()

    # ---------------------------------------------------------------- freezing of observations
    def freeze(x):
        if isinstance(x, np.ndarray):
            if x.dtype == object:
                return ('ndobj', x.shape, [freeze(v) for v in x.ravel().tolist()])
            return np.array(x, copy=True)
        if isinstance(x, np.generic):
            return x
        if isinstance(x, (bool, int, float, complex, str, bytes, type(None))):
            return x
        if isinstance(x, (list, tuple)):
            return (type(x).__name__, [freeze(v) for v in x])
        if isinstance(x, dict):
            return ('dict', [(repr(k), freeze(v)) for k, v in x.items()])
        if isinstance(x, eqsig.Signal):
            return ('signal', type(x).__name__, state(x))
        return ('obj', type(x).__module__, type(x).__name__)

    def ser(x, h):
        """exact serialisation of a frozen observation into the hash object h"""
        if isinstance(x, np.ndarray):
            h.update(('<nd %s %r>' % (x.dtype.str, x.shape)).encode())
            h.update(np.ascontiguousarray(x).tobytes())
        elif isinstance(x, np.generic):
            h.update(('<ng %s %s>' % (type(x).__name__, x.dtype.str)).encode())
            h.update(x.tobytes())
        elif isinstance(x, float):
            h.update(b'<float>' + struct.pack('<d', x))
        elif isinstance(x, complex):
            h.update(b'<complex>' + struct.pack('<dd', x.real, x.imag))
        elif isinstance(x, (list, tuple)):
            h.update(('<%s %i>' % (type(x).__name__, len(x))).encode())
            for v in x:
                ser(v, h)
            h.update(b'<end>')
        else:
            h.update(('<%s %r>' % (type(x).__name__, x)).encode())

    def digest(x):
        h = hashlib.sha256()
        ser(x, h)
        return h.hexdigest()

    def short(x):
        if isinstance(x, np.ndarray):
            return 'array %s %r %s' % (x.dtype, x.shape, np.array2string(x.ravel()[:4], precision=17))
        return repr(x)[:300]

    def state(sig):
        d = vars(sig)
        out = [(k, freeze(d[k])) for k in sorted(d)]
        arrs = [(k, d[k]) for k in sorted(d) if isinstance(d[k], np.ndarray)]
        share = [(a, b) for (a, va), (b, vb) in itertools.combinations(arrs, 2) if np.shares_memory(va, vb)]
        flags = [(k, bool(v.flags.writeable), bool(v.flags.owndata), bool(v.flags.c_contiguous)) for k, v in arrs]
        return ('state', type(sig).__name__, out, share, flags)

    def shares(sig, args):
        d = vars(sig)
        res = []
        for j, a in enumerate(args):
            if isinstance(a, eqsig.Signal):
                a = a._values
            if isinstance(a, np.ndarray):
                for k in sorted(d):
                    if isinstance(d[k], np.ndarray) and np.shares_memory(d[k], a):
                        res.append((j, k))
        return res

    def record(hist, label, res, st, args, shr):
        is_exc = res is not None and res[0] == 'exc'
        log.append((hist, label, is_exc, short(res[1:] if res is not None else None),
                    digest(res), digest(st), digest(args), digest(shr)))

    def step(hist, label, sig, fn, args=()):
        """executes fn(sig, *args) and logs result / exception, state and arguments afterwards"""
        try:
            res = ('ok', freeze(fn(sig, *args)))
        except Exception as e:  # noqa
            res = ('exc', type(e).__module__, type(e).__name__, str(e))
        record(hist, label, res, state(sig), freeze(list(args)), shares(sig, args))

    # ---------------------------------------------------------------- reads
    SIG_READS = ['values', 'dt', 'npts', 'time', 'fa_spectrum', 'fa_spectrum_abs', 'fa_frequencies', 'fa_freqs',
                 'smooth_fa_freqs', 'smooth_fa_frequencies', 'smooth_fa_spectrum', 'smooth_freq_range',
                 'smooth_freq_points', 'label', 'verbose', 'ccbox']
    ACC_READS = SIG_READS + ['response_times', 's_a', 's_v', 's_d', 'velocity', 'displacement', 'pga', 'pgv', 'pgd']

    def reader(name):
        return lambda s: getattr(s, name)

    def read_all(hist, sig, order=None):
        names = ACC_READS if isinstance(sig, eqsig.AccSignal) else SIG_READS
        if order is not None:
            names = [names[i] for i in order]
        for nm in names:
            step(hist, 'read ' + nm, sig, reader(nm))
            if isinstance(sig, eqsig.AccSignal) or nm in SIG_READS:
                pass
        # second pass: reads are idempotent
        for nm in names:
            step(hist, 'reread ' + nm, sig, reader(nm))

    # ---------------------------------------------------------------- records
    def records(rng):
        t = np.arange(160) * 0.01
        recs = [
            ('rand160', rng.standard_normal(160), 0.01),
            ('sine160', np.sin(2 * np.pi * 2.0 * t) * np.exp(-t) + 0.1, 0.01),
            ('rand37', rng.standard_normal(37), 0.02),
            ('rand64', rng.standard_normal(64) * 3.0, 0.005),
            ('list41', [float(v) for v in rng.standard_normal(41)], 0.01),
            ('int50', rng.integers(-9, 10, 50), 0.01),
            ('intlist33', [int(v) for v in rng.integers(-5, 6, 33)], 0.02),
            ('zeros40', np.zeros(40), 0.01),
            ('f32_48', rng.standard_normal(48).astype(np.float32), 0.01),
            ('short2', np.array([0.3, -0.2]), 0.01),
            ('short3', [1.0, -2.0, 0.5], 0.1),
            ('short5', np.array([0.0, 1.0, 0.0, -1.0, 0.0]), 0.05),
            ('one1', np.array([0.7]), 0.01),
            ('ramp31', np.linspace(-1, 2, 31), 0.01),
            ('big257', rng.standard_normal(257).cumsum() * 0.05, 0.01),
        ]
        return recs

    RT = np.array([0.05, 0.2, 0.5, 1.3])

    def make(cls, vals, dt, **kw):
        if isinstance(vals, np.ndarray):
            vals = vals.copy()
        else:
            vals = list(vals)
        if cls is eqsig.AccSignal:
            kw.setdefault('response_times', RT.copy())
        return cls(vals, dt, **kw), vals

    # ---------------------------------------------------------------- operations
    # each operation: (label, function(sig, *args), builder of args(sig, rng))
    def ops_common():
        o = []
        o.append(('reset_values arr', lambda s, a: s.reset_values(a), lambda s, r: (r.standard_normal(s.npts + 3),)))
        o.append(('reset_values list', lambda s, a: s.reset_values(a),
                  lambda s, r: ([float(v) for v in r.standard_normal(max(s.npts - 1, 2))],)))
        o.append(('reset_values int', lambda s, a: s.reset_values(a), lambda s, r: (r.integers(-4, 5, s.npts),)))
        o.append(('add_constant', lambda s, c: s.add_constant(c), lambda s, r: (0.37,)))
        o.append(('add_constant int', lambda s, c: s.add_constant(c), lambda s, r: (2,)))
        o.append(('add_series arr', lambda s, a: s.add_series(a), lambda s, r: (r.standard_normal(s.npts),)))
        o.append(('add_series list', lambda s, a: s.add_series(a),
                  lambda s, r: ([float(v) for v in r.standard_normal(s.npts)],)))
        o.append(('add_series badlen', lambda s, a: s.add_series(a), lambda s, r: (np.ones(s.npts + 1),)))
        o.append(('add_signal', lambda s, a: s.add_signal(a),
                  lambda s, r: (eqsig.Signal(r.standard_normal(s.npts), s.dt),)))
        o.append(('add_signal acc', lambda s, a: s.add_signal(a),
                  lambda s, r: (eqsig.AccSignal(r.standard_normal(s.npts), s.dt),)))
        o.append(('add_signal baddt', lambda s, a: s.add_signal(a),
                  lambda s, r: (eqsig.Signal(r.standard_normal(s.npts), s.dt * 2),)))
        o.append(('add_signal notsig', lambda s, a: s.add_signal(a), lambda s, r: (np.ones(s.npts),)))
        o.append(('butter band', lambda s: s.butter_pass(), lambda s, r: ()))
        o.append(('butter band list o2', lambda s: s.butter_pass([0.5, 12.0], filter_order=2), lambda s, r: ()))
        o.append(('butter band array', lambda s: s.butter_pass(np.array([0.3, 9.0]), filter_order=3),
                  lambda s, r: ()))
        o.append(('butter low', lambda s: s.butter_pass((None, 15)), lambda s, r: ()))
        o.append(('butter high', lambda s: s.butter_pass((0.2, None), filter_order=2), lambda s, r: ()))
        o.append(('butter gibbs start', lambda s: s.butter_pass((0.1, 15), remove_gibbs='start'), lambda s, r: ()))
        o.append(('butter gibbs end', lambda s: s.butter_pass((None, 10), remove_gibbs='end', gibbs_extra=2),
                  lambda s, r: ()))
        o.append(('butter gibbs mid', lambda s: s.butter_pass((0.5, None), remove_gibbs='mid', gibbs_range=7,
                                                               filter_order=2), lambda s, r: ()))
        o.append(('butter bad type', lambda s: s.butter_pass(5.0), lambda s, r: ()))
        o.append(('butter bad len', lambda s: s.butter_pass((1, 2, 3)), lambda s, r: ()))
        o.append(('remove_average', lambda s: s.remove_average(), lambda s, r: ()))
        o.append(('remove_average sec', lambda s: s.remove_average(section=7), lambda s, r: ()))
        for pf in (0, 1, 2, 3):
            o.append(('remove_poly %i' % pf, lambda s, pf=pf: s.remove_poly(pf), lambda s, r: ()))
        for w in (1, 2, 3, 4, 5, 8, 11, 1000, 0, -3, 2.5):
            o.append(('running_average %r' % w, lambda s, w=w: s.running_average(w), lambda s, r: ()))
        o.append(('running_average default', lambda s: s.running_average(), lambda s, r: ()))
        o.append(('get_section_average', lambda s: s.get_section_average(), lambda s, r: ()))
        o.append(('get_section_average idx', lambda s: s.get_section_average(1, 2, index=True), lambda s, r: ()))
        # settings
        o.append(('set smooth_fa_freqs', lambda s, a: setattr(s, 'smooth_fa_freqs', a),
                  lambda s, r: (np.logspace(-0.5, 1.2, 9),)))
        o.append(('set smooth_fa_freqs list', lambda s, a: setattr(s, 'smooth_fa_freqs', a),
                  lambda s, r: ([0.5, 1, 2, 4, 8],)))
        o.append(('set smooth_fa_frequencies', lambda s, a: setattr(s, 'smooth_fa_frequencies', a),
                  lambda s, r: ([0.25, 0.8, 3.0, 7.0],)))
        o.append(('set_smooth_fa_frequecies_by_range', lambda s, a: s.set_smooth_fa_frequecies_by_range(a, 11),
                  lambda s, r: ((0.2, 20.0),)))
        o.append(('set smooth_freq_range', lambda s, a: setattr(s, 'smooth_freq_range', a),
                  lambda s, r: ((0.4, 12.0),)))
        o.append(('set smooth_freq_points', lambda s: setattr(s, 'smooth_freq_points', 13), lambda s, r: ()))
        o.append(('set values (no-op setter)', lambda s, a: setattr(s, 'values', a), lambda s, r: (np.ones(3),)))
        o.append(('gen_fa_spectrum p2', lambda s: s.gen_fa_spectrum(p2_plus=1), lambda s, r: ()))
        o.append(('gen_fa_spectrum n', lambda s: s.gen_fa_spectrum(n=96), lambda s, r: ()))
        o.append(('gen_fa_spectrum n odd', lambda s: s.gen_fa_spectrum(n=33), lambda s, r: ()))
        o.append(('gen_fa_spectrum n1', lambda s: s.gen_fa_spectrum(n=1), lambda s, r: ()))
        o.append(('gen_fa_spectrum npint', lambda s: s.gen_fa_spectrum(n=np.int64(40)), lambda s, r: ()))
        o.append(('generate_fa_spectrum', lambda s: s.generate_fa_spectrum(), lambda s, r: ()))
        o.append(('gen_smooth_fa_spectrum', lambda s, a: s.gen_smooth_fa_spectrum(smooth_fa_freqs=a, band=20),
                  lambda s, r: (np.array([0.3, 1.0, 3.0, 9.0]),)))
        o.append(('generate_smooth_fa_spectrum', lambda s: s.generate_smooth_fa_spectrum(band=30), lambda s, r: ()))
        o.append(('clear_cache', lambda s: s.clear_cache(), lambda s, r: ()))
        return o

    def ops_acc():
        o = ops_common()
        o.append(('remove_rolling_average velo', lambda s: s.remove_rolling_average(), lambda s, r: ()))
        o.append(('remove_rolling_average velo 25', lambda s: s.remove_rolling_average(freq_window=25),
                  lambda s, r: ()))
        o.append(('remove_rolling_average acc', lambda s: s.remove_rolling_average(mtype='acc', freq_window=12),
                  lambda s, r: ()))
        o.append(('remove_rolling_average acc w1', lambda s: s.remove_rolling_average(mtype='acc', freq_window=1 / s.dt),
                  lambda s, r: ()))
        o.append(('remove_rolling_average too high', lambda s: s.remove_rolling_average(freq_window=1e5),
                  lambda s, r: ()))
        o.append(('remove_rolling_average wide', lambda s: s.remove_rolling_average(freq_window=0.05),
                  lambda s, r: ()))
        o.append(('rebase_displacement', lambda s: s.rebase_displacement(), lambda s, r: ()))
        o.append(('correct_me', lambda s: s.correct_me(), lambda s, r: ()))
        o.append(('set_zero_residual_velocity', lambda s: s.set_zero_residual_velocity(), lambda s, r: ()))
        o.append(('set_zero_residual_velocity tz', lambda s: s.set_zero_residual_velocity((2 * s.dt, 9 * s.dt)),
                  lambda s, r: ()))
        o.append(('set_zero_residual_velocity tz open', lambda s: s.set_zero_residual_velocity((3 * s.dt, None)),
                  lambda s, r: ()))
        o.append(('set_zero_residual_displacement', lambda s: s.set_zero_residual_displacement(), lambda s, r: ()))
        o.append(('set_zero_residual_displacement tz', lambda s: s.set_zero_residual_displacement((0.0, 0.1)),
                  lambda s, r: ()))
        o.append(('set_zero_residual_displacement_and_velocity',
                  lambda s: s.set_zero_residual_displacement_and_velocity(), lambda s, r: ()))
        o.append(('set_zero_residual_displacement_and_velocity tz',
                  lambda s: s.set_zero_residual_displacement_and_velocity((2 * s.dt, 12 * s.dt)), lambda s, r: ()))
        o.append(('set_zero_residual_displacement_and_velocity tz open',
                  lambda s: s.set_zero_residual_displacement_and_velocity((2 * s.dt, None)), lambda s, r: ()))
        o.append(('set response_times', lambda s, a: setattr(s, 'response_times', a),
                  lambda s, r: (np.array([0.1, 0.4, 2.0]),)))
        o.append(('set response_times zero first', lambda s, a: setattr(s, 'response_times', a),
                  lambda s, r: (np.array([0.0, 0.3, 1.0]),)))
        o.append(('gen_response_spectrum rt xi', lambda s, a: s.gen_response_spectrum(response_times=a, xi=0.02),
                  lambda s, r: (np.array([0.08, 0.6]),)))
        o.append(('generate_response_spectrum ratio', lambda s: s.generate_response_spectrum(min_dt_ratio=2),
                  lambda s, r: ()))
        o.append(('gen_response_spectrum list', lambda s, a: s.gen_response_spectrum(response_times=a),
                  lambda s, r: ([0.3, 0.9],)))
        o.append(('generate_displacement_and_velocity_series notrap',
                  lambda s: s.generate_displacement_and_velocity_series(trap=False), lambda s, r: ()))
        o.append(('generate_displacement_and_velocity_series', lambda s: s.generate_displacement_and_velocity_series(),
                  lambda s, r: ()))
        o.append(('response_series', lambda s, a: s.response_series(response_times=a, xi=0.1),
                  lambda s, r: (np.array([0.2, 0.7]),)))
        o.append(('response_series default', lambda s: s.response_series(), lambda s, r: ()))
        o.append(('generate_peak_values', lambda s: s.generate_peak_values(), lambda s, r: ()))
        o.append(('generate_all_motion_stats', lambda s: s.generate_all_motion_stats(), lambda s, r: ()))
        o.append(('generate_duration_stats', lambda s: s.generate_duration_stats(), lambda s, r: ()))
        o.append(('generate_cumulative_stats', lambda s: s.generate_cumulative_stats(), lambda s, r: ()))
        o.append(('reset_all_motion_stats', lambda s: s.reset_all_motion_stats(), lambda s, r: ()))
        return o

    SIG_OPS = ops_common()
    ACC_OPS = ops_acc()

    # ---------------------------------------------------------------- battery A: construction
    rng = np.random.default_rng(101)
    for name, vals, dt in records(rng):
        for cls in (eqsig.Signal, eqsig.AccSignal):
            hist = 'A %s %s' % (cls.__name__, name)
            sig, v0 = make(cls, vals, dt)
            record(hist, 'construct', None, state(sig), freeze([v0]), shares(sig, [v0]))
            read_all(hist, sig)
    for kw in ({'smooth_freq_range': (0.5, 10)}, {'smooth_fa_freqs': [0.5, 1.0, 5.0]}, {'label': 'x', 'verbose': 0, 'ccbox': 3}):
        sig = eqsig.Signal(np.arange(20.) % 7, 0.01, **kw)
        record('A kw', repr(sorted(kw)), None, state(sig), None, None)
        read_all('A kw', sig)
    for kw in ({'response_period_range': (0.2, 2)}, {'response_times': [0.2, 0.5]}, {'response_times': (0.0, 0.5, 1.0)}):
        sig = eqsig.AccSignal(np.arange(20.) % 7 - 3, 0.01, **kw)
        record('A acc kw', repr(sorted(kw)), None, state(sig), None, None)
        read_all('A acc kw', sig)

    lap('A')
    # ---------------------------------------------------------------- battery B: every op on every record,
    # once on a cold object and once on a fully warmed object, followed by all reads
    rng = np.random.default_rng(202)
    for name, vals, dt in records(rng):
        for cls, ops in ((eqsig.Signal, SIG_OPS), (eqsig.AccSignal, ACC_OPS)):
            for label, fn, build in ops:
                for warm in (False, True):
                    hist = 'B %s %s %s warm=%s' % (cls.__name__, name, label, warm)
                    sig, v0 = make(cls, vals, dt)
                    if warm:
                        for nm in (ACC_READS if cls is eqsig.AccSignal else SIG_READS):
                            step(hist, 'warm ' + nm, sig, reader(nm))
                    args = build(sig, rng)
                    step(hist, label, sig, fn, args)
                    read_all(hist, sig)
                    record(hist, 'constructor argument afterwards', None, None, freeze([v0]), shares(sig, [v0]))

    lap('B')
    # ---------------------------------------------------------------- battery C: exhaustive over the observational
    # cache state: every subset of derived quantities read before every mutator / settings change
    rng = np.random.default_rng(303)
    groups = ['fa_spectrum', 'smooth_fa_spectrum', 'velocity', 'pga', 'pgv', 'pgd', 's_a']
    c_labels = ['reset_values arr', 'add_constant', 'add_series arr', 'add_signal', 'butter low', 'remove_average',
                'remove_poly 1', 'running_average 3', 'running_average 8', 'remove_rolling_average velo 25',
                'remove_rolling_average acc', 'rebase_displacement', 'correct_me', 'set_zero_residual_velocity',
                'set_zero_residual_displacement', 'set_zero_residual_displacement_and_velocity',
                'set smooth_fa_freqs', 'set_smooth_fa_frequecies_by_range', 'set response_times',
                'gen_response_spectrum rt xi', 'gen_fa_spectrum p2',
                'generate_displacement_and_velocity_series notrap', 'clear_cache', 'reset_all_motion_stats']
    acc_by_label = dict((lab, (fn, build)) for lab, fn, build in ACC_OPS)
    base = np.random.default_rng(7).standard_normal(48)
    for lab in c_labels:
        fn, build = acc_by_label[lab]
        for mask in range(2 ** len(groups)):
            hist = 'C %s mask=%i' % (lab, mask)
            sig, v0 = make(eqsig.AccSignal, base, 0.01)
            for j, g in enumerate(groups):
                if mask >> j & 1:
                    step(hist, 'pre-read ' + g, sig, reader(g))
            args = build(sig, np.random.default_rng(11))
            step(hist, lab, sig, fn, args)
            # read the derived quantities in an order depending on the mask
            order = list(np.random.default_rng(mask).permutation(len(ACC_READS)))
            read_all(hist, sig, order)
    sig_groups = ['fa_spectrum', 'smooth_fa_spectrum', 'fa_freqs']
    sig_by_label = dict((lab, (fn, build)) for lab, fn, build in SIG_OPS)
    for lab in [l for l in c_labels if l in sig_by_label]:
        fn, build = sig_by_label[lab]
        for mask in range(2 ** len(sig_groups)):
            hist = 'C sig %s mask=%i' % (lab, mask)
            sig, v0 = make(eqsig.Signal, base, 0.01)
            for j, g in enumerate(sig_groups):
                if mask >> j & 1:
                    step(hist, 'pre-read ' + g, sig, reader(g))
            step(hist, lab, sig, fn, build(sig, np.random.default_rng(11)))
            read_all(hist, sig)

    lap('C')
    # ---------------------------------------------------------------- battery D: long random histories
    rng = np.random.default_rng(404)
    recs = records(rng)
    for h in range(260):
        name, vals, dt = recs[h % len(recs)]
        cls, ops, reads = ((eqsig.AccSignal, ACC_OPS, ACC_READS) if h % 4 else (eqsig.Signal, SIG_OPS, SIG_READS))
        hist = 'D %i %s %s' % (h, cls.__name__, name)
        sig, v0 = make(cls, vals, dt)
        for k in range(int(rng.integers(4, 22))):
            if rng.random() < 0.45:
                nm = reads[int(rng.integers(len(reads)))]
                step(hist, 'read ' + nm, sig, reader(nm))
            else:
                label, fn, build = ops[int(rng.integers(len(ops)))]
                step(hist, label, sig, fn, build(sig, rng))
        read_all(hist, sig)

    lap('D')
    # ---------------------------------------------------------------- battery E: the windowed averages in detail
    rng = np.random.default_rng(505)
    for n in (1, 2, 3, 4, 5, 6, 7, 10, 21, 50):
        for kind in ('float', 'int', 'list', 'f32', 'zeros'):
            if kind == 'float':
                vals = rng.standard_normal(n) * 10
            elif kind == 'int':
                vals = rng.integers(-20, 21, n)
            elif kind == 'list':
                vals = [float(v) for v in rng.standard_normal(n)]
            elif kind == 'f32':
                vals = rng.standard_normal(n).astype(np.float32)
            else:
                vals = np.zeros(n)
            for w in (1, 2, 3, 4, 5, 6, 7, 9, 20, 49, 50, 51, 100, 0, -1, -4, 1.5, 3.0, np.int64(4)):
                hist = 'E run n=%i %s w=%r' % (n, kind, w)
                sig, v0 = make(eqsig.AccSignal if (n + int(w * 2)) % 2 else eqsig.Signal, vals, 0.01)
                if n % 2:
                    for nm in ('fa_spectrum', 'smooth_fa_spectrum', 'pgv', 's_a', 'pga'):
                        if hasattr(type(sig), nm):
                            step(hist, 'warm ' + nm, sig, reader(nm))
                held = sig.values  # the stored array is modified in place
                step(hist, 'running_average', sig, lambda s, w=w: s.running_average(width=w))
                record(hist, 'held', None, None, freeze([held, v0]), [held is sig.values])
                read_all(hist, sig)
            for fw in (100, 50, 34, 25, 20, 10, 5, 2, 1, 0.5, 101, 1e3):
                for mtype in ('velocity', 'acc', 'displacement'):
                    hist = 'E roll n=%i %s fw=%r %s' % (n, kind, fw, mtype)
                    sig, v0 = make(eqsig.AccSignal, vals, 0.01)
                    if n % 2 == 0:
                        for nm in ('velocity', 'pgd', 's_d', 'smooth_fa_spectrum'):
                            step(hist, 'warm ' + nm, sig, reader(nm))
                    held = sig.values
                    heldv = sig.velocity if n % 3 == 0 else None
                    step(hist, 'remove_rolling_average', sig,
                         lambda s, fw=fw, mtype=mtype: s.remove_rolling_average(mtype=mtype, freq_window=fw))
                    record(hist, 'held', None, None, freeze([held, heldv, v0]), [held is sig.values])
                    read_all(hist, sig)

    lap('E')
    # ---------------------------------------------------------------- battery F: corrections, spectra, filters in detail
    rng = np.random.default_rng(606)
    for n in (1, 2, 3, 9, 10, 11, 12, 30, 64, 100, 129):
        for kind in ('float', 'int', 'f32', 'zeros', 'list'):
            if kind == 'float':
                vals = rng.standard_normal(n)
            elif kind == 'int':
                vals = rng.integers(-20, 21, n)
            elif kind == 'f32':
                vals = rng.standard_normal(n).astype(np.float32)
            elif kind == 'list':
                vals = [float(v) for v in rng.standard_normal(n)]
            else:
                vals = np.zeros(n)
            for dt in (0.01, np.float64(0.02), 1, np.float32(0.05)):
                hist = 'F n=%i %s dt=%r' % (n, kind, dt)
                sig, v0 = make(eqsig.AccSignal, vals, dt)
                if n % 2:
                    for nm in ('displacement', 'pga', 'pgv', 'pgd', 's_v', 'fa_freqs'):
                        step(hist, 'warm ' + nm, sig, reader(nm))
                step(hist, 'correct_me', sig, lambda s: s.correct_me())
                read_all(hist, sig)
                step(hist, 'correct_me again', sig, lambda s: s.correct_me())
                step(hist, 'pgd', sig, reader('pgd'))
                step(hist, 'pgv', sig, reader('pgv'))
                step(hist, 'pga', sig, reader('pga'))
                step(hist, 'rebase', sig, lambda s: s.rebase_displacement())
                step(hist, 'pgd', sig, reader('pgd'))
                step(hist, 's_d', sig, reader('s_d'))
                step(hist, 'set rt', sig, lambda s: setattr(s, 'response_times', [0.2, 0.4]))
                step(hist, 's_a', sig, reader('s_a'))
                step(hist, 'clear_cache', sig, lambda s: s.clear_cache())
                read_all(hist, sig)
                for nn, pp in ((None, 0), (None, 1), (None, 2), (n, 0), (2 * n + 1, 0), (1, 0), (2, 0), (3, 3)):
                    sig2, _ = make(eqsig.Signal, vals, dt)
                    step(hist, 'gen_fa n=%r p2=%r' % (nn, pp), sig2, lambda s, nn=nn, pp=pp: s.gen_fa_spectrum(pp, nn))
                    step(hist, 'fa', sig2, reader('fa_spectrum'))
                    step(hist, 'freqs', sig2, reader('fa_freqs'))
                    step(hist, 'smooth', sig2, reader('smooth_fa_spectrum'))
            for co in ((0.1, 15), (None, 8), (0.5, None), [1.0, 20.0], np.array([0.2, 5.0])):
                for rg in (None, 'start', 'end', 'mid', 'other'):
                    for extra, grange, order in ((1, 50, 4), (2, 3, 2), (0, 1, 1)):
                        hist = 'F butter n=%i %s co=%r rg=%r %r' % (n, kind, co, rg, (extra, grange, order))
                        sig, v0 = make(eqsig.AccSignal if n % 2 else eqsig.Signal, vals, 0.01)
                        if n % 3 == 0:
                            step(hist, 'warm fa', sig, reader('fa_spectrum'))
                            step(hist, 'warm smooth', sig, reader('smooth_fa_spectrum'))
                        step(hist, 'butter_pass', sig,
                             lambda s: s.butter_pass(co, remove_gibbs=rg, gibbs_extra=extra, gibbs_range=grange,
                                                     filter_order=order))
                        step(hist, 'values', sig, reader('values'))
                        step(hist, 'fa', sig, reader('fa_spectrum'))
                        step(hist, 'smooth', sig, reader('smooth_fa_spectrum'))
                        record(hist, 'ctor arg', None, None, freeze([v0]), shares(sig, [v0]))

    lap('F')
    # ---------------------------------------------------------------- battery H: empty record, read orders of the
    # memoised peaks and of the response spectra, objects that were copied / pickled
    import copy
    for cls, ops in ((eqsig.Signal, SIG_OPS), (eqsig.AccSignal, ACC_OPS)):
        for vals in (np.array([]), []):
            hist = 'H empty %s %s' % (cls.__name__, type(vals).__name__)
            try:
                sig = cls(vals, 0.01)
            except Exception as e:  # noqa
                record(hist, 'construct', ('exc', type(e).__module__, type(e).__name__, str(e)), None, None, None)
                continue
            read_all(hist, sig)
            for label, fn, build in ops:
                try:
                    args = build(sig, np.random.default_rng(3))
                except Exception as e:  # noqa
                    record(hist, label + ' build', ('exc', type(e).__name__, str(e)), None, None, None)
                    continue
                step(hist, label, sig, fn, args)
                step(hist, 'npts', sig, reader('npts'))
                if cls is eqsig.AccSignal:
                    for nm in ('pga', 'pgv', 'pgd', 's_a'):
                        step(hist, nm, sig, reader(nm))
    base = np.random.default_rng(8).standard_normal(40)
    for perm in itertools.islice(itertools.permutations(['pga', 'pgv', 'pgd', 'velocity', 's_d', 's_a', 's_v']), 0, None, 5):
        hist = 'H perm %s' % (perm,)
        sig, v0 = make(eqsig.AccSignal, base, 0.01)
        for nm in perm[:4]:
            step(hist, nm, sig, reader(nm))
        step(hist, 'add_constant', sig, lambda s: s.add_constant(0.1))
        for nm in perm:
            step(hist, nm, sig, reader(nm))
        step(hist, 'rebase', sig, lambda s: s.rebase_displacement())
        for nm in perm[::-1]:
            step(hist, nm, sig, reader(nm))
        step(hist, 'set rt', sig, lambda s: setattr(s, 'response_times', np.array([0.3, 0.6])))
        for nm in perm[2:] + perm[:2]:
            step(hist, nm, sig, reader(nm))
    for warm in (False, True):
        for how in ('copy', 'deepcopy', 'pickle'):
            hist = 'H %s warm=%s' % (how, warm)
            sig, v0 = make(eqsig.AccSignal, base, 0.01)
            if warm:
                read_all(hist, sig)
            dup = {'copy': copy.copy, 'deepcopy': copy.deepcopy,
                   'pickle': lambda o: pickle.loads(pickle.dumps(o))}[how](sig)
            step(hist, 'mutate original', sig, lambda s: s.add_constant(1.0))
            step(hist, 'mutate duplicate', dup, lambda s: s.running_average(3))
            read_all(hist, dup)
            read_all(hist, sig)

    lap('H')
    # ---------------------------------------------------------------- battery G: class level defaults and API surface
    for cls in (eqsig.Signal, eqsig.AccSignal):
        pub = sorted(k for k in dir(cls) if not k.startswith('_'))
        record('G', 'public api ' + cls.__name__, ('ok', freeze(pub)), None, None, None)
        cl = sorted((k, repr(v)) for k, v in vars(cls).items()
                    if not callable(v) and not isinstance(v, (property, staticmethod, classmethod))
                    and k not in ('__doc__', '__dict__', '__weakref__', '__module__'))
        record('G', 'class attrs ' + cls.__name__, ('ok', freeze(cl)), None, None, None)
    pubfns = sorted(k for k in dir(eqsig.fns) if not k.startswith('_'))
    record('G', 'eqsig.fns public', ('ok', freeze(pubfns)), None, None, None)
    record('G', 'eqsig public', ('ok', freeze(sorted(k for k in dir(eqsig) if not k.startswith('_')))), None, None, None)

    lap('G (after H)')
    with open(outfile, 'wb') as f:
        pickle.dump(log, f, protocol=4)


# --------------------------------------------------------------------------------------
#  main: extract the original, run both workers, compare the logs
# --------------------------------------------------------------------------------------

PARTS = ('history', 'step', 'raised', 'result summary', 'result', 'object state', 'arguments afterwards',
         'memory sharing')


def compare(eo, ee, i, errs):
    bad = [PARTS[j] for j in range(len(PARTS)) if eo[j] != ee[j]]
    if bad:
        errs.append('entry %i <%s | %s>: differs in %s\n      orig: %s\n      edit: %s'
                    % (i, eo[0], eo[1], ', '.join(bad), eo[3], ee[3]))


def main():
    wt = os.getcwd()
    assert os.path.isdir(os.path.join(wt, 'eqsig')) and os.path.exists(os.path.join(wt, '.git')), \
        'run with cwd = the worktree'
    tmp = tempfile.mkdtemp(prefix='c04_equiv%i_' % TWIN, dir='/tmp')
    try:
        subprocess.check_call('git archive HEAD eqsig | tar -x -C %s' % tmp, shell=True, cwd=wt)
        for fname, text in MARKERS:
            with open(os.path.join(wt, fname)) as f:
                assert text in f.read(), 'twin %i does not seem to be applied (%s)' % (TWIN, fname)
            with open(os.path.join(tmp, fname)) as f:
                assert text not in f.read(), 'original already contains the edit (%s)' % fname
        outs = {}
        procs = {}
        errfiles = {}
        for tag, root in (('orig', tmp), ('edit', wt)):
            outs[tag] = os.path.join(tmp, tag + '.pkl')
            env = dict(os.environ)
            env.pop('PYTHONPATH', None)
            env['PYTHONDONTWRITEBYTECODE'] = '1'
            # output goes to a file: LAPACK prints harmless diagnostics when polyfit is given nan values
            errfiles[tag] = open(os.path.join(tmp, tag + '.stderr'), 'w+')
            procs[tag] = subprocess.Popen([sys.executable, os.path.abspath(__file__), '--worker', root, outs[tag]],
                                          cwd=wt, env=env, stdout=errfiles[tag], stderr=subprocess.STDOUT)
        for tag in procs:
            rc = procs[tag].wait()
            if rc != 0:
                errfiles[tag].seek(0)
                print('worker %s failed with exit code %i\n%s' % (tag, rc, errfiles[tag].read()[-3000:]))
                return 1
            if os.environ.get('EQUIV_TIMING'):
                errfiles[tag].seek(0)
                print(''.join(l for l in errfiles[tag] if 'battery' in l))
        logs = {}
        for tag in outs:
            with open(outs[tag], 'rb') as f:
                logs[tag] = pickle.load(f)
    finally:
        shutil.rmtree(tmp, ignore_errors=True)
    lo, le = logs['orig'], logs['edit']
    errs = []
    if len(lo) != len(le):
        errs.append('number of log entries differs: %i != %i' % (len(lo), len(le)))
    n_exc = 0
    for i, (eo, ee) in enumerate(zip(lo, le)):
        if eo[2]:
            n_exc += 1
        compare(eo, ee, i, errs)
        if len(errs) > 40:
            break
    print('twin %i: compared %i log entries (%i of them exceptions raised identically)' % (TWIN, len(lo), n_exc))
    if errs:
        print('MISMATCHES:')
        for e in errs[:40]:
            print('  ' + e)
        return 1
    print('all identical')
    return 0


if __name__ == '__main__':
    if len(sys.argv) > 1 and sys.argv[1] == '--worker':
        run_worker(sys.argv[2], sys.argv[3])
        sys.exit(0)
    sys.exit(main())

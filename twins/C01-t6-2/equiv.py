"""
Equivalence program for a behaviour-preserving edit of the SDOF elastic-response code
(eqsig/sdof.py: compute_a_and_b, nigam_and_jennings_response, response_series;
 eqsig/single.py: AccSignal.response_series).

Run with the edit applied and cwd = the worktree:

    cd <worktree> && PYTHONPATH=<worktree> python out/equivK.py

The ORIGINAL package is taken from git (`git archive HEAD eqsig`) into a temporary directory.
The same deterministic case list is executed in two subprocesses (original tree / edited tree),
every outcome (returned arrays bit-for-bit incl. dtype, shape, memory order and writeability,
exceptions, warnings, printed output, the arguments after the call, the object state after
every public operation) is serialised, and the two logs are compared record by record.

Exit status 0 iff every record is identical.
"""
import os
import sys
import io
import pickle
import struct
import subprocess
import tarfile
import tempfile
import shutil
import warnings
import contextlib

N_FUNC_CASES = 3600
N_AB_CASES = 1200
N_OBJ_CASES = 320
N_BAD_CASES = 1  # (the list of malformed calls is fixed, see bad_cases)


# --------------------------------------------------------------------------------------
# serialisation of outcomes
# --------------------------------------------------------------------------------------
def enc(obj):
    import numpy as np
    if isinstance(obj, np.ndarray):
        return ('nd', obj.dtype.str, obj.shape, bool(obj.flags['C_CONTIGUOUS']), bool(obj.flags['F_CONTIGUOUS']),
                bool(obj.flags['WRITEABLE']), np.ascontiguousarray(obj).tobytes() if obj.dtype != object else repr(obj))
    if isinstance(obj, np.generic):
        return ('ng', obj.dtype.str, obj.tobytes())
    if isinstance(obj, bool) or obj is None or isinstance(obj, (int, str, bytes)):
        return ('py', type(obj).__name__, obj)
    if isinstance(obj, float):
        return ('fl', struct.pack('<d', obj))
    if isinstance(obj, (tuple, list)):
        return (type(obj).__name__, tuple(enc(o) for o in obj))
    if isinstance(obj, dict):
        return ('dict', tuple((repr(k), enc(v)) for k, v in sorted(obj.items(), key=lambda kv: repr(kv[0]))))
    return ('repr', type(obj).__name__, repr(obj))


def guarded(fn):
    """Runs fn() and returns the encoded outcome: value or exception, warnings set, printed text."""
    out = io.StringIO()
    with warnings.catch_warnings(record=True) as wlist:
        warnings.simplefilter('always')
        with contextlib.redirect_stdout(out):
            try:
                res = ('ok', enc(fn()))
            except Exception as e:  # noqa
                res = ('exc', type(e).__name__, str(e))
    wset = tuple(sorted(set((w.category.__name__, str(w.message)) for w in wlist)))
    return res, wset, out.getvalue()


# --------------------------------------------------------------------------------------
# deterministic case generation
# --------------------------------------------------------------------------------------
def make_record(rs, np, kind, n):
    t = np.arange(n)
    if kind == 0:
        rec = rs.standard_normal(n)
    elif kind == 1:
        rec = np.sin(t * rs.uniform(0.01, 2.0)) * rs.uniform(0.01, 10)
    elif kind == 2:
        rec = np.zeros(n)
        if n:
            rec[rs.randint(0, n)] = rs.choice([1.0, -1.0, 9.81, 1e-8])
    elif kind == 3:
        rec = np.ones(n) * rs.choice([1.0, -2.5, 0.0])
    elif kind == 4:
        rec = rs.randint(-20, 21, size=n)  # integer typed
    elif kind == 5:
        rec = (rs.standard_normal(n) * 3).astype(np.float32)
    elif kind == 6:
        rec = np.cumsum(rs.standard_normal(n)) * rs.choice([1e-6, 1.0, 1e6])
    elif kind == 7:
        rec = rs.standard_normal(n) * rs.choice([1e-300, 1e-150, 1e150, 1e300])
    elif kind == 8:
        rec = rs.randint(0, 2, size=n).astype(bool)
    elif kind == 9:
        rec = np.exp(-t / max(n / 4.0, 1.0)) * np.cos(t * 0.7) * 4.0
    else:
        rec = np.linspace(-1, 1, n) if n else np.zeros(0)
    return rec


def record_form(rs, np, rec):
    """Returns (argument to pass, description) - list / tuple / array / strided view / read-only ..."""
    f = rs.randint(0, 9)
    if f == 0:
        return rec.tolist(), 'list'
    if f == 1:
        return tuple(rec.tolist()), 'tuple'
    if f == 2:
        big = np.zeros(2 * len(rec), dtype=rec.dtype)
        big[::2] = rec
        return big[::2], 'strided'
    if f == 3:
        r = rec.copy()
        r.setflags(write=False)
        return r, 'readonly'
    if f == 4:
        return rec[::-1].copy()[::-1], 'negstride'
    if f == 5:
        return np.asfortranarray(rec), 'fortran'
    return rec.copy(), 'array'


def make_periods(rs, np, dt):
    m = rs.choice([1, 1, 2, 3, 4, 6, 9])
    lo, hi = np.log(0.2), np.log(2e4)
    style = rs.randint(0, 6)
    if style == 0:
        ratios = np.exp(rs.uniform(lo, hi, size=m))
    elif style == 1:
        ratios = np.sort(np.exp(rs.uniform(lo, hi, size=m)))
    elif style == 2:
        ratios = np.exp(rs.uniform(np.log(0.2), np.log(10), size=m))  # T/dt < 10
    elif style == 3:
        ratios = np.exp(rs.uniform(np.log(2e3), hi, size=m))
    elif style == 4:
        ratios = rs.choice([0.2, 1.0, 2.0, 6.0, 10.0, 20.0, 2e4], size=m)
    else:
        ratios = np.exp(rs.uniform(np.log(5), np.log(500), size=m))
    periods = ratios * float(dt)
    lead = rs.randint(0, 10)
    if lead < 3:
        periods = np.concatenate([[0.0], periods])
    elif lead == 3:
        periods = np.array([0.0])
    elif lead == 4:
        periods = np.concatenate([[-0.0], periods])
    form = rs.randint(0, 7)
    if form == 0:
        return periods.tolist()
    if form == 1:
        return tuple(periods.tolist())
    if form == 2:
        ip = np.maximum(np.round(periods), (periods != 0) * 1).astype(int)  # integer typed periods
        ip[periods == 0] = 0
        return ip
    if form == 3:
        ip = np.maximum(np.round(periods), (periods != 0) * 1).astype(int)
        ip[periods == 0] = 0
        return ip.tolist()
    if form == 4:
        p = periods.copy()
        p.setflags(write=False)
        return p
    if form == 5:
        return periods.astype(np.float32)
    return periods.copy()


def make_dt(rs, np):
    c = rs.randint(0, 10)
    if c == 0:
        return int(rs.choice([1, 2, 5]))
    if c == 1:
        return np.float64(rs.choice([0.005, 0.01, 0.02]))
    if c == 2:
        return np.float32(0.01)
    if c == 3:
        return float(np.exp(rs.uniform(np.log(1e-4), np.log(2.0))))
    if c == 4:
        return np.array(0.01)
    if c == 5:
        return '0.02'  # float('0.02') is accepted by the entry point
    return float(rs.choice([0.001, 0.005, 0.01, 0.02, 0.025, 0.1, 1.0]))


def make_xi(rs, np):
    c = rs.randint(0, 12)
    if c == 0:
        return 0
    if c == 1:
        return 0.0
    if c == 2:
        return np.float64(0.05)
    if c == 3:
        return float(rs.uniform(0, 1))
    if c == 4:
        return float(rs.choice([0.9, 0.99, 0.999, 0.999999, 1 - 2 ** -40]))
    if c == 5:
        return float(rs.choice([1e-12, 1e-6, 1e-3]))
    if c == 6:
        return np.array(0.07) if rs.randint(0, 4) else np.array([0.07])  # the 1-element form is rejected by float()
    if c == 7:
        return np.float32(0.1)
    return float(rs.choice([0.01, 0.02, 0.05, 0.1, 0.2, 0.3, 0.5, 0.7]))


def make_len(rs):
    c = rs.randint(0, 20)
    if c == 0:
        return int(rs.choice([0, 1]))
    if c < 4:
        return int(rs.choice([2, 3, 4, 5]))
    if c < 17:
        return int(rs.randint(6, 160))
    if c < 19:
        return int(rs.randint(160, 700))
    return int(rs.randint(700, 2500))


def snapshot_args(*args):
    return tuple(enc(a) for a in args)


# --------------------------------------------------------------------------------------
# the worker: runs all cases against whatever `eqsig` is importable first
# --------------------------------------------------------------------------------------
def worker(expect_root, out_path):
    import numpy as np
    import eqsig
    import eqsig.sdof as sdof
    import eqsig.im as im
    root = os.path.realpath(os.path.dirname(os.path.dirname(eqsig.__file__)))
    if root != os.path.realpath(expect_root):
        print('worker imported eqsig from %s, expected %s' % (root, expect_root))
        sys.exit(3)

    log = []

    # ---- A. module-level entry points on the property's domain and its corners ----------
    rs = np.random.RandomState(20240601)
    fnames = ['response_series', 'nigam_and_jennings_response', 'response_series', 'nigam_and_jennings_response',
              'pseudo_response_spectra', 'true_response_spectra']
    for k in range(N_FUNC_CASES):
        n = make_len(rs)
        rec = make_record(rs, np, rs.randint(0, 11), n)
        arg, form = record_form(rs, np, rec)
        dt = make_dt(rs, np)
        dtf = float(dt)
        periods = make_periods(rs, np, dtf)
        xi = make_xi(rs, np)
        fname = fnames[k % len(fnames)]
        if fname in ('pseudo_response_spectra', 'true_response_spectra') and n == 0:
            n = 3
            rec = make_record(rs, np, 0, n)
            arg, form = rec.copy(), 'array'
        if fname in ('pseudo_response_spectra', 'true_response_spectra') and form in ('list', 'tuple') and k % 4:
            arg, form = np.array(arg), 'array'  # the spectra functions need an ndarray record
        fn = getattr(sdof, fname)
        kw = rs.randint(0, 4) == 0
        if kw:
            res = guarded(lambda: fn(motion=arg, dt=dt, periods=periods, xi=xi) if fname != 'nigam_and_jennings_response'
                          else fn(acc=arg, dt=dt, periods=periods, xi=xi))
        else:
            res = guarded(lambda: fn(arg, dt, periods, xi))
        log.append(('A', k, fname, form, res, snapshot_args(arg, dt, periods, xi)))

    # returned arrays must be independent of each other and of the inputs: write into them
    rs = np.random.RandomState(77)
    for k in range(60):
        n = int(rs.randint(2, 40))
        rec = make_record(rs, np, 0, n)
        periods = np.array([0.0, 0.3, 1.0]) if k % 2 else np.array([0.3, 1.0])
        u, v, a = sdof.response_series(rec, 0.01, periods, 0.05)
        keep = [x.copy() for x in (u, v, a)]
        u += 1.0
        st1 = enc([v, a, rec, periods])
        v -= 2.0
        st2 = enc([u, a, rec, periods])
        a *= 3.0
        st3 = enc([u, v, rec, periods])
        log.append(('A2', k, enc(keep), st1, st2, st3, enc([x.base is None for x in (u, v, a)])))

    # ---- B. compute_a_and_b (public helper) ---------------------------------------------
    rs = np.random.RandomState(4242)
    for k in range(N_AB_CASES):
        dt = float(np.exp(rs.uniform(np.log(1e-4), np.log(2.0))))
        m = int(rs.choice([1, 2, 3, 5, 8]))
        ratios = np.exp(rs.uniform(np.log(0.2), np.log(2e4), size=m))
        w = 6.2831853 / (ratios * dt)
        xi = make_xi(rs, np)
        if isinstance(xi, np.ndarray):
            xi = float(xi.ravel()[0])
        shape = rs.randint(0, 7)
        if shape == 0:
            wa = float(w[0])
        elif shape == 1:
            wa = np.float64(w[0])
        elif shape == 2:
            wa = w.reshape(1, m)
        elif shape == 3:
            wa = w[:0]
        elif shape == 4:
            wa = w.astype(np.float32)
        else:
            wa = w
        dta = dt if k % 5 else np.float64(dt)
        kw = k % 7 == 0
        if kw:
            res = guarded(lambda: sdof.compute_a_and_b(xi=xi, w=wa, dt=dta))
        else:
            res = guarded(lambda: sdof.compute_a_and_b(xi, wa, dta))
        log.append(('B', k, res, snapshot_args(xi, wa, dta)))
    # out-of-domain corners of the helper, outcome must still be the same
    for k, (xi, w, dt) in enumerate([(1.0, np.array([1.0, 2.0]), 0.01), (1.5, np.array([3.0]), 0.01), (0.05, np.array([0.0, 1.0]), 0.01),
                                     (0.05, np.array([1.0]), 0.0), (0.05, np.array([np.inf, np.nan, -1.0]), 0.1),
                                     (np.array([0.0, 0.05]), np.array([2.0, 9.0]), 0.01), (0.05, [1.0, 2.0], 0.01),
                                     (0.05, 3, 1), ('a', 1.0, 0.1), (0.05, None, 0.1), (-0.1, np.array([5.0]), 0.02)]):
        log.append(('B2', k, guarded(lambda: sdof.compute_a_and_b(xi, w, dt))))

    # ---- C. AccSignal histories ------------------------------------------------------------
    rs = np.random.RandomState(99001)
    for k in range(N_OBJ_CASES):
        n = int(rs.randint(2, 90))
        rec = make_record(rs, np, rs.choice([0, 1, 2, 4, 5, 6, 9]), n)
        dt = float(rs.choice([0.005, 0.01, 0.02, 0.05]))
        verbose = int(rs.randint(0, 3) == 0)
        init_rt = rs.randint(0, 3)
        hist = []
        ctor_kwargs = {}
        if init_rt == 1:
            ctor_kwargs['response_times'] = make_periods(rs, np, dt)
        elif init_rt == 2:
            ctor_kwargs['response_period_range'] = (0.2, 1.0)
        holder = {}

        def build():
            holder['s'] = eqsig.AccSignal(rec, dt, verbose=verbose, **ctor_kwargs)
            return None
        hist.append(('ctor', guarded(build)))
        asig = holder.get('s')
        if asig is None:
            log.append(('C', k, hist))
            continue

        def state():
            return enc([asig.response_times, asig.values, asig.dt, asig.npts, asig._cached_xi,
                        bool(asig._cached_response_spectra), asig._s_a, asig._s_d, asig._s_v])
        for j in range(int(rs.randint(2, 6))):
            op = rs.randint(0, 10)
            if op == 0:
                r = guarded(lambda: asig.response_series())
            elif op == 1:
                p = make_periods(rs, np, dt)
                r = guarded(lambda: asig.response_series(p))
            elif op == 2:
                p = make_periods(rs, np, dt)
                x = make_xi(rs, np)
                r = guarded(lambda: asig.response_series(response_times=p, xi=x))
            elif op == 3:
                x = make_xi(rs, np)
                r = guarded(lambda: asig.response_series(xi=x))
            elif op == 4:
                r = guarded(lambda: asig.response_series(None, -1))
            elif op == 5:
                p = np.sort(np.abs(np.asarray(make_periods(rs, np, dt), dtype=float))) + 0.05
                r = guarded(lambda: asig.gen_response_spectrum(response_times=p, xi=0.1))
            elif op == 6:
                r = guarded(lambda: [asig.s_a, asig.s_d])
            elif op == 7:
                p = make_periods(rs, np, dt)

                def setrt():
                    asig.response_times = p
                r = guarded(setrt)
            elif op == 8:
                r = guarded(lambda: [im.cumulative_response_spectra(asig, "arias_intensity", periods=[0.2, 0.5], xi=0.03),
                                     sdof.calc_resp_uke_spectrum(asig, periods=[0.3, 0.9]),
                                     sdof.calc_input_energy_spectrum(asig, periods=np.array([0.25, 0.8]), series=bool(j % 2))])
            else:
                r = guarded(lambda: asig.response_series([0.0, 4 * dt, 40 * dt], xi=0))
            hist.append((int(op), r, guarded(state)))
        log.append(('C', k, hist))

    # ---- D. malformed / unusual calls: same exception (type and text) or same value ------
    rec = np.array([0.0, 1.0, -0.5, 0.25, 0.0, 2.0])
    bad_cases = [
        lambda: sdof.response_series(rec, 0.01, [], 0.05),
        lambda: sdof.response_series(rec, 0.01, 0.5, 0.05),
        lambda: sdof.response_series(rec, 0.01, np.float64(0.5), 0.05),
        lambda: sdof.response_series(rec, 0.01, None, 0.05),
        lambda: sdof.response_series(None, 0.01, [0.5], 0.05),
        lambda: sdof.response_series('abc', 0.01, [0.5], 0.05),
        lambda: sdof.response_series(['x', 'y'], 0.01, [0.5], 0.05),
        lambda: sdof.response_series(rec, 'abc', [0.5], 0.05),
        lambda: sdof.response_series(rec, None, [0.5], 0.05),
        lambda: sdof.response_series(rec, 0.01, [0.5], None),
        lambda: sdof.response_series(rec, 0.01, [0.5], [0.05, 0.1]),
        lambda: sdof.response_series(rec, 0.01, [0.5], 'q'),
        lambda: sdof.response_series(rec, [0.01, 0.02], [0.5], 0.05),
        lambda: sdof.response_series(rec, 0.01, ['a'], 0.05),
        lambda: sdof.response_series(rec, 0.01, [[0.5, 1.0]], 0.05),
        lambda: sdof.response_series(rec, 0.01, [[0.0, 1.0]], 0.05),
        lambda: sdof.response_series(rec.reshape(2, 3), 0.01, [0.5, 1.0], 0.05),
        lambda: sdof.response_series(rec.reshape(6, 1), 0.01, [0.5, 1.0], 0.05),
        lambda: sdof.response_series(rec.reshape(1, 6), 0.01, [0.0, 1.0], 0.05),
        lambda: sdof.response_series(np.float64(2.0), 0.01, [0.5, 1.0], 0.05),
        lambda: sdof.response_series(3.0, 0.01, [0.5, 1.0], 0.05),
        lambda: sdof.response_series(rec, 0.0, [0.5, 1.0], 0.05),
        lambda: sdof.response_series(rec, -0.01, [0.5, 1.0], 0.05),
        lambda: sdof.response_series(rec, 0.01, [0.5, 0.0, 1.0], 0.05),
        lambda: sdof.response_series(rec, 0.01, [-0.5, 1.0], 0.05),
        lambda: sdof.response_series(rec, 0.01, [np.nan, 1.0], 0.05),
        lambda: sdof.response_series(rec, 0.01, [np.inf, 1.0], 0.05),
        lambda: sdof.response_series(rec, 0.01, [0.0, 0.0, 1.0], 0.05),
        lambda: sdof.response_series(rec, 0.01, [0.5, 1.0], 1.0),
        lambda: sdof.response_series(rec, 0.01, [0.5, 1.0], 1.7),
        lambda: sdof.response_series(rec, 0.01, [0.5, 1.0], -0.05),
        lambda: sdof.response_series(rec, 0.01, [0.0, 0.5, 1.0], 1.0),
        lambda: sdof.response_series(rec, np.nan, [0.5, 1.0], 0.05),
        lambda: sdof.response_series(rec, 0.01, [0.5, 1.0], np.nan),
        lambda: sdof.response_series(np.array([np.nan, 1.0, np.inf, 0.0]), 0.01, [0.0, 0.5], 0.05),
        lambda: sdof.response_series(np.array([1 + 2j, 0.5j]), 0.01, [0.5], 0.05),
        lambda: sdof.response_series(rec, 0.01, np.array([0.5 + 0j]), 0.05),
        lambda: sdof.response_series(rec, 0.01, [0.5], 0.05 + 0j),
        lambda: sdof.response_series(rec, 0.01, [True, 2], 0.05),
        lambda: sdof.response_series(rec, True, [False, 2], False),
        lambda: sdof.response_series(rec, 0.01, iter([0.5]), 0.05),
        lambda: sdof.response_series(iter([0.5, 1.0]), 0.01, [0.5], 0.05),
        lambda: sdof.response_series(rec, 0.01, {0.5: 1}, 0.05),
        lambda: sdof.response_series(rec, 0.01, np.array([0.5, 1.0]).reshape(2, 1), 0.05),
        lambda: sdof.response_series(rec, 0.01, np.array([0.0, 1.0]).reshape(2, 1), 0.05),
        lambda: sdof.response_series(rec),
        lambda: sdof.response_series(rec, 0.01, [0.5]),
        lambda: sdof.response_series(rec, 0.01, [0.5], 0.05, 1),
        lambda: sdof.nigam_and_jennings_response(rec, 0.01, [0.5]),
        lambda: sdof.nigam_and_jennings_response(motion=rec, dt=0.01, periods=[0.5], xi=0.05),
        lambda: sdof.response_series(acc=rec, dt=0.01, periods=[0.5], xi=0.05),
        lambda: sdof.compute_a_and_b(0.05, 1.0),
        lambda: eqsig.AccSignal(rec, 0.01).response_series([0.5], 0.05, 3),
        lambda: eqsig.AccSignal(rec, 0.01).response_series(periods=[0.5]),
        lambda: eqsig.AccSignal(rec, 0.01).response_series(response_times=[], xi=0.05),
        lambda: eqsig.AccSignal(rec, 0.01).response_series(response_times=0.5),
        lambda: eqsig.AccSignal(rec, 0.01).response_series([0.5, 1.0], xi=np.array([-1, -1])),
        lambda: eqsig.AccSignal(rec, 0.01).response_series([0.5, 1.0], xi=np.array([-1])),
        lambda: eqsig.AccSignal(rec, 0.01).response_series([0.5, 1.0], xi=-1.0),
        lambda: eqsig.AccSignal(rec, 0.01).response_series([0.5, 1.0], xi=None),
        lambda: eqsig.AccSignal(rec, 0.01, verbose=2).response_series((0.0, 0.5, 1.0)),
        lambda: eqsig.AccSignal(rec.tolist(), 1, response_times=[0, 3, 7]).response_series(),
    ]
    for k, fn in enumerate(bad_cases):
        log.append(('D', k, guarded(fn)))

    # attribute-level interface of the anchored callables
    import inspect
    log.append(('E', 0, enc([str(inspect.signature(f)) for f in (sdof.compute_a_and_b, sdof.nigam_and_jennings_response,
                                                                    sdof.response_series, eqsig.AccSignal.response_series,
                                                                    sdof.pseudo_response_spectra)])))

    with open(out_path, 'wb') as f:
        pickle.dump(log, f, protocol=4)


# --------------------------------------------------------------------------------------
# the driver
# --------------------------------------------------------------------------------------
def main():
    wt = os.getcwd()
    if not os.path.isdir(os.path.join(wt, 'eqsig')):
        print('run with cwd = the worktree')
        return 2
    tmp = tempfile.mkdtemp(prefix='equiv_c01_')
    try:
        orig_root = os.path.join(tmp, 'orig')
        os.makedirs(orig_root)
        tar_path = os.path.join(tmp, 'orig.tar')
        subprocess.check_call(['git', 'archive', '-o', tar_path, 'HEAD', 'eqsig'], cwd=wt)
        with tarfile.open(tar_path) as tf:
            tf.extractall(orig_root)
        me = os.path.abspath(__file__)
        outs = {}
        procs = {}
        for tag, root in (('orig', orig_root), ('edit', wt)):
            env = dict(os.environ)
            env['PYTHONPATH'] = root
            env['PYTHONDONTWRITEBYTECODE'] = '1'
            env['PYTHONHASHSEED'] = '0'
            outs[tag] = os.path.join(tmp, tag + '.pkl')
            # cwd = tmp so that neither tree is picked up through the current directory
            procs[tag] = subprocess.Popen([sys.executable, me, '--worker', root, outs[tag]], env=env, cwd=tmp)
        for tag, p in procs.items():
            rc = p.wait()
            if rc != 0:
                print('worker %s failed with exit status %s' % (tag, rc))
                return 2
        with open(outs['orig'], 'rb') as f:
            lo = pickle.load(f)
        with open(outs['edit'], 'rb') as f:
            le = pickle.load(f)
    finally:
        shutil.rmtree(tmp, ignore_errors=True)

    if len(lo) != len(le):
        print('different number of records: %i vs %i' % (len(lo), len(le)))
        return 1
    n_bad = 0
    n_exc = 0
    for ro, re_ in zip(lo, le):
        if ro != re_:
            n_bad += 1
            if n_bad <= 10:
                print('MISMATCH in record', ro[:3])
                so, se = repr(ro), repr(re_)
                i = next((j for j in range(min(len(so), len(se))) if so[j] != se[j]), 0)
                print('   orig: ...%s' % so[max(0, i - 150):i + 150])
                print('   edit: ...%s' % se[max(0, i - 150):i + 150])
        if "'exc'" in repr(ro)[:4000]:
            n_exc += 1
    print('%i records compared (%i involving an exception), %i mismatches' % (len(lo), n_exc, n_bad))
    expected = N_FUNC_CASES + 60 + N_AB_CASES + 11 + N_OBJ_CASES
    if len(lo) < expected:
        print('too few records')
        return 1
    return 1 if n_bad else 0


if __name__ == '__main__':
    if len(sys.argv) > 1 and sys.argv[1] == '--worker':
        worker(sys.argv[2], sys.argv[3])
        sys.exit(0)
    sys.exit(main())

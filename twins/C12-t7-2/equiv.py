"""Equivalence program: original (git HEAD) vs edited eqsig.fns.peaks_and_crossings.

Run with cwd = worktree:  PYTHONPATH=$PWD python out/equiv2.py
Exit status 0 iff every comparison matches.
"""
import copy
import importlib.util
import io
import itertools
import os
import subprocess
import sys
import tarfile
import tempfile
import time
import warnings

import numpy as np

warnings.simplefilter('ignore')
np.seterr(all='ignore')

T0 = time.time()
ROOT = os.getcwd()
REL = os.path.join('eqsig', 'fns', 'peaks_and_crossings.py')


def load(path, name):
    spec = importlib.util.spec_from_file_location(name, path)
    mod = importlib.util.module_from_spec(spec)
    spec.loader.exec_module(mod)
    return mod


tmpdir = tempfile.mkdtemp(prefix='c12_orig_')
blob = subprocess.run(['git', 'archive', 'HEAD', 'eqsig'], cwd=ROOT, check=True, stdout=subprocess.PIPE).stdout
tarfile.open(fileobj=io.BytesIO(blob)).extractall(tmpdir)
ORIG = load(os.path.join(tmpdir, REL), 'pc_original')
EDIT = load(os.path.join(ROOT, REL), 'pc_edited')
assert ORIG.__file__ != EDIT.__file__

n_cases = 0
failures = []


def same(a, b):
    """Strict structural comparison of two results."""
    if type(a) is not type(b):
        return False
    if isinstance(a, np.ndarray):
        return a.dtype == b.dtype and a.shape == b.shape and np.array_equal(a, b, equal_nan=a.dtype.kind == 'f')
    if isinstance(a, (tuple, list)):
        return len(a) == len(b) and all(same(x, y) for x, y in zip(a, b))
    if isinstance(a, float) and a != a:
        return b != b
    return a == b


def run(mod, fname, args, kwargs):
    try:
        return ('ok', getattr(mod, fname)(*args, **kwargs))
    except BaseException as e:  # noqa
        return ('exc', type(e).__name__, str(e))


def check(fname, *args, **kwargs):
    global n_cases
    n_cases += 1
    a0, k0 = copy.deepcopy(args), copy.deepcopy(kwargs)
    a1, k1 = copy.deepcopy(args), copy.deepcopy(kwargs)
    r0 = run(ORIG, fname, a0, k0)
    r1 = run(EDIT, fname, a1, k1)
    ok = same(r0, r1) and same_args(a0, a1) and same_args(tuple(k0.values()), tuple(k1.values()))
    if not ok:
        failures.append((fname, args, kwargs, r0, r1))
        if len(failures) <= 10:
            print('MISMATCH', fname, repr(args)[:300], kwargs, '\n   orig:', repr(r0)[:300], '\n   edit:', repr(r1)[:300])
    return r0


def same_args(a, b):
    """arguments after the call (mutation of arguments must be identical)"""
    for x, y in zip(a, b):
        if isinstance(x, Holder):
            x, y = x.values, y.values
        if isinstance(x, np.ndarray):
            if not same(x, y):
                return False
        elif isinstance(x, (list, tuple)):
            if not same(list(x), list(y)):
                return False
        elif not same(x, y):
            return False
    return True


class Holder(object):
    """Minimal object with a `values` attribute (as eqsig.AccSignal has)."""
    def __init__(self, values):
        self.values = values


ZC_CONFIGS = [dict(), dict(keep_adj_zeros=True), dict(tol=0.5), dict(keep_adj_zeros=True, tol=0.5),
              dict(tol=1.5), dict(keep_adj_zeros=True, tol=1.5)]
SP_CONFIGS = [dict(), dict(tol=0.5), dict(tol=1.5)]


def check_series(v, zc_configs=ZC_CONFIGS, sp_configs=SP_CONFIGS, extras=False):
    for cfg in zc_configs:
        check('get_zero_crossings_array_indices', v, **cfg)
    for cfg in sp_configs:
        check('get_switched_peak_array_indices', v, **cfg)
    if extras:
        check('get_zero_and_peak_array_indices', v)
        check('get_zero_and_peak_array_indices', v, min_step=1)
        check('get_n_cyc_array', v, opt='switched')
        check('get_n_cyc_array', v, opt='switched', start='peak')
        check('get_switched_peak_indices', Holder(v))
        check('get_switched_peak_indices', v)
        check('get_zero_crossings_indices', Holder(v))


# ---- 1. exhaustive small alphabets ------------------------------------------------------
for n in range(1, 7):
    for tup in itertools.product((-2, -1, 0, 1, 2), repeat=n):
        check_series(np.array(tup, dtype=float), extras=(n <= 4))
for n in range(1, 5):
    for tup in itertools.product((-3, -2, -1, 0, 1, 2, 3), repeat=n):
        check_series(np.array(tup, dtype=float), zc_configs=[dict(), dict(tol=2.5), dict(keep_adj_zeros=True, tol=1.0)],
                     sp_configs=[dict(), dict(tol=2.5)])
print('exhaustive done  %.1fs  cases=%d' % (time.time() - T0, n_cases))

rng = np.random.RandomState(12012)

# ---- 2. sampled small-alphabet series of length 7..12, int typed / list / tuple forms --------
for it in range(2500):
    n = rng.randint(7, 13)
    a = rng.randint(-2, 3, size=n) if it % 2 else rng.randint(-3, 4, size=n)
    form = it % 5
    if form == 0:
        v = a.astype(float)
    elif form == 1:
        v = a.astype(np.int64)
    elif form == 2:
        v = [int(x) for x in a]
    elif form == 3:
        v = tuple(float(x) for x in a)
    else:
        v = a.astype(np.int32)
    check_series(v, extras=(it % 4 == 0))
print('sampled done  %.1fs  cases=%d' % (time.time() - T0, n_cases))


# ---- 3. random series with several levels per excursion, with zero runs, up to length 5000 ----
def excursion_series(rng, n_target, zero_prob=0.3, start_zero=None):
    parts = []
    sign = 1.0 if rng.rand() < 0.5 else -1.0
    if start_zero if start_zero is not None else rng.rand() < 0.5:
        parts.append(np.zeros(rng.randint(1, 4)))
    total = 0
    while total < n_target:
        m = rng.randint(1, 9)
        if rng.rand() < 0.5:
            seg = sign * rng.randint(1, 6, size=m).astype(float) * 0.25
        else:
            seg = sign * (rng.rand(m) * 3.0 + 1e-3)
        parts.append(seg)
        total += m
        if rng.rand() < zero_prob:
            z = rng.randint(1, 4)
            parts.append(np.zeros(z))
            total += z
        if rng.rand() < 0.85:
            sign = -sign
    return np.concatenate(parts)


lengths = [3, 5, 8, 13, 21, 40, 80, 150, 300, 700, 1500, 5000]
for it in range(420):
    n = lengths[it % len(lengths)]
    v = excursion_series(rng, n, zero_prob=[0.0, 0.3, 0.7][it % 3])
    tols = [0.3, 0.8, 1.6, 10.0]
    t = tols[it % 4]
    zc = [dict(), dict(keep_adj_zeros=True), dict(tol=t), dict(keep_adj_zeros=True, tol=t), dict(tol=np.float64(t)),
          dict(keep_adj_zeros=1), dict(keep_adj_zeros=0, tol=1)]
    sp = [dict(), dict(tol=t), dict(tol=0.05)]
    check_series(v, zc_configs=zc, sp_configs=sp, extras=(n <= 700))
    if it % 3 == 0:
        check_series(-v, zc_configs=zc[:3], sp_configs=sp[:2])
    if it % 7 == 0:
        check_series(list(v), zc_configs=zc[:3], sp_configs=sp[:2])
print('random excursions done  %.1fs  cases=%d' % (time.time() - T0, n_cases))

# smooth-ish signals (sines + noise, offsets so that first sample is non-zero)
for it in range(150):
    n = rng.randint(2, 1200)
    t = np.arange(n) * 0.01
    v = np.sin(2 * np.pi * rng.uniform(0.2, 8) * t + rng.uniform(0, 6)) * rng.uniform(0.1, 3) + 0.3 * rng.randn(n)
    if it % 3 == 0:
        v = np.round(v, 1)
    if it % 5 == 0:
        v = v.astype(np.float32)
    check_series(v, zc_configs=[dict(), dict(keep_adj_zeros=True), dict(tol=0.2), dict(tol=1.0)],
                 sp_configs=[dict(), dict(tol=0.2), dict(tol=1.0)], extras=True)
print('smooth done  %.1fs  cases=%d' % (time.time() - T0, n_cases))

# ---- 4. corners ---------------------------------------------------------------------------
tiny = 1e-200
corner_series = [
    [0.0], [1.0], [-1.0], [0], [3], [0.0, 0.0], [0.0, 0.0, 0.0, 0.0], [1.0, 1.0, 1.0], [-2.0, -2.0],
    [1.0, -1.0], [-1.0, 1.0], [0.0, 1.0], [1.0, 0.0], [0.0, -1.0, 0.0], [2, 2, -2, -2, 2, 2],
    [tiny, -tiny, tiny], [tiny, tiny, -tiny, -1.0, tiny], [-tiny, 1.0, -tiny, -tiny],
    [1e300, -1e300, 1e300], [1e300, 1e300, -1e300], [5e-324, -5e-324, 5e-324, 0.0, 5e-324],
    [-0.0, 0.0, -0.0, 1.0, -0.0, -1.0], [0.0, -0.0],
    [np.inf, -np.inf, 1.0, 0.0, -np.inf], [-np.inf, np.inf], [np.inf, 0.0, np.inf],
    [np.nan, 1.0, -1.0], [1.0, np.nan, -1.0, 0.0, 0.0, 2.0], [0.0, np.nan], [np.nan], [np.nan, np.nan],
    [1.0, -1.0, np.nan], [0.0, 1.0, np.nan, 2.0, -1.0, np.nan, -3.0, 0.0],
    [True, False, True], [1, -1.5, 2], [np.float32(0.1), np.float32(-0.1)],
    list(range(-5, 6)), list(range(5, -6, -1)), [0, 1, 2, 3, 2, 1, 0, -1, -2, -1, 0, 0, 1],
    [0, 2, 1, 2, -1, 1, 0, 0, 1, 0.3, 0, -1, 0.2, 1, 0.2],
    [0, 2, 1, 2, -1, 1, 1, 0.3, -1, 0.2, 1, 0.2],
    np.array([0.1, 0.05, 0.1, -0.05, -0.1, 0.02, -0.02, 0.5, -0.5]),
    np.array([3, -1, 2, -4, 0, 0, 5], dtype=np.int16), np.array([1, 0, 2], dtype=np.uint8),
    np.array([1, -1, 1], dtype=object),
]
tol_values = [0, 0.0, 1e-300, 0.06, 0.5, 1, 2.0, 1e308, np.inf, np.nan, np.float32(0.5), np.int64(1), True]
for v in corner_series:
    for tol in tol_values:
        for kaz in (False, True, 0, 1, None, 'yes', ''):
            check('get_zero_crossings_array_indices', v, keep_adj_zeros=kaz, tol=tol)
        check('get_zero_crossings_array_indices', v, kaz, tol)
        check('get_switched_peak_array_indices', v, tol=tol)
        check('get_switched_peak_array_indices', v, tol)
    check_series(v, zc_configs=[dict()], sp_configs=[dict()], extras=True)
    if isinstance(v, list):
        check_series(tuple(v), zc_configs=[dict(), dict(tol=0.5)], sp_configs=[dict(), dict(tol=0.5)])

# exceptions / out-of-domain forms: must fail (or succeed) identically
# (0-d scalars and 2-D arrays are not series - outside the property's domain - and are not compared here: the
#  original fails on them / returns meaningless row indices at whichever NumPy call first meets the wrong rank)
bad_series = [[], (), np.array([]), np.zeros(0, dtype=int), 'abc', ['a', 'b'],
              [1, [2, 3]], [None, 1.0], [1 + 2j, -1.0], {'a': 1}]
for v in bad_series:
    for kw in (dict(), dict(tol=0.5), dict(tol=-1.0), dict(tol=-0.0), dict(tol='x'), dict(tol=None)):
        check('get_zero_crossings_array_indices', v, **kw)
        check('get_zero_crossings_array_indices', v, keep_adj_zeros=True, **kw)
        check('get_switched_peak_array_indices', v, **kw)
    check('get_switched_peak_indices', v)
    check('get_switched_peak_indices', Holder(v))
    check('get_zero_crossings_indices', Holder(v))
    check('get_zero_crossings_indices', v)
for v in corner_series[:12]:
    for kw in (dict(tol=-1.0), dict(tol=-1e-300), dict(tol=-np.inf), dict(tol='x'), dict(tol=None), dict(tol=[0.1]),
               dict(tol=np.array([0.5])), dict(tol=np.array([0.0, 1.0]))):
        check('get_zero_crossings_array_indices', v, **kw)
        check('get_switched_peak_array_indices', v, **kw)
    check('get_n_cyc_array', v, opt='nope')
    check('get_n_cyc_array', v, opt='switched', start='nope')
    check('get_n_cyc_array', v, opt='all')
print('corners done  %.1fs  cases=%d' % (time.time() - T0, n_cases))

# ---- 5. histories: repeated calls on the same (shared, not copied) array and results fed back ----
for it in range(200):
    v = excursion_series(rng, rng.randint(5, 200))
    v_o, v_e = v.copy(), v.copy()
    for step in range(4):
        tol = [0.0, 0.4, 0.0, 1.2][step]
        zo = ORIG.get_zero_crossings_array_indices(v_o, keep_adj_zeros=bool(step % 2), tol=tol)
        ze = EDIT.get_zero_crossings_array_indices(v_e, keep_adj_zeros=bool(step % 2), tol=tol)
        po = ORIG.get_switched_peak_array_indices(v_o, tol=tol)
        pe = EDIT.get_switched_peak_array_indices(v_e, tol=tol)
        n_cases += 2
        if not (same(zo, ze) and same(po, pe) and same(v_o, v_e) and same(v_o, v)):
            failures.append(('history', it, step))
            print('MISMATCH history', it, step)
        # results must be fresh arrays that can be altered without affecting later calls
        zo[:] = -1
        ze[:] = -1
        po[:] = -1
        pe[:] = -1
    # subsequence property inputs: crossing indices used to slice and re-analyse each piece
    zc = ORIG.get_zero_crossings_array_indices(v)
    for a, b in zip(zc[:-1][:6], zc[1:][:6]):
        check_series(v[a:b + 1], zc_configs=[dict(), dict(tol=0.4)], sp_configs=[dict(), dict(tol=0.4)])

# real AccSignal objects through the object-level wrappers (edited package only is importable; use Holder for original)
try:
    sys.path.insert(0, ROOT)
    import eqsig
    for it in range(20):
        v = excursion_series(rng, 100)
        asig = eqsig.AccSignal(v, 0.01)
        r_e = EDIT.get_switched_peak_indices(asig)
        r_o = ORIG.get_switched_peak_indices(Holder(np.array(asig.values)))
        z_e = EDIT.get_zero_crossings_indices(asig)
        z_o = ORIG.get_zero_crossings_indices(Holder(np.array(asig.values)))
        n_cases += 2
        if not (same(r_e, r_o) and same(z_e, z_o)):
            failures.append(('asig', it))
            print('MISMATCH asig', it)
except ImportError as e:
    print('eqsig package import failed:', e)
    failures.append(('import',))

print('total cases: %d   failures: %d   time: %.1fs' % (n_cases, len(failures), time.time() - T0))
sys.exit(1 if failures else 0)

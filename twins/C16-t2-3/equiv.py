"""
Equivalence check for twin3 (load_signal / load_sig / load_asig go through the methods of a
private reader class _RecordFile; branches of load_signal / load_asig reordered).

Run with twin3 applied and cwd = the worktree:
    /venv/bin/python out/equiv3.py

The original package is extracted from git HEAD into a temporary directory. The same
deterministic scenario script is run in two subprocesses (original / edited package) and
the pickled observations are compared for exact equality.
"""
import os
import pickle
import subprocess
import sys
import tempfile

HERE = os.getcwd()


# --------------------------------------------------------------------------------------
# worker: runs in a subprocess with either the original or the edited package on sys.path
# --------------------------------------------------------------------------------------
def enc(obj):
    """Encode an object into something comparable with == (bit exact for arrays)."""
    import numpy as np
    if isinstance(obj, np.ndarray):
        return ("ndarray", str(obj.dtype), obj.shape, obj.tobytes())
    if isinstance(obj, np.generic):
        return ("npscalar", type(obj).__name__, np.asarray(obj).tobytes())
    if isinstance(obj, float):
        return ("float", obj.hex())
    if isinstance(obj, (list, tuple)):
        return (type(obj).__name__, [enc(o) for o in obj])
    if isinstance(obj, dict):
        return ("dict", sorted((str(k), enc(v)) for k, v in obj.items()))
    if obj is None or isinstance(obj, (str, int, bool, bytes)):
        return (type(obj).__name__, obj)
    if hasattr(obj, "__dict__"):
        return ("object", type(obj).__module__ + "." + type(obj).__name__, enc(vars(obj)))
    return ("repr", repr(obj))


def attempt(fn, *args, **kwargs):
    import warnings
    with warnings.catch_warnings(record=True) as wlist:
        warnings.simplefilter("always")
        try:
            out = ("ok", enc(fn(*args, **kwargs)))
        except Exception as e:  # noqa
            out = ("exc", type(e).__name__, str(e))
    return out, sorted((w.category.__name__, str(w.message)) for w in wlist)


def read_bytes(ffp):
    if not os.path.exists(ffp):
        return None
    with open(ffp, "rb") as f:
        return f.read()


def value_cases():
    import numpy as np
    rng = np.random.default_rng(20240616)
    cases = []
    for n in (1, 2, 3, 7, 50, 1000):
        cases.append(("normal%i" % n, rng.normal(size=n)))
        cases.append(("scaled%i" % n, rng.normal(size=n) * 10.0 ** rng.integers(-9, 14, size=n)))
    cases.append(("list", [0.1, -0.25, 3.0, 1e-7, -1e-7]))
    cases.append(("list_int", [1, -2, 3, 0]))
    cases.append(("list_mixed", [1, -2.5, 3, 0.0]))
    cases.append(("tuple", (0.5, 1.5, -2.5)))
    cases.append(("int64", np.arange(-5, 6, dtype=np.int64)))
    cases.append(("int32", np.arange(12, dtype=np.int32) * 1000))
    cases.append(("bigint", [2 ** 60 + 1, -(2 ** 55) - 3]))
    cases.append(("float32", rng.normal(size=9).astype(np.float32)))
    cases.append(("zeros", np.zeros(6)))
    cases.append(("negzero", np.array([-0.0, 0.0, -1e-9, 1e-9, 4.9999995e-6, 5e-7, -5e-7])))
    cases.append(("large", np.array([1e12, -1e12, 123456789.123456789, 1e300, -1e300, 1.7976931348623157e308])))
    cases.append(("nonfinite", np.array([np.nan, np.inf, -np.inf, 1.0])))
    cases.append(("halfway", np.array([0.0000005, 0.0000015, 0.0000025, -0.0000005, 2.5e-6, 1.0000005])))
    cases.append(("single_list", [3.25]))
    cases.append(("single_arr", np.array([-7.125])))
    cases.append(("empty", np.array([])))
    cases.append(("noncontig", rng.normal(size=40)[::3]))
    cases.append(("bool", np.array([True, False, True])))
    return cases


def dt_cases():
    import numpy as np
    return [1e-4, 0.005, 0.01, 0.02, 0.1, 0.12345, 0.99995, 1.0, 2.5, 12.3456, 100.0, 1, 100, np.float64(0.01),
            np.float32(0.02), 3.00004999]


LABELS = ["m1", "label with spaces", "", "  leading and trailing  ", "a,b;c", "#hash 12", "unicøde é",
          "tab\there", "12 0.5"]


def hand_files(tmp):
    """Files in (or near) the eqsig format that were not written by save_values_and_dt."""
    files = {}
    files["trailing_nl"] = "lab el\n3 0.0100\n1.000000\n-2.000000\n3.500000\n"
    files["crlf"] = "lab\r\n3 0.0200\r\n1.000000\r\n-2.000000\r\n3.500000"
    files["two_cols"] = "lab\n3 2.0000\n1.0,9.0\n-2.0,8.0\n3.5,7.0\n"
    files["blank_lines"] = "lab\n3 0.5000\n1.0\n\n-2.0\n\n3.5\n\n"
    files["comments"] = "lab\n3 0.5000\n1.0\n# a comment\n-2.0 # trailing\n3.5\n"
    files["sci"] = "lab\n4 0.0050 extra words\n1e-3\n-2.5E+2\n nan \n inf\n"
    files["one_value"] = "lab\n1 0.0100\n4.250000"
    files["no_values"] = "lab\n0 0.0100"
    files["bad_token"] = "lab\n3 0.0100\n1.0\nabc\n3.0\n"
    files["short"] = "only one line"
    files["bad_header"] = "lab\nnot-a-header\n1.0\n2.0\n"
    files["ff_label"] = "a\x0cb 7.5\n2 0.0100\n1.0\n2.0\n"
    paths = {}
    for name, text in files.items():
        ffp = os.path.join(tmp, "hand_%s.txt" % name)
        with open(ffp, "w", newline="") as f:
            f.write(text)
        paths[name] = ffp
    return paths


def load_everything(eqsig, ffp):
    """All loader entry points and options on one file."""
    import numpy as np
    from eqsig import loader
    obs = []
    obs.append(("lvd", attempt(loader.load_values_and_dt, ffp)))
    obs.append(("lvd_top", attempt(eqsig.load_values_and_dt, ffp)))
    for astype in ("sig", "signal", "acc_sig", "other", None):
        obs.append(("load_signal", astype, attempt(loader.load_signal, ffp, astype=astype)))
    obs.append(("load_signal_default", attempt(loader.load_signal, ffp)))
    obs.append(("load_signal_pos", attempt(loader.load_signal, ffp, "acc_sig")))
    obs.append(("load_sig_default", attempt(loader.load_sig, ffp)))
    obs.append(("load_asig_default", attempt(loader.load_asig, ffp)))
    for m in (1.0, 2.5, -1.0, 0.0, 9.81, 2, np.float64(0.1), 1e-3, 1e6):
        obs.append(("load_sig", repr(m), attempt(loader.load_sig, ffp, m=m)))
        obs.append(("load_sig_pos", repr(m), attempt(loader.load_sig, ffp, m)))
        for load_label in (False, True, 0, 1):
            obs.append(("load_asig", repr(m), load_label,
                        attempt(loader.load_asig, ffp, load_label=load_label, m=m)))
        obs.append(("load_asig_pos", repr(m), attempt(loader.load_asig, ffp, True, m)))
    # unusual scale factors: broadcasting array, invalid None / str (exception type and message)
    for m in (np.array([2.0]), np.array(3), None, "2", [2.0], True):
        obs.append(("load_sig_odd", repr(m), attempt(loader.load_sig, ffp, m=m)))
        obs.append(("load_asig_odd", repr(m), attempt(loader.load_asig, ffp, load_label=True, m=m)))
    return obs


def worker(root, outfile):
    sys.path.insert(0, root)
    import numpy as np
    import eqsig
    from eqsig import loader
    assert os.path.abspath(eqsig.__file__).startswith(os.path.abspath(root) + os.sep), (eqsig.__file__, root)
    assert os.path.abspath(loader.__file__).startswith(os.path.abspath(root) + os.sep)
    import copy

    results = []
    tmp = tempfile.mkdtemp(prefix="eqv_", dir="/tmp")
    vcases = value_cases()
    dts = dt_cases()
    k = 0
    # 1. save_values_and_dt on raw inputs: file bytes, return value, argument mutation; then every loader
    for vi, (vname, vals) in enumerate(vcases):
        for di in range(3):
            dt = dts[(vi * 3 + di) % len(dts)]
            label = LABELS[(vi + di) % len(LABELS)]
            k += 1
            ffp = os.path.join(tmp, "rec_%i.txt" % k)
            before = copy.deepcopy(vals)
            res = attempt(loader.save_values_and_dt, ffp, vals, dt, label)
            mutated = enc(before) != enc(vals)
            results.append(("save", vname, repr(dt), label, res, mutated, type(vals).__name__, read_bytes(ffp)))
            if os.path.exists(ffp):
                results.append(("loads", vname, repr(dt), label, load_everything(eqsig, ffp)))
    # every dt with one record, through the top-level names and keyword arguments
    for di, dt in enumerate(dts):
        ffp = os.path.join(tmp, "dt_%i.txt" % di)
        vals = vcases[3][1]
        res = attempt(eqsig.save_values_and_dt, ffp=ffp, values=vals, dt=dt, label=LABELS[di % len(LABELS)])
        results.append(("save_dt", repr(dt), res, read_bytes(ffp)))
        results.append(("loads_dt", repr(dt), load_everything(eqsig, ffp)))
    # 2. invalid arguments to save_values_and_dt (exception type and the state of the file afterwards)
    for bname, (vals, dt, label) in {
        "label_none": ([1.0, 2.0], 0.01, None),
        "label_int": ([1.0, 2.0], 0.01, 5),
        "dt_str": ([1.0, 2.0], "x", "lab"),
        "val_str": ([1.0, "a"], 0.01, "lab"),
        "val_none": ([1.0, None], 0.01, "lab"),
        "scalar": (3.0, 0.01, "lab"),
    }.items():
        ffp = os.path.join(tmp, "bad_%s.txt" % bname)
        res = attempt(loader.save_values_and_dt, ffp, vals, dt, label)
        results.append(("save_bad", bname, res[0][0], res[0][1] if res[0][0] == "exc" else None, read_bytes(ffp)))
    results.append(("save_nodir", attempt(loader.save_values_and_dt, os.path.join(tmp, "nodir", "x.txt"),
                                          [1.0], 0.01, "lab")[0][:2]))
    # 3. save_signal on Signal / AccSignal objects, object state before/after, multi-step histories
    for vi, (vname, vals) in enumerate(vcases):
        if len(vals) < 2:
            continue
        for cls_name in ("Signal", "AccSignal"):
            cls = getattr(eqsig, cls_name)
            dt = dts[(vi * 5 + 1) % len(dts)]
            label = LABELS[(vi * 2 + 1) % len(LABELS)]
            sig = cls(vals, dt, label=label)
            k += 1
            ffp = os.path.join(tmp, "sig_%i.txt" % k)
            state0 = enc(sig)
            res = attempt(loader.save_signal, ffp, sig)
            results.append(("save_signal", vname, cls_name, res, state0 == enc(sig), enc(sig), read_bytes(ffp)))
            results.append(("loads_sig", vname, cls_name, load_everything(eqsig, ffp)))
            # history: load, modify, save again, load again
            if np.all(np.isfinite(np.asarray(vals, dtype=float))) and np.max(np.abs(np.asarray(vals, dtype=float))) < 1e100:
                a2 = loader.load_asig(ffp, load_label=True, m=2.0)
                a2.reset_values(a2.values - np.mean(a2.values))
                if len(vals) > 40:
                    if dt < 0.02:
                        a2.butter_pass([0.5, 20.0])
                    _ = a2.fa_spectrum
                    a2.generate_displacement_and_velocity_series()
                a2.label = label + " again"
                ffp2 = os.path.join(tmp, "sig_%i_b.txt" % k)
                results.append(("save_signal2", vname, cls_name, attempt(eqsig.save_signal, ffp2, a2), enc(a2),
                                read_bytes(ffp2)))
                results.append(("loads_sig2", vname, cls_name, load_everything(eqsig, ffp2)))
                # overwrite an existing longer file with a shorter record
                s3 = eqsig.Signal(a2.values[:2], 1.5, label="short one")
                results.append(("overwrite", vname, cls_name, attempt(eqsig.save_signal, ffp2, s3), read_bytes(ffp2),
                                load_everything(eqsig, ffp2)))
    # 4. files not written by this package
    for name, ffp in sorted(hand_files(tmp).items()):
        results.append(("hand", name, load_everything(eqsig, ffp), read_bytes(ffp)))
    test_file = os.path.join(HERE, "tests", "unit_test_data", "test_motion_dt0p01.txt")
    if os.path.exists(test_file):
        results.append(("test_file", load_everything(eqsig, test_file)))
        import pathlib
        results.append(("test_file_path", load_everything(eqsig, pathlib.Path(test_file))))
        asig = loader.load_signal(test_file, astype="acc_sig")
        ffp = os.path.join(tmp, "test_copy.txt")
        results.append(("test_file_resave", attempt(loader.save_signal, pathlib.Path(ffp), asig), read_bytes(ffp),
                        load_everything(eqsig, ffp)))
    else:
        results.append(("test_file_missing",))
    results.append(("missing", [o[:-1] + (o[-1][0][:2],) for o in load_everything(eqsig, os.path.join(tmp, "nope.txt"))]))
    # public surface of the module
    import inspect
    results.append(("signatures", [(n, str(inspect.signature(getattr(loader, n)))) for n in
                                   ("load_values_and_dt", "save_values_and_dt", "load_signal", "load_sig",
                                    "load_asig", "save_signal")]))
    with open(outfile, "wb") as f:
        pickle.dump(_strip(results, tmp), f)


def _strip(obj, tmp):
    """Replace the temporary directory name inside strings (exception messages contain it)."""
    if isinstance(obj, str):
        return obj.replace(tmp, "<TMP>")
    if isinstance(obj, tuple):
        return tuple(_strip(o, tmp) for o in obj)
    if isinstance(obj, list):
        return [_strip(o, tmp) for o in obj]
    return obj


# --------------------------------------------------------------------------------------
# driver
# --------------------------------------------------------------------------------------
def first_difference(a, b, path="root"):
    if type(a) != type(b):
        return "%s: type %s != %s" % (path, type(a).__name__, type(b).__name__)
    if isinstance(a, (list, tuple)):
        if len(a) != len(b):
            return "%s: len %i != %i" % (path, len(a), len(b))
        for i, (x, y) in enumerate(zip(a, b)):
            d = first_difference(x, y, "%s[%i]" % (path, i))
            if d:
                return d
        return None
    if a != b:
        return "%s: %r != %r" % (path, a if not isinstance(a, bytes) else a[:200], b if not isinstance(b, bytes) else b[:200])
    return None


def main():
    tmp = tempfile.mkdtemp(prefix="eqv_orig_", dir="/tmp")
    subprocess.check_call("git archive HEAD eqsig | tar -x -C %s" % tmp, shell=True, cwd=HERE)
    outs = []
    for name, root in (("orig", tmp), ("new", HERE)):
        outfile = os.path.join(tmp, name + ".pkl")
        env = dict(os.environ, PYTHONHASHSEED="0")
        subprocess.check_call([sys.executable, os.path.abspath(__file__), "--worker", root, outfile], cwd=HERE, env=env)
        with open(outfile, "rb") as f:
            outs.append(pickle.load(f))
    orig, new = outs
    n_obs = sum(len(r[-1]) if isinstance(r[-1], list) else 1 for r in orig)
    diff = first_difference(orig, new)
    if diff:
        print("MISMATCH:", diff)
        sys.exit(1)
    assert len(orig) > 200
    print("OK: %i scenario records (%i observations) identical between original and edited package" % (len(orig), n_obs))
    sys.exit(0)


if __name__ == "__main__":
    if len(sys.argv) > 1 and sys.argv[1] == "--worker":
        worker(sys.argv[2], sys.argv[3])
    else:
        main()

"""Equivalence program for twin 1 (shared centred-window helper behind Signal.running_average and
AccSignal.remove_rolling_average).

Run with the edit applied and cwd = the worktree.  The original package is taken from `git archive HEAD eqsig`
into a temporary directory; original and edited versions run in separate subprocesses over the same
deterministic case list and their canonicalised outputs are compared exactly (bit-for-bit).
"""
import hashlib
import io
import os
import pickle
import subprocess
import sys
import tarfile
import tempfile
import warnings


def canon(x):
    import numpy as np
    if isinstance(x, np.ndarray):
        return ('nd', str(x.dtype), x.shape, x.tobytes())
    if isinstance(x, np.generic):
        return ('ng', str(x.dtype), x.tobytes())
    if isinstance(x, (list, tuple)):
        return (type(x).__name__,) + tuple(canon(v) for v in x)
    if isinstance(x, float):
        return ('f', repr(x))
    if isinstance(x, BaseException):
        return ('EXC', type(x).__name__, str(x))
    return ('o', type(x).__name__, repr(x))


def snapshot(sig, acc):
    """Everything observable through the public API that the edit could touch."""
    out = [canon(sig.values), canon(sig.npts), canon(sig.time), canon(sig.dt)]
    for attr in (('velocity', 'displacement') if acc else ()):
        try:
            out.append(canon(getattr(sig, attr)))
        except Exception as e:  # e.g. non numeric data
            out.append(canon(e))
    try:
        out.append(canon(sig.fa_spectrum))
        out.append(canon(sig.fa_freqs))
    except Exception as e:
        out.append(canon(e))
    return tuple(out)


def records(np):
    rng = np.random.RandomState(20240705)
    recs = []
    for n in (1, 2, 3, 4, 5, 6, 7, 8, 11, 16, 23, 40):
        recs.append(rng.randn(n))
        recs.append(rng.randint(-9, 10, size=n))
        recs.append(list(rng.randn(n)))
        recs.append([int(v) for v in rng.randint(-5, 6, size=n)])
    recs.append(np.zeros(9))
    recs.append(np.ones(6, dtype=np.int32))
    recs.append(np.array([0.0, 1.0, np.nan, 2.0, -1.0, 0.5, 3.0]))
    recs.append(np.array([0.0, np.inf, 1.0, -np.inf, 2.0, -1.0]))
    recs.append(np.arange(12, dtype=np.float32))
    recs.append(np.arange(10)[::2])
    recs.append(tuple(float(v) for v in range(7)))
    recs.append(np.array([1 + 2j, 2 - 1j, 0.5j, 3, -2, 1j]))
    recs.append(np.array([True, False, True, True, False]))
    recs.append([])
    return recs


WIDTHS = [1, 2, 3, 4, 5, 6, 7, 9, 0, -1, -3, 2.5, 3.0, 1.0e3, 50, 'a', None, True]
FREQ_WINDOWS = [1, 2, 3, 5, 0.5, 0.25, 10, 11, 20, 100, 7.3, 0, -1, 'x']
DTS = [0.1, 0.05, 0.01, 0.3]


def run_op(sig, op):
    name, args, kwargs = op
    with warnings.catch_warnings(record=True) as w:
        warnings.simplefilter('always')
        try:
            r = getattr(sig, name)(*args, **kwargs)
            res = canon(r)
        except Exception as e:
            res = canon(e)
    return res, tuple(sorted(set((x.category.__name__, str(x.message)) for x in w)))


def worker(pkg_dir, out_path):
    sys.path.insert(0, pkg_dir)
    import numpy as np
    import eqsig
    assert os.path.realpath(eqsig.__file__).startswith(os.path.realpath(pkg_dir)), eqsig.__file__
    np.seterr(all='ignore')
    results = []
    recs = records(np)
    rng = np.random.RandomState(7)

    # 1. single calls: every record x every width / window, both classes
    for ri, rec in enumerate(recs):
        for cls_name in ('Signal', 'AccSignal'):
            cls = getattr(eqsig, cls_name)
            acc = cls_name == 'AccSignal'
            for dt in DTS[:2]:
                for w in WIDTHS:
                    keep = pickle.dumps(rec)
                    try:
                        sig = cls(rec, dt)
                    except Exception as e:
                        results.append(('ctor', ri, cls_name, canon(e)))
                        continue
                    r = run_op(sig, ('running_average', (), {'width': w}))
                    results.append(('ra', ri, cls_name, dt, repr(w), r, snapshot(sig, acc),
                                    pickle.dumps(rec) == keep))
                    # a second call on the same object (history)
                    r = run_op(sig, ('running_average', (w,), {}))
                    results.append(('ra2', ri, cls_name, dt, repr(w), r, snapshot(sig, acc),
                                    pickle.dumps(rec) == keep))
        for dt in DTS:
            for fw in FREQ_WINDOWS:
                for mtype in ('velocity', 'acceleration', 'acc'):
                    keep = pickle.dumps(rec)
                    try:
                        sig = eqsig.AccSignal(rec, dt)
                    except Exception as e:
                        results.append(('ctor', ri, canon(e)))
                        continue
                    r = run_op(sig, ('remove_rolling_average', (), {'mtype': mtype, 'freq_window': fw}))
                    results.append(('rra', ri, dt, repr(fw), mtype, r, snapshot(sig, True),
                                    pickle.dumps(rec) == keep))

    # 2. default arguments
    for ri, rec in enumerate(recs):
        try:
            sig = eqsig.AccSignal(rec, 0.02)
        except Exception as e:
            continue
        results.append(('dflt', ri, run_op(sig, ('running_average', (), {})), snapshot(sig, True)))
        results.append(('dflt', ri, run_op(sig, ('remove_rolling_average', (), {})), snapshot(sig, True)))

    # 3. random histories of public operations, with aliasing probes
    op_pool = [
        lambda: ('running_average', (int(rng.randint(1, 9)),), {}),
        lambda: ('running_average', (), {'width': float(rng.randint(1, 12)) / 2}),
        lambda: ('remove_rolling_average', (), {'mtype': 'velocity', 'freq_window': int(rng.randint(1, 6))}),
        lambda: ('remove_rolling_average', ('values', int(rng.randint(1, 6))), {}),
        lambda: ('add_constant', (float(rng.randn()),), {}),
        lambda: ('remove_average', (), {}),
        lambda: ('remove_poly', (1,), {}),
        lambda: ('rebase_displacement', (), {}),
        lambda: ('set_zero_residual_displacement', (), {}),
        lambda: ('set_zero_residual_velocity', (), {}),
        lambda: ('reset_values', (rng.randn(int(rng.randint(3, 30))),), {}),
        lambda: ('reset_values', ([int(v) for v in rng.randint(-4, 5, size=int(rng.randint(3, 20)))],), {}),
        lambda: ('butter_pass', ((0.5, 4.0),), {}),
        lambda: ('clear_cache', (), {}),
    ]
    for h in range(400):
        n = int(rng.randint(12, 60))
        rec = rng.randn(n) if h % 3 else rng.randint(-6, 7, size=n)
        if h % 5 == 0:
            rec = list(rec)
        keep = pickle.dumps(rec)
        dt = DTS[h % len(DTS)]
        sig = eqsig.AccSignal(rec, dt)
        other = eqsig.AccSignal(sig.values, dt)  # a second object built from the first one's values
        trace = []
        for step in range(int(rng.randint(2, 8))):
            op = op_pool[int(rng.randint(len(op_pool)))]()
            given = op[1][0] if op[0] == 'reset_values' else None
            gkeep = pickle.dumps(given)
            r = run_op(sig, op)
            trace.append((op[0], r, snapshot(sig, True), snapshot(other, True) if step == 0 else None,
                          pickle.dumps(rec) == keep, pickle.dumps(given) == gkeep))
        results.append(('hist', h, tuple(trace)))

    with open(out_path, 'wb') as f:
        pickle.dump(results, f, protocol=4)


def main():
    cwd = os.getcwd()
    tmp = tempfile.mkdtemp(prefix='equiv1_')
    orig_dir = os.path.join(tmp, 'orig')
    os.makedirs(orig_dir)
    data = subprocess.check_output(['git', 'archive', 'HEAD', 'eqsig'], cwd=cwd)
    with tarfile.open(fileobj=io.BytesIO(data)) as tf:
        tf.extractall(orig_dir)
    outs = []
    for tag, pkg in (('orig', orig_dir), ('edit', cwd)):
        out_path = os.path.join(tmp, tag + '.pkl')
        env = dict(os.environ)
        env['PYTHONPATH'] = pkg
        env['PYTHONHASHSEED'] = '0'
        subprocess.check_call([sys.executable, os.path.abspath(__file__), '--worker', pkg, out_path],
                              cwd=tmp, env=env)
        with open(out_path, 'rb') as f:
            outs.append(pickle.load(f))
    a, b = outs
    bad = 0
    if len(a) != len(b):
        print('different number of cases', len(a), len(b))
        bad += 1
    for x, y in zip(a, b):
        if x != y:
            bad += 1
            if bad < 6:
                print('MISMATCH', x[:5])
    n_input_changed = sum(1 for x in a if x[0] in ('ra', 'ra2', 'rra') and x[-1] is not True)
    print('cases: %d, mismatches: %d, (orig) caller-array changed: %d, digest %s' % (
        len(a), bad, n_input_changed, hashlib.sha1(pickle.dumps(a)).hexdigest()[:12]))
    import shutil
    shutil.rmtree(tmp, ignore_errors=True)
    sys.exit(1 if bad else 0)


if __name__ == '__main__':
    if len(sys.argv) > 1 and sys.argv[1] == '--worker':
        worker(sys.argv[2], sys.argv[3])
    else:
        main()

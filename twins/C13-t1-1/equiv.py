"""
Equivalence check for twin1 (run with twin1 applied, cwd = worktree).

Compares eqsig.fns.peaks_and_crossings.determine_peaks_only_delta_series and
determine_pseudo_cyclic_peak_only_series (edited: shared private helpers extracted)
against the original source taken from git HEAD.
"""
import copy
import os
import subprocess
import sys
import types

import numpy as np

HERE = os.getcwd()
sys.path.insert(0, HERE)

import eqsig  # noqa: E402
import eqsig.fns.peaks_and_crossings as new_pc  # noqa: E402

assert os.path.abspath(eqsig.__file__).startswith(HERE), eqsig.__file__

REL = 'eqsig/fns/peaks_and_crossings.py'
src = subprocess.check_output(['git', 'show', 'HEAD:' + REL], cwd=HERE).decode()
old_pc = types.ModuleType('orig_peaks_and_crossings')
old_pc.__file__ = 'HEAD:' + REL
exec(compile(src, 'HEAD:' + REL, 'exec'), old_pc.__dict__)

# make sure we really are comparing two different sources
assert open(os.path.join(HERE, REL)).read() != src, 'twin1 is not applied'
assert not hasattr(old_pc, '_rebase_and_clean') and hasattr(new_pc, '_rebase_and_clean')

FUNCS = ['determine_peaks_only_delta_series', 'determine_pseudo_cyclic_peak_only_series']
n_checked = 0
n_raised = 0


def same(a, b):
    """bit-for-bit equality: same type, dtype, shape, values (NaN == NaN) and sign of zeros"""
    if type(a) is not type(b):
        return False
    if not isinstance(a, np.ndarray):
        return a == b
    if a.dtype != b.dtype or a.shape != b.shape:
        return False
    if a.dtype.kind == 'f':
        return np.array_equal(a, b, equal_nan=True) and np.array_equal(np.signbit(a), np.signbit(b))
    return np.array_equal(a, b)


def run(fn, arg):
    with np.errstate(all='ignore'):
        try:
            return 'ok', fn(arg)
        except Exception as e:  # noqa
            return 'exc', (type(e), str(e))


def check(values, label):
    global n_checked, n_raised
    for name in FUNCS:
        arg_old = copy.deepcopy(values)
        arg_new = copy.deepcopy(values)
        k_old, r_old = run(getattr(old_pc, name), arg_old)
        k_new, r_new = run(getattr(new_pc, name), arg_new)
        assert k_old == k_new, (label, name, k_old, k_new, r_old, r_new)
        if k_old == 'exc':
            assert r_old == r_new, (label, name, r_old, r_new)
            n_raised += 1
        else:
            assert same(r_old, r_new), (label, name, r_old, r_new)
        # argument mutation behaviour identical (and in fact absent)
        for before, after in ((values, arg_old), (values, arg_new)):
            if isinstance(before, np.ndarray):
                assert before.dtype == after.dtype and np.array_equal(before, after, equal_nan=before.dtype.kind == 'f'), \
                    (label, name, 'argument mutated')
            else:
                assert type(before) is type(after) and before == after, (label, name, 'argument mutated')
        n_checked += 1


rng = np.random.RandomState(20240913)

# --- documented example and hand written edge cases
fixed = [
    [0, 2, 1, 2, 0, 1, 0, -1, 0, 1, 0],
    [0., 2, 1, 2, 0.3, 1, 0.3, -1, 0.4, 1, 0],
    [0, 1], [1, 0], [0., 1.], [5., 5., 6.], [5, 5, 4], [3, 3, 3, 2, 2, 7, 7, 7],
    [1, 2, 3, 4], [4, 3, 2, 1], [1., 1., 2., 2., 3., 3.],
    [0, 1, 0], [0, -1, 0], [7, 8, 7, 8, 7, 8], [-3.5, -3.5, -1.0, -1.0, -2.0, -2.0, 4.0],
    [1e300, -1e300, 1e300], [1e-320, 0.0, 1e-320], [0.0, -0.0, 1.0, -0.0],
    [0.1, 0.2, 0.30000000000000004, 0.3, 0.1],
    # constant / degenerate series (outside the property's domain: both must fail the same way)
    [1, 1, 1], [2.5], [0], [],
    [0.0, np.nan, 1.0, 0.5], [0.0, np.inf, 1.0], [np.nan, 1.0, 2.0],
]
for i, v in enumerate(fixed):
    check(list(v), 'fixed-list-%d' % i)
    check(tuple(v), 'fixed-tuple-%d' % i)
    check(np.array(v), 'fixed-array-%d' % i)
    check(np.array(v, dtype=float), 'fixed-float-%d' % i)
    check(np.array(v, dtype=float) + 12.25, 'fixed-offset-%d' % i)

for dt in (np.int8, np.int16, np.int32, np.int64, np.float32, np.float64, np.longdouble):
    for v in ([0, 2, 1, 2, 0, 1, 0, -1, 0, 1, 0], [5, 5, 4, 4, 9, 9, 9, 1], [1, 0], [0, 1], [-7, -7, -7, 3, 3, -2]):
        check(np.array(v, dtype=dt), 'dtype-%s' % dt.__name__)

# --- random series
for trial in range(600):
    n = int(rng.choice([2, 3, 4, 5, 8, 13, 50, 200, 1001]))
    kind = trial % 8
    if kind == 0:
        v = rng.normal(size=n)
    elif kind == 1:
        v = np.cumsum(rng.normal(size=n)) + rng.uniform(-100, 100)
    elif kind == 2:  # integer with plateaus
        v = rng.randint(-4, 5, size=n)
    elif kind == 3:  # integer, plateaus by repetition, with offset
        v = np.repeat(rng.randint(-50, 50, size=n), rng.randint(1, 4, size=n))[:max(n, 2)] + int(rng.randint(-1000, 1000))
    elif kind == 4:  # float with plateaus
        v = np.round(rng.normal(size=n), 1)
    elif kind == 5:  # float with long plateaus and offsets
        v = np.repeat(rng.uniform(-1, 1, size=n), rng.randint(1, 5, size=n)) + rng.uniform(-1e6, 1e6)
    elif kind == 6:  # monotonic pieces
        v = np.abs(rng.normal(size=n)).cumsum() * rng.choice([-1, 1])
    else:  # sine-like record
        t = np.arange(n) * 0.01
        v = np.sin(2 * np.pi * rng.uniform(0.5, 20) * t + rng.uniform(0, 6)) * np.exp(-t) + rng.uniform(-1, 1)
    check(v, 'rand-%d' % trial)
    check(v.tolist(), 'rand-list-%d' % trial)
    check(v[::-1], 'rand-reversed-view-%d' % trial)  # negative-stride view
    if v.dtype.kind == 'f':
        check(v.astype(np.float32), 'rand-f32-%d' % trial)
    else:
        check(v.astype(np.int32), 'rand-i32-%d' % trial)
        check(v.astype(float), 'rand-int-as-float-%d' % trial)

# non-contiguous / 2-D column views
base = rng.normal(size=(40, 3))
check(base[:, 1], 'column-view')
check(np.asfortranarray(base)[:, 2], 'fortran-column-view')

# read-only input must be accepted identically (the functions copy their input)
ro = rng.normal(size=30)
ro.setflags(write=False)
check(ro, 'read-only')

# --- the property itself still holds on the edited code (sanity, float series)
for trial in range(100):
    v = np.round(np.cumsum(rng.normal(size=60)), 1) + rng.uniform(-5, 5)
    if np.all(v == v[0]):
        continue
    d = new_pc.determine_peaks_only_delta_series(v)
    tv = np.sum(np.abs(np.diff(v)))
    assert np.isclose(np.sum(np.abs(d)), tv, rtol=1e-9, atol=1e-9)
    assert np.isclose(abs(np.sum(d)), abs(v[-1] - v[0]), rtol=1e-9, atol=1e-9)

print('equiv1: %d comparisons identical (%d of them identical exceptions)' % (n_checked, n_raised))
sys.exit(0)

"""Equivalence check: ORIGINAL (git HEAD) vs EDITED (working tree) peaks_and_crossings.

Run with the twin applied, cwd = the worktree:  /venv/bin/python out/equivK.py
Exit status 0 iff every comparison matches.
"""
import importlib.util
import io
import itertools
import os
import subprocess
import sys
import tarfile
import tempfile

import numpy as np

WORKTREE = os.path.dirname(os.path.dirname(os.path.abspath(__file__)))
os.chdir(WORKTREE)
sys.path.insert(0, WORKTREE)

# which functions this twin touches (all of them are compared anyway)
FUNCS = ("get_switched_peak_array_indices", "get_zero_crossings_array_indices", "get_peak_array_indices",
         "get_switched_peak_indices", "get_zero_crossings_indices", "get_peak_indices")


def load_original():
    tmpdir = tempfile.mkdtemp(prefix="c12_orig_", dir="/tmp")
    data = subprocess.check_output(["git", "archive", "HEAD", "eqsig"], cwd=WORKTREE)
    with tarfile.open(fileobj=io.BytesIO(data)) as tf:
        tf.extractall(tmpdir)
    path = os.path.join(tmpdir, "eqsig", "fns", "peaks_and_crossings.py")
    spec = importlib.util.spec_from_file_location("orig_peaks_and_crossings", path)
    mod = importlib.util.module_from_spec(spec)
    spec.loader.exec_module(mod)
    return mod


orig = load_original()
import eqsig  # noqa: E402
import eqsig.fns.peaks_and_crossings as new  # noqa: E402

assert eqsig.__file__.startswith(WORKTREE), eqsig.__file__
assert new.__file__.startswith(WORKTREE), new.__file__
assert not orig.__file__.startswith(WORKTREE)

n_checks = 0
failures = []


def snapshot(x):
    if isinstance(x, np.ndarray):
        return ("nd", x.dtype, x.shape, x.copy())
    if isinstance(x, (list, tuple)):
        return (type(x).__name__, [type(v) for v in x], list(x))
    return ("obj", x)


def same_snapshot(a, b):
    if a[0] != b[0]:
        return False
    if a[0] == "nd":
        return a[1] == b[1] and a[2] == b[2] and np.array_equal(a[3], b[3], equal_nan=True)
    return a[1:] == b[1:]


def run(fn, args, kwargs):
    try:
        return ("ok", fn(*args, **kwargs))
    except BaseException as e:  # noqa
        return ("exc", type(e), str(e))


def same_result(a, b):
    if a[0] != b[0]:
        return False
    if a[0] == "exc":
        return a[1] is b[1]
    ra, rb = a[1], b[1]
    if type(ra) is not type(rb):
        return False
    if isinstance(ra, np.ndarray):
        return ra.dtype == rb.dtype and ra.shape == rb.shape and np.array_equal(ra, rb)
    if isinstance(ra, (list, tuple)):
        return len(ra) == len(rb) and all(same_result(("ok", x), ("ok", y)) for x, y in zip(ra, rb))
    return ra == rb


def copy_arg(x):
    if isinstance(x, np.ndarray):
        return x.copy()
    if isinstance(x, list):
        return list(x)
    return x


def check(fname, values, **kwargs):
    """Call original and edited `fname` on independent copies of `values`; compare results and mutation."""
    global n_checks
    n_checks += 1
    va, vb = copy_arg(values), copy_arg(values)
    before = snapshot(values)
    ra = run(getattr(orig, fname), (va,), kwargs)
    rb = run(getattr(new, fname), (vb,), kwargs)
    ok = same_result(ra, rb) and same_snapshot(snapshot(va), before) and same_snapshot(snapshot(vb), before)
    if ok and ra[0] == "ok" and isinstance(ra[1], np.ndarray) and isinstance(va, np.ndarray):
        # result must not alias the input in one version only
        ok = np.shares_memory(ra[1], va) == np.shares_memory(rb[1], vb)
    if not ok and len(failures) < 20:
        failures.append((fname, repr(values)[:200], kwargs, ra, rb))
    return ok


TOLS_SMALL = (0.0, 0.5, 1.0, 1.5, 2.5)


def check_all(values, tols=TOLS_SMALL, wrappers=False):
    for tol in tols:
        check("get_switched_peak_array_indices", values, tol=tol)
        for kaz in (False, True):
            check("get_zero_crossings_array_indices", values, keep_adj_zeros=kaz, tol=tol)
    check("get_switched_peak_array_indices", values)
    check("get_zero_crossings_array_indices", values)
    check("get_peak_array_indices", values)
    if wrappers:
        for pt in ("all", "min", "max", "other"):
            check("get_peak_array_indices", values, ptype=pt)
        check("get_zero_and_peak_array_indices", values)
        for opt in ("all", "switched"):
            check("get_n_cyc_array", values, opt=opt)


class FakeSig(object):
    def __init__(self, values):
        self.values = values


def main():
    rng = np.random.RandomState(1212)

    # 1. exhaustive small alphabets (arrays of ints, arrays of floats and plain lists)
    for alphabet, max_len in (((-2, -1, 0, 1, 2), 6), ((-3, -2, -1, 0, 1, 2, 3), 4), ((-1, 0, 1), 7)):
        for n in range(1, max_len + 1):
            for k, combo in enumerate(itertools.product(alphabet, repeat=n)):
                form = k % 3
                if form == 0:
                    vals = np.array(combo, dtype=float)
                elif form == 1:
                    vals = np.array(combo, dtype=int)
                else:
                    vals = list(combo)
                check_all(vals, tols=(0.0, 1.5), wrappers=(n <= 3))

    # 2. random samples of the longer exhaustive domains
    for alphabet, n in (((-2, -1, 0, 1, 2), 7), ((-2, -1, 0, 1, 2), 8), ((-3, -2, -1, 0, 1, 2, 3), 5),
                        ((-3, -2, -1, 0, 1, 2, 3), 6)):
        for _ in range(1500):
            vals = rng.choice(alphabet, size=n)
            if rng.rand() < 0.3:
                vals = [int(v) for v in vals]
            elif rng.rand() < 0.5:
                vals = vals.astype(float)
            check_all(vals, tols=(0.0, 0.5, 1.5, 2.5))

    # 3. random series made of excursions with 3+ distinct levels, lengths up to 5000
    def excursion_series(n, p_zero):
        out = []
        sgn = rng.choice((-1.0, 1.0))
        while len(out) < n:
            m = rng.randint(3, 12)
            out.extend(sgn * rng.choice(np.arange(1, 40), size=m, replace=True) * rng.choice((0.25, 1.0, 0.01)))
            if rng.rand() < p_zero:
                out.extend([0.0] * rng.randint(1, 4))
            sgn = -sgn
        return np.array(out[:n])

    for n in (1, 2, 3, 5, 10, 33, 100, 500, 1000, 5000):
        reps = 40 if n <= 100 else (8 if n <= 1000 else 3)
        for _ in range(reps):
            for p_zero in (0.0, 0.4):
                vals = excursion_series(n, p_zero)
                check_all(vals, tols=(0.0, 0.05, 0.3, 3.0, 50.0), wrappers=(n <= 500))
                check_all(list(vals), tols=(0.0, 0.3))

    # 4. continuous random signals (gaussian, random walk, decaying sine), signed zeros, tiny values
    for n in (2, 7, 50, 400, 3000):
        for _ in range(10 if n < 1000 else 3):
            g = rng.randn(n)
            check_all(g, tols=(0.0, 0.1, 1.0), wrappers=(n <= 400))
            check_all(np.cumsum(g), tols=(0.0, 0.5, 5.0))
            t = np.arange(n) * 0.05
            check_all(np.sin(3 * t) * np.exp(-0.1 * t) + 0.05 * g, tols=(0.0, 0.01, 0.2))
            z = g.copy()
            z[rng.rand(n) < 0.3] = 0.0
            z[rng.rand(n) < 0.1] = -0.0
            check_all(z, tols=(0.0, 0.4))
            check_all(g * 1e-200, tols=(0.0, 1e-201))  # products underflow to +-0
            check_all(g.astype(np.float32), tols=(0.0, 0.3))
            check_all(np.round(g * 3).astype(int), tols=(0.0, 1, 2))  # integer tol as well

    # 5. hand-written edge cases
    edge = [
        [0], [1], [-1], [0, 0], [0, 0, 0, 0], [1, 1, 1], [-2, -2], [0, 1], [0, -1], [1, 0], [-1, 0],
        [1, -1], [-1, 1], [0, 0, 1, 0, 0, -1, 0, 0], [1, 0, -1], [1, 0, 1], [-1, 0, 0, -1], [2, 1, 2, -1, -2, -1],
        [0, 2, 1, 2, -1, 1, 0, 0, 1, 0.3, 0, -1, 0.2, 1, 0.2],
        [0, 2, 1, 2, -1, 1, 1, 0.3, -1, 0.2, 1, 0.2],
        [0, 0.005, -0.005, 1, -0.004, -2, 0.003, 0], [3, 3, -3, -3, 3, 3], [5, 4, 3, 2, 1, 0, -1, -2, -3],
        [-0.0, 0.0, -0.0, 1.0], [1e-300, -1e-300, 1e-300], [True, False, True],
        (0, 1, -1, 2, -2), [0.5, -0.5, 0.5, -0.5, 0.5],
    ]
    for e in edge:
        check_all(e, wrappers=True)
        check_all(np.array(e), wrappers=True)
        check_all(np.array(e, dtype=float)[::-1], wrappers=True)  # negative-stride view
        check_all(np.array(e, dtype=float) * -1)
    big = np.tile(np.array([0, 1.0, 2.0, 1.0, 0, -1.0, -3.0, -1.0]), 50)
    check_all(big[::2])  # strided view
    ro = rng.randn(64)
    ro.setflags(write=False)
    check_all(ro, tols=(0.0, 0.7))

    # negative tolerance / invalid inputs behave the same (same exception type)
    check("get_zero_crossings_array_indices", [0, 1, -1], tol=-1.0)
    check("get_switched_peak_array_indices", [0, 1, -1], tol=-1.0)
    check("get_switched_peak_array_indices", np.array([0.0, 1, -1, 0.5, -2]), tol=-0.7)
    check("get_zero_crossings_array_indices", [])
    check("get_switched_peak_array_indices", [])
    check("get_switched_peak_array_indices", np.array([]))

    # 6. the signal-object wrappers
    for _ in range(30):
        g = np.cumsum(rng.randn(200))
        for fname in ("get_switched_peak_indices", "get_zero_crossings_indices", "get_peak_indices"):
            check(fname, FakeSig(g))
        check("get_switched_peak_indices", g)
        check("get_switched_peak_indices", list(np.round(g)))
    acc = eqsig.AccSignal(np.sin(np.arange(300) * 0.1) * np.linspace(1, 0, 300), 0.01)
    for fname in ("get_switched_peak_indices", "get_zero_crossings_indices", "get_peak_indices"):
        a = getattr(orig, fname)(acc)
        b = getattr(new, fname)(acc)
        assert a.dtype == b.dtype and np.array_equal(a, b), fname

    # module surface unchanged for public names
    pub_o = sorted(k for k in vars(orig) if not k.startswith("_"))
    pub_n = sorted(k for k in vars(new) if not k.startswith("_"))
    assert pub_o == pub_n, (set(pub_o) ^ set(pub_n))
    import inspect
    for k in pub_o:
        if inspect.isfunction(getattr(orig, k)):
            assert str(inspect.signature(getattr(orig, k))) == str(inspect.signature(getattr(new, k))), k

    print("checks: %d, failures: %d" % (n_checks, len(failures)))
    for f in failures:
        print("MISMATCH", f)
    return 1 if failures else 0


if __name__ == "__main__":
    sys.exit(main())

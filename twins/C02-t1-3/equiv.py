"""Equivalence check for twin3 (eqsig/fns/time_step.py: step-ratio rule extracted into a private helper).

Run with twin3 applied, cwd = the worktree.  The original time_step.py is read from git HEAD and exec'd
into a fresh module; original and edited interp_array_to_approx_dt / interp_to_approx_dt /
resample_to_approx_dt are compared bit-for-bit (values, dtypes, result types, exceptions, argument
mutation), and AccSignal.gen_response_spectrum - the caller the property is anchored in - is run once with
the edited and once with the original interpolation routine and must leave identical object state.
Exit code 0 iff everything matches.
"""
import copy
import os
import subprocess
import sys
import types
import warnings

import numpy as np

ROOT = os.getcwd()
sys.path.insert(0, ROOT)

import eqsig  # noqa: E402
import eqsig.single  # noqa: E402
import eqsig.fns.time_step as new  # noqa: E402

assert os.path.abspath(eqsig.__file__).startswith(ROOT), eqsig.__file__
assert os.path.abspath(new.__file__).startswith(ROOT), new.__file__

src = subprocess.check_output(['git', 'show', 'HEAD:eqsig/fns/time_step.py'], cwd=ROOT).decode()
old = types.ModuleType('eqsig_time_step_orig')
old.__file__ = 'HEAD:eqsig/fns/time_step.py'
exec(compile(src, old.__file__, 'exec'), old.__dict__)
assert old.interp_array_to_approx_dt is not new.interp_array_to_approx_dt
assert hasattr(new, '_approx_dt_factor') and not hasattr(old, '_approx_dt_factor')
# the public names exported by `from eqsig.fns.time_step import *` are unchanged
pub = lambda m: sorted(k for k in m.__dict__ if not k.startswith('_'))
assert pub(old) == pub(new), (pub(old), pub(new))
assert not hasattr(eqsig, '_approx_dt_factor')

warnings.simplefilter('ignore')
np.seterr(all='ignore')
N_CHECKS = [0]
ERRORS = {}


def same(x, y, where):
    assert type(x) is type(y), (where, type(x), type(y))
    if isinstance(x, (tuple, list)):
        assert len(x) == len(y), (where, len(x), len(y))
        for k, (p, q) in enumerate(zip(x, y)):
            same(p, q, '%s[%d]' % (where, k))
    elif isinstance(x, dict):
        assert sorted(x, key=str) == sorted(y, key=str), where
        for k in x:
            same(x[k], y[k], '%s[%r]' % (where, k))
    elif isinstance(x, np.ndarray):
        assert x.dtype == y.dtype, (where, x.dtype, y.dtype)
        assert x.shape == y.shape, (where, x.shape, y.shape)
        assert np.array_equal(x, y, equal_nan=True), (where, 'values differ')
        if x.dtype.kind == 'f':
            assert np.array_equal(np.signbit(x), np.signbit(y)), (where, 'sign bits differ')
    elif isinstance(x, eqsig.AccSignal):
        same(dict(x.__dict__), dict(y.__dict__), where + '.__dict__')
    else:
        assert x == y or (x != x and y != y), (where, x, y)
    N_CHECKS[0] += 1


def call(fn, args, kwargs):
    args = copy.deepcopy(args)
    try:
        return fn(*args, **kwargs), None, args
    except Exception as e:
        return None, type(e), args


def compare(name, args, kwargs, where):
    o_out, o_err, o_args = call(getattr(old, name), args, kwargs)
    n_out, n_err, n_args = call(getattr(new, name), args, kwargs)
    assert o_err is n_err, (where, name, o_err, n_err)
    if o_err is None:
        same(o_out, n_out, '%s:%s' % (where, name))
    else:
        N_CHECKS[0] += 1
        ERRORS[o_err.__name__] = ERRORS.get(o_err.__name__, 0) + 1
    same(list(o_args), list(n_args), where + ':args old-vs-new')
    same(list(o_args), list(copy.deepcopy(args)), where + ':args mutated')
    return o_err


rng = np.random.RandomState(31337)

value_sets = [
    np.array([]),
    np.array([0.7]),
    np.array([0.0, 1.0]),
    np.array([0.0, 1.0, -2.0]),
    np.zeros(10),
    np.arange(9),                                   # integer dtype
    np.arange(8, dtype=np.int16) - 4,
    [0.0, 0.1, -0.3, 0.2, 0.0],                     # list
    [0, 1, -1, 2],                                  # integer list
    (0.0, 0.5, -0.5, 0.25),                         # tuple
    rng.randn(50),
    rng.randn(51),
    rng.randn(64).astype(np.float32),
    rng.randn(40)[::2],                             # non-contiguous view
    np.array([1.0, np.nan, 2.0, np.inf, 0.0]),
]

dts = [0.01, 0.02, 0.005, 0.1, 0.06, 0.07, 0.0125, 1, 2, np.float32(0.02), np.float64(0.04)]
targets = [0.01, 0.005, 0.0025, 0.02, 0.03, 0.1, 0.003, 0.007, 1, 0.5, np.float64(0.01)]

n_err = 0
for iv, values in enumerate(value_sets):
    for dt in dts:
        for target in targets:
            where = 'val%d/dt%s/target%s' % (iv, dt, target)
            for even in (True, False, 0, 1):
                e = compare('interp_array_to_approx_dt', (values, dt, target, even), {}, where + '/pos')
                n_err += e is not None
                compare('interp_array_to_approx_dt', (values, dt), {'target_dt': target, 'even': even}, where + '/kw')
            compare('interp_array_to_approx_dt', (values, dt), {'target_dt': target}, where + '/default even')
        compare('interp_array_to_approx_dt', (values, dt), {}, 'val%d/dt%s/defaults' % (iv, dt))

# exact integer refinement factors 2..8 (the property's refinement construction) and their inverses
for r in range(1, 10):
    for base in (0.01, 0.02, 0.005, 0.1, 0.004, 1.0, 0.3):
        for values in (rng.randn(int(rng.randint(2, 40))), np.arange(7), [0.0, 1.0, 0.5]):
            for even in (True, False):
                for dt, target in ((base, base / r), (base * r, base), (base / r, base), (base, base * r),
                                   (r * base, r * base), (base, base / (r + 0.5)), (base, base * (r + 0.5))):
                    compare('interp_array_to_approx_dt', (values, dt, target, even), {}, 'refine r=%d base=%s' % (r, base))

# random sweep
for trial in range(4000):
    values = rng.randn(int(rng.randint(1, 80)))
    if rng.rand() < 0.2:
        values = list(values)
    dt = float(rng.choice([0.001, 0.002, 0.004, 0.005, 0.01, 0.02, 0.025, 0.05, 0.1])) if rng.rand() < 0.6 \
        else float(rng.uniform(0.001, 0.2))
    target = float(rng.choice([0.001, 0.002, 0.004, 0.005, 0.01, 0.02, 0.025, 0.05, 0.1])) if rng.rand() < 0.6 \
        else float(rng.uniform(0.001, 0.2))
    compare('interp_array_to_approx_dt', (values, dt, target, bool(rng.randint(0, 2))), {}, 'rand%d' % trial)

# degenerate parameters: the same exception class (or the same non-finite result) in both
for dt, target in ((0.01, 0), (0.0, 0.01), (0.01, np.float64(0)), (np.float64(0), 0.01), (float('nan'), 0.01),
                   (0.01, float('inf')), (-0.01, 0.01), (0.01, -0.01), (np.float64('nan'), 0.01)):
    for even in (True, False):
        compare('interp_array_to_approx_dt', (rng.randn(12), dt, target, even), {}, 'degenerate %r/%r' % (dt, target))

# the two wrappers taking a signal object
for trial in range(300):
    npts = int(rng.randint(2, 70))
    dt = float(rng.choice([0.002, 0.005, 0.01, 0.02, 0.03, 0.05, 0.1]))
    target = float(rng.choice([0.001, 0.0025, 0.005, 0.01, 0.02, 0.04, 0.1, 0.007]))
    asig = eqsig.AccSignal(rng.randn(npts), dt)
    before = dict(asig.__dict__)
    for name in ('interp_to_approx_dt', 'resample_to_approx_dt'):
        for kwargs in ({}, {'target_dt': target}, {'target_dt': target, 'even': False}, {'target_dt': target, 'even': True}):
            try:
                o = getattr(old, name)(asig, **kwargs)
                oe = None
            except Exception as e:
                o, oe = None, type(e)
            try:
                m = getattr(new, name)(asig, **kwargs)
                me = None
            except Exception as e:
                m, me = None, type(e)
            assert oe is me, (name, kwargs, oe, me)
            if oe is None:
                same(o, m, 'wrapper %s %r' % (name, kwargs))
            same(before, dict(asig.__dict__), 'signal untouched')

# end to end: gen_response_spectrum with the edited vs the original interpolation routine
assert eqsig.single.interp_array_to_approx_dt is new.interp_array_to_approx_dt
n_interp = [0]


def counting_old(*args, **kwargs):
    n_interp[0] += 1
    return old.interp_array_to_approx_dt(*args, **kwargs)


for trial in range(150):
    npts = int(rng.randint(2, 90))
    dt = float(rng.choice([0.005, 0.01, 0.02, 0.05, 0.1]))
    values = rng.randn(npts)
    periods = np.sort(rng.uniform(0.02, 4.0, int(rng.randint(1, 7))))
    if rng.rand() < 0.4:
        periods[0] = 0.0
    if len(periods) == 1 and periods[0] == 0:
        periods = np.array([0.0, 0.3])
    xi = float(rng.uniform(0, 0.999))
    ratio = [1, 2, 4, 8, 3.5][int(rng.randint(0, 5))]
    sig_new = eqsig.AccSignal(values, dt)
    sig_old = eqsig.AccSignal(values, dt)
    sig_new.gen_response_spectrum(response_times=periods, xi=xi, min_dt_ratio=ratio)
    eqsig.single.interp_array_to_approx_dt = counting_old
    try:
        sig_old.gen_response_spectrum(response_times=periods, xi=xi, min_dt_ratio=ratio)
    finally:
        eqsig.single.interp_array_to_approx_dt = new.interp_array_to_approx_dt
    same(sig_old, sig_new, 'end to end %d' % trial)
    same((sig_old.s_d, sig_old.s_v, sig_old.s_a), (sig_new.s_d, sig_new.s_v, sig_new.s_a), 'spectra %d' % trial)

assert n_interp[0] > 20, n_interp   # the interpolating branch was really taken
assert ERRORS, ERRORS                # and so were error paths (degenerate steps)
print('equiv3: %d comparisons identical; identical exceptions seen: %r' % (N_CHECKS[0], ERRORS))
sys.exit(0)

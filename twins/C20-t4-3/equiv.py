"""Equivalence check for twin3 (step-function fit: public wrappers + shared private workers). Run with twin1 applied, cwd = worktree."""
import os
import re
import subprocess
import sys
import tempfile
import copy
import atexit
import shutil
import warnings
import importlib

import numpy as np

HERE = os.getcwd()
sys.path.insert(0, HERE)


def load_original():
    tmp = tempfile.mkdtemp(prefix='eqsig_orig_C20_', dir='/tmp')
    atexit.register(shutil.rmtree, tmp, True)
    subprocess.check_call('git archive HEAD eqsig | tar -x -C %s' % tmp, shell=True, cwd=HERE)
    os.rename(os.path.join(tmp, 'eqsig'), os.path.join(tmp, 'eqsig_orig'))
    for root, _, files in os.walk(os.path.join(tmp, 'eqsig_orig')):
        for fn in files:
            if fn.endswith('.py'):
                p = os.path.join(root, fn)
                src = open(p).read()
                src = re.sub(r'^(\s*)from eqsig\b', r'\1from eqsig_orig', src, flags=re.M)
                src = re.sub(r'^(\s*)import eqsig\s*$', r'\1import eqsig_orig as eqsig', src, flags=re.M)
                open(p, 'w').write(src)
    sys.path.insert(1, tmp)
    mod = importlib.import_module('eqsig_orig')
    assert mod.__file__.startswith(tmp), mod.__file__
    return mod, tmp


import eqsig as new_pkg
assert new_pkg.__file__.startswith(HERE), new_pkg.__file__
old_pkg, TMP = load_original()
import eqsig.fns.average as new_g
old_g = importlib.import_module('eqsig_orig.fns.average')
assert new_g.__file__.startswith(HERE) and old_g.__file__.startswith(TMP)

N_CHECKS = [0]


def same(a, b, path='res'):
    assert type(a) is type(b), (path, type(a), type(b))
    if isinstance(a, np.ndarray):
        assert a.dtype == b.dtype, (path, a.dtype, b.dtype)
        assert a.shape == b.shape, (path, a.shape, b.shape)
        assert np.array_equal(a, b, equal_nan=(a.dtype.kind in 'fc')), (path, a, b)
    elif isinstance(a, (tuple, list)):
        assert len(a) == len(b), path
        for i, (p, q) in enumerate(zip(a, b)):
            same(p, q, '%s[%d]' % (path, i))
    elif isinstance(a, (float, np.generic)):
        if isinstance(a, np.generic):
            assert a.dtype == b.dtype, (path, a.dtype, b.dtype)
        assert a == b or (a != a and b != b), (path, a, b)
    else:
        assert a == b, (path, a, b)


def call(fn, args, kwargs):
    args = copy.deepcopy(args)
    kwargs = copy.deepcopy(kwargs)
    with warnings.catch_warnings(record=True) as w:
        warnings.simplefilter('always')
        try:
            out = ('ok', fn(*args, **kwargs))
        except Exception as e:  # noqa
            out = ('exc', type(e).__name__)
    return out, args, kwargs, sorted(str(x.category.__name__) for x in w)


def compare(name, fo, fn, *args, **kwargs):
    ro, ao, ko, wo = call(fo, args, kwargs)
    rn, an, kn, wn = call(fn, args, kwargs)
    assert ro[0] == rn[0], (name, ro, rn)
    same(ro[1], rn[1], name)
    same(list(ao), list(an), name + ':args-after')     # identical argument mutation (none expected)
    same(list(ao), list(copy.deepcopy(args)), name + ':args-untouched')
    assert wo == wn, (name, wo, wn)
    N_CHECKS[0] += 1
    return ro


rng = np.random.RandomState(2003)

# the public namespaces are unchanged (the new workers are private and not star-exported)
pub = lambda m: sorted(k for k in vars(m) if not k.startswith('_'))
assert pub(new_g) == pub(old_g)
assert sorted(vars(new_pkg.fns)) == sorted(vars(old_pkg.fns))
import inspect
for name in ('calc_step_fn_vals_error', 'calc_step_fn_steps_vals', 'calc_roll_av_vals'):
    assert str(inspect.signature(getattr(new_g, name))) == str(inspect.signature(getattr(old_g, name)))
    assert getattr(new_g, name).__doc__ == getattr(old_g, name).__doc__


def series():
    yield [4, 4, 4, 4, 1, 1, 1, 1]
    yield [4, 5, 4, 4, 1, 1, 2, 1]
    yield [4., 5., 4., 4., 1., 1., 2., 1.]
    yield [-4, -5, -4, -4, -1, -1, -2, -1]          # negative side means
    yield [-4., -5., -4., -4., 1., 1., 2., 1.]
    yield np.array([4, 4, 4, 4, 1, 1, 1, 1])          # integer dtype (error array is integer too)
    yield np.array([-3, 7, -2, 9, 11, -20], dtype=np.int32)
    yield [7]
    yield [7.5]
    yield np.array([-2.5])
    yield [1, 2]
    yield [2., -1.]
    yield (3., -1., 2.)
    yield np.zeros(6)
    yield np.zeros(5, dtype=int)
    yield np.full(9, 3.3)
    yield np.full(7, -3.3)
    yield np.array([1.5, -2.25, 3.125, 0.1, 7.0], dtype=np.float32)
    yield np.array([True, False, True, True])
    yield np.array([-0.0, 0.0, -0.0, 0.0])
    yield np.array([1.0, np.nan, 2.0, 3.0, 4.0])
    yield np.array([1.0, np.inf, 2.0, -3.0])
    yield np.array([1e200, -1e200, 1e200, 3.0])       # overflow for pow=2
    yield np.arange(10.)[::-1]                         # non-contiguous view
    yield np.arange(24.)[::3] - 9
    for n in (2, 3, 4, 5, 7, 8, 9, 16, 17, 31, 64, 127, 128, 129, 130, 200, 257):
        yield rng.normal(size=n)
        yield -rng.uniform(0.5, 3, n)
        yield np.concatenate([rng.normal(2.0, 0.3, n // 2), rng.normal(-1.0, 0.3, n - n // 2)])
        yield rng.randint(-100, 100, n)
        yield list(rng.uniform(-1, 1, n))
    for n in (3, 10, 40):
        yield rng.normal(size=n) * 10 ** rng.uniform(-8, 8, n)
        yield [int(v) for v in rng.randint(-9, 9, n)]


cnt = 0
for vals in series():
    n = len(vals)
    for p in (1, 2):
        for d in (None, 'up', 'down', 'sideways'):
            compare('err', old_g.calc_step_fn_vals_error, new_g.calc_step_fn_vals_error, vals, p, d)
            compare('err-kw', old_g.calc_step_fn_vals_error, new_g.calc_step_fn_vals_error, vals, pow=p, dir=d)
    compare('err-default', old_g.calc_step_fn_vals_error, new_g.calc_step_fn_vals_error, vals)
    for p in (3, 0.5, 2.0, 0, np.int64(2)):
        compare('err-other-pow', old_g.calc_step_fn_vals_error, new_g.calc_step_fn_vals_error, vals, p, 'down')
    # step levels: automatic split and every explicit split
    compare('steps-auto', old_g.calc_step_fn_steps_vals, new_g.calc_step_fn_steps_vals, vals)
    compare('steps-auto-kw', old_g.calc_step_fn_steps_vals, new_g.calc_step_fn_steps_vals, vals, ind=None)
    inds = range(n) if n <= 20 else sorted(set([0, 1, 2, n // 3, n // 2, n - 2, n - 1]))
    for ind in inds:
        compare('steps-ind', old_g.calc_step_fn_steps_vals, new_g.calc_step_fn_steps_vals, vals, ind)
    compare('steps-npind', old_g.calc_step_fn_steps_vals, new_g.calc_step_fn_steps_vals, vals, np.int64(n // 2))
    compare('steps-negind', old_g.calc_step_fn_steps_vals, new_g.calc_step_fn_steps_vals, vals, -1)
    # the documented workflow: argmin of the error, then the levels
    with warnings.catch_warnings():
        warnings.simplefilter('ignore')
        eo = old_g.calc_step_fn_vals_error(vals)
        en = new_g.calc_step_fn_vals_error(vals)
    if not np.any(np.isnan(np.asarray(eo, dtype=float))):
        assert np.argmin(eo) == np.argmin(en)
        compare('steps-argmin', old_g.calc_step_fn_steps_vals, new_g.calc_step_fn_steps_vals, vals, np.argmin(en))

# results are fresh arrays, never views of the input
v = rng.normal(size=9)
for d in (None, 'up', 'down'):
    out = new_g.calc_step_fn_vals_error(v, 1, d)
    assert not np.shares_memory(out, v) and out.flags.writeable

# same failures on unusable input
compare('err-empty', old_g.calc_step_fn_vals_error, new_g.calc_step_fn_vals_error, [])
compare('err-empty', old_g.calc_step_fn_vals_error, new_g.calc_step_fn_vals_error, np.array([]), 2, 'up')
compare('steps-empty', old_g.calc_step_fn_steps_vals, new_g.calc_step_fn_steps_vals, [])
compare('err-scalar', old_g.calc_step_fn_vals_error, new_g.calc_step_fn_vals_error, 3.0)
compare('err-str-pow', old_g.calc_step_fn_vals_error, new_g.calc_step_fn_vals_error, [1., 2., 3.], 'a')
compare('err-2d', old_g.calc_step_fn_vals_error, new_g.calc_step_fn_vals_error, rng.normal(size=(4, 4)), 2, 'up')
compare('err-2d', old_g.calc_step_fn_vals_error, new_g.calc_step_fn_vals_error, rng.normal(size=(3, 5)))

# untouched neighbour in the same module
for vals in ([4, 4, 4, 4, 1, 1, 1, 1], rng.normal(size=20)):
    for steps in (1, 3, 8):
        for mode in ('forward', 'backward', 'centre'):
            compare('roll', old_g.calc_roll_av_vals, new_g.calc_roll_av_vals, vals, steps, mode)

print('equiv3: %d comparisons identical' % N_CHECKS[0])

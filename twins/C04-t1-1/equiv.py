#!/usr/bin/env python
"""
equiv1.py - equivalence check for twin1 (C04), to be run WITH twin1.diff applied,
cwd = the worktree:

    cd /tmp/twin1/C04 && /venv/bin/python out/equiv1.py

Loads the ORIGINAL eqsig/single.py from git (HEAD) into a separate module object
and drives the original and the edited Signal / AccSignal classes through the
same histories (exhaustive over the observational cache state for every
mutator / settings change, then long random histories, then directed edge
cases).  After EVERY step it asserts bit-identical: return value, raised
exception (type + message), emitted warnings, printed output, the full object
state (vars(obj), incl. cache flags and memo dict), the (possibly mutated)
arguments, and the content of every array handed out earlier (aliasing /
in-place behaviour).  Exit status 0 iff everything matches.
"""
import contextlib
import copy
import io
import itertools
import os
import subprocess
import sys
import types
import warnings

TWIN = 1
# A 2-D `values` array is NOT a valid signal (a Signal is a 1-D time series: npts = len(values), time has npts
# entries); it is only fed in as an extra stress input where the edit is insensitive to it.  twin3 replaces the
# fancy index fa[range(points)] by the slice fa[:points], which is identical for every 1-D record (points <= len(fa))
# but raises no IndexError for a 2-D array whose row count is smaller than points, so twin3 is checked on 1-D only.
INCLUDE_2D = TWIN != 3
FOCUS = ("running_average", "remove_rolling_average")

ROOT = os.getcwd()
sys.path.insert(0, ROOT)

import numpy as np  # noqa: E402
import eqsig  # noqa: E402

assert os.path.abspath(eqsig.__file__).startswith(ROOT + os.sep), \
    "eqsig imported from %s, expected the worktree %s" % (eqsig.__file__, ROOT)
import eqsig.single as NEW  # noqa: E402

SRC = subprocess.check_output(['git', 'show', 'HEAD:eqsig/single.py'], cwd=ROOT).decode()
with open(NEW.__file__) as _f:
    assert _f.read() != SRC, "eqsig/single.py is identical to HEAD - twin%d.diff is not applied" % TWIN
OLD = types.ModuleType('eqsig._single_at_head')
OLD.__package__ = 'eqsig'
OLD.__file__ = 'HEAD:eqsig/single.py'
exec(compile(SRC, OLD.__file__, 'exec'), OLD.__dict__)
assert OLD.Signal is not NEW.Signal and OLD.AccSignal is not NEW.AccSignal


# ----------------------------------------------------------------------------
# strict comparison
# ----------------------------------------------------------------------------
class Mismatch(AssertionError):
    pass


def same(a, b, path):
    if isinstance(a, (OLD.Signal, NEW.Signal)) and isinstance(b, (OLD.Signal, NEW.Signal)):
        if type(a).__name__ != type(b).__name__:
            raise Mismatch("%s: class %s vs %s" % (path, type(a).__name__, type(b).__name__))
        return same_state(a, b, path)
    if type(a) is not type(b):
        raise Mismatch("%s: type %r vs %r" % (path, type(a), type(b)))
    if isinstance(a, np.ndarray):
        if a.dtype != b.dtype or a.shape != b.shape:
            raise Mismatch("%s: dtype/shape %s%s vs %s%s" % (path, a.dtype, a.shape, b.dtype, b.shape))
        if a.dtype == object:
            for i, (x, y) in enumerate(zip(a.ravel().tolist(), b.ravel().tolist())):
                same(x, y, "%s[%d]" % (path, i))
        elif a.tobytes() != b.tobytes():
            raise Mismatch("%s: array content differs\n  old=%r\n  new=%r" % (path, a, b))
    elif isinstance(a, np.generic):
        if a.dtype != b.dtype or a.tobytes() != b.tobytes():
            raise Mismatch("%s: scalar %r vs %r" % (path, a, b))
    elif isinstance(a, float):
        if np.float64(a).tobytes() != np.float64(b).tobytes():
            raise Mismatch("%s: float %r vs %r" % (path, a, b))
    elif isinstance(a, dict):
        if list(a.keys()) != list(b.keys()):
            raise Mismatch("%s: keys %r vs %r" % (path, list(a), list(b)))
        for k in a:
            same(a[k], b[k], "%s[%r]" % (path, k))
    elif isinstance(a, (list, tuple)):
        if len(a) != len(b):
            raise Mismatch("%s: len %d vs %d" % (path, len(a), len(b)))
        for i, (x, y) in enumerate(zip(a, b)):
            same(x, y, "%s[%d]" % (path, i))
    elif isinstance(a, type):
        if a is not b:
            raise Mismatch("%s: %r vs %r" % (path, a, b))
    else:
        if not (a == b):
            raise Mismatch("%s: %r vs %r" % (path, a, b))


def same_state(o, n, path):
    so, sn = vars(o), vars(n)
    if sorted(so) != sorted(sn):
        raise Mismatch("%s: attribute sets differ: %r vs %r" % (path, sorted(so), sorted(sn)))
    for k in sorted(so):
        same(so[k], sn[k], "%s.%s" % (path, k))
    # class-level fall-backs of the cache flags
    for k in ('_cached_fa', '_cached_smooth_fa', '_npts', '_fa_spectrum', '_fa_freqs'):
        same(getattr(o, k), getattr(n, k), "%s.%s(getattr)" % (path, k))


# ----------------------------------------------------------------------------
# paired objects
# ----------------------------------------------------------------------------
def call(fn, *a):
    buf = io.StringIO()
    with warnings.catch_warnings(record=True) as w, contextlib.redirect_stdout(buf):
        warnings.simplefilter('always')
        try:
            res = ('ok', fn(*a))
        except Exception as e:  # noqa
            res = ('exc', type(e), str(e))
    return res, [(x.category, str(x.message)) for x in w], buf.getvalue()


class Pair(object):
    """The same object built from the original and from the edited class."""

    def __init__(self, cls, values, dt, kwargs, tag=''):
        self.cls = cls
        self.tag = tag
        self.log = ["%s(%r, %r, **%r)" % (cls, values, dt, kwargs)]
        ro = call(lambda: getattr(OLD, cls)(copy.deepcopy(values), dt, **copy.deepcopy(kwargs)))
        rn = call(lambda: getattr(NEW, cls)(copy.deepcopy(values), dt, **copy.deepcopy(kwargs)))
        self.ok = ro[0][0] == 'ok'
        if self.ok and rn[0][0] == 'ok':
            self.o, self.n = ro[0][1], rn[0][1]
            self.ho, self.hn = [], []
            self._check(ro, rn, [], [])
        else:
            self._guard(lambda: same(ro, rn, 'ctor'))

    def _guard(self, f):
        try:
            f()
        except Mismatch as e:
            sys.stderr.write("\nMISMATCH (%s) after history:\n  " % self.tag + "\n  ".join(self.log) + "\n" + str(e) + "\n")
            raise

    def _check(self, ro, rn, ao, an):
        def f():
            same(ro, rn, 'result')
            same(ao, an, 'args')
            same_state(self.o, self.n, 'obj')
            same(self.ho, self.hn, 'handles')
            # aliasing pattern among handles / current buffers must be the same
            io_ = [id(x) for x in self.ho] + [id(self.o._values)]
            in_ = [id(x) for x in self.hn] + [id(self.n._values)]
            po = [io_.index(x) for x in io_]
            pn = [in_.index(x) for x in in_]
            if po != pn:
                raise Mismatch("aliasing pattern differs: %r vs %r" % (po, pn))
        self._guard(f)

    def step(self, name, fn, args=()):
        """fn(obj, module, *args); args are deep-copied per side and compared afterwards."""
        self.log.append("%s %r" % (name, args))
        ao, an = copy.deepcopy(list(args)), copy.deepcopy(list(args))
        ro = call(fn, self.o, OLD, *ao)
        rn = call(fn, self.n, NEW, *an)
        if ro[0][0] == 'ok':
            for h, r in ((self.ho, ro), (self.hn, rn)):
                if rn[0][0] == 'ok' and isinstance(r[0][1], np.ndarray):
                    h.append(r[0][1])
            del self.ho[:-10], self.hn[:-10]
        self._check(ro, rn, ao, an)
        return ro[0]


# ----------------------------------------------------------------------------
# operations
# ----------------------------------------------------------------------------
READS = ['npts', 'dt', 'values', 'time', 'fa_spectrum', 'fa_spectrum_abs', 'fa_freqs', 'fa_frequencies',
         'smooth_fa_freqs', 'smooth_fa_frequencies', 'smooth_fa_spectrum', 'velocity', 'displacement',
         'pga', 'pgv', 'pgd', 's_a', 's_v', 's_d', 'response_times', 'smooth_freq_range', 'smooth_freq_points']
CACHE_READS = ['fa_spectrum', 'smooth_fa_spectrum', 'velocity', 'pga', 'pgv', 'pgd', 's_a']


def rd(name):
    return ('read ' + name, lambda o, M: getattr(o, name), ())


def meth(name, *args, **kw):
    def fn(o, M, *a):
        return getattr(o, name)(*a, **kw)
    return ("%s(%s)" % (name, kw if kw else ''), fn, args)


def setter(name, value):
    def fn(o, M, v):
        setattr(o, name, v)
    return ('set ' + name, fn, (value,))


def add_signal(kind, vals, dt):
    def fn(o, M, v):
        if kind == 'Signal':
            other = M.Signal(v, dt)
        elif kind == 'AccSignal':
            other = M.AccSignal(v, dt)
        else:
            other = v
        return o.add_signal(other)
    return ('add_signal[%s]' % kind, fn, (vals,))


def fixed_ops(npts, dt, rng):
    """One instance of every mutator / settings change / explicit generator (used for the exhaustive part)."""
    r = rng.standard_normal
    ops = [
        meth('reset_values', r(npts + 7)),
        meth('reset_values', list(r(max(npts - 3, 1)))),
        meth('reset_values', rng.integers(-9, 9, npts)),
        meth('add_constant', 0.37),
        meth('add_constant', 2),
        meth('add_series', r(npts)),
        meth('add_series', list(r(npts))),
        meth('add_series', r(npts + 1)),
        add_signal('Signal', r(npts), dt),
        add_signal('AccSignal', r(npts), dt),
        add_signal('Signal', r(npts), dt * 2),
        add_signal('array', r(npts), dt),
        meth('butter_pass'),
        meth('butter_pass', (None, 12.)),
        meth('butter_pass', [0.5, None], filter_order=2),
        meth('butter_pass', (0.2, 10), remove_gibbs='mid', gibbs_extra=1, gibbs_range=5),
        meth('butter_pass', (0.2, 10), remove_gibbs='start'),
        meth('butter_pass', (0.2, 10), remove_gibbs='end', gibbs_range=3),
        meth('butter_pass', 3.0),
        meth('remove_average'),
        meth('remove_average', section=5, verbose=1),
        meth('remove_poly'),
        meth('remove_poly', poly_fit=2),
        meth('running_average'),
        meth('running_average', width=2),
        meth('running_average', width=3),
        meth('running_average', 6),
        meth('remove_rolling_average'),
        meth('remove_rolling_average', mtype='acc', freq_window=8),
        meth('remove_rolling_average', 'velocity', 12.5),
        meth('remove_rolling_average', freq_window=1e6),
        meth('rebase_displacement'),
        meth('correct_me'),
        meth('set_zero_residual_velocity'),
        meth('set_zero_residual_velocity', timezone=(2 * dt, 9 * dt)),
        meth('set_zero_residual_velocity', timezone=(3 * dt, None)),
        meth('set_zero_residual_displacement'),
        meth('set_zero_residual_displacement', timezone=(0, 1)),
        meth('set_zero_residual_displacement_and_velocity'),
        meth('set_zero_residual_displacement_and_velocity', timezone=(2 * dt, 11 * dt)),
        meth('set_zero_residual_displacement_and_velocity', timezone=(2 * dt, None)),
        setter('smooth_fa_freqs', np.array([0.5, 1., 2., 4.])),
        setter('smooth_fa_freqs', [1, 2, 3]),
        setter('smooth_fa_frequencies', [0.3, 3., 8.]),
        setter('smooth_fa_frequencies', np.array([1, 5])),
        meth('set_smooth_fa_frequecies_by_range', (0.2, 20), 7),
        meth('set_smooth_fa_frequecies_by_range', [0.5, 10.], 4),
        setter('smooth_freq_range', (0.3, 12.)),
        setter('smooth_freq_points', 9),
        setter('response_times', np.array([0.2, 0.7, 1.5])),
        setter('response_times', [0., 0.3, 1.1]),
        setter('values', r(npts)),
        meth('gen_response_spectrum'),
        meth('gen_response_spectrum', response_times=np.array([0.05, 0.4]), xi=0.02),
        meth('gen_response_spectrum', np.array([0., 0.5, 1.0]), 0.1, 8),
        meth('gen_response_spectrum', response_times=np.array([0.]), xi=0.02),
        meth('gen_response_spectrum', xi=0.2, min_dt_ratio=1),
        meth('generate_response_spectrum', response_times=[0.3, 0.6]),
        meth('response_series'),
        meth('response_series', response_times=np.array([0.25, 2.]), xi=0.03),
        meth('gen_fa_spectrum'),
        meth('gen_fa_spectrum', p2_plus=1),
        meth('gen_fa_spectrum', n=npts + 5),
        meth('gen_fa_spectrum', 0, 16),
        meth('generate_fa_spectrum'),
        meth('gen_smooth_fa_spectrum'),
        meth('gen_smooth_fa_spectrum', smooth_fa_freqs=np.array([0.7, 1.4, 9.]), band=20),
        meth('generate_smooth_fa_spectrum', band=10),
        meth('generate_displacement_and_velocity_series'),
        meth('generate_displacement_and_velocity_series', trap=False),
        meth('generate_peak_values'),
        meth('generate_duration_stats'),
        meth('generate_cumulative_stats'),
        meth('generate_all_motion_stats'),
        meth('reset_all_motion_stats'),
        meth('clear_cache'),
        meth('get_section_average'),
        meth('get_section_average', start=1, end=8, index=True),
    ]
    return ops


def random_op(rng, p):
    """A random operation appropriate for the current pair."""
    npts = p.o.npts if isinstance(p.o.npts, int) and p.o.npts > 0 else 8
    dt = p.o.dt
    if rng.random() < 0.45:
        return rd(READS[rng.integers(len(READS))])
    ops = fixed_ops(npts, dt, rng)
    extra = [
        meth('running_average', width=int(rng.integers(0, 9))),
        meth('running_average', width=float(rng.uniform(0.5, 7))),
        meth('remove_rolling_average', mtype=['velocity', 'acc'][rng.integers(2)],
             freq_window=float(rng.uniform(0.5 / (dt * npts), 1. / dt))),
        meth('remove_rolling_average', mtype=['velocity', 'acceleration'][rng.integers(2)],
             freq_window=int(rng.integers(1, 40))),
        meth('add_constant', float(rng.standard_normal())),
        meth('reset_values', rng.standard_normal(int(rng.integers(1, 70))) * 10.0 ** int(rng.integers(-3, 3))),
        meth('gen_response_spectrum', response_times=np.sort(rng.uniform(0.02, 3, int(rng.integers(1, 5)))),
             xi=float(rng.uniform(0.01, 0.3))),
        setter('response_times', np.sort(rng.uniform(0.02, 3, int(rng.integers(1, 5))))),
        setter('smooth_fa_freqs', np.sort(rng.uniform(0.1, 20, int(rng.integers(1, 6))))),
        meth('gen_fa_spectrum', n=int(rng.integers(1, 2 * npts + 3))),
    ]
    if rng.random() < 0.5:
        return extra[rng.integers(len(extra))]
    return ops[rng.integers(len(ops))]


def all_reads(p):
    for name in READS:
        p.step(*rd(name))


# ----------------------------------------------------------------------------
# 1. exhaustive over the observational cache state
# ----------------------------------------------------------------------------
def exhaustive():
    count = 0
    dt = 0.01
    npts = 40
    rng0 = np.random.default_rng(4)
    base = rng0.standard_normal(npts)
    kw = {'AccSignal': dict(response_times=np.array([0.1, 0.5, 1.2]), smooth_fa_freqs=np.array([0.5, 2., 8.])),
          'Signal': dict(smooth_fa_freqs=np.array([0.5, 2., 8.]))}
    n_ops = len(fixed_ops(npts, dt, np.random.default_rng(0)))
    for cls, flags in (('AccSignal', CACHE_READS), ('Signal', CACHE_READS[:2])):
        for k in range(n_ops):
            focus = any(f in fixed_ops(npts, dt, np.random.default_rng(0))[k][0] for f in FOCUS)
            for mask in itertools.product((0, 1), repeat=len(flags)):
                # outside the focus of this twin, thin the 2^7 states a little (still every flag on/off, pairs)
                if cls == 'AccSignal' and not focus and sum(mask) not in (0, 1, 2, 6, 7):
                    continue
                op = fixed_ops(npts, dt, np.random.default_rng(100 + k))[k]
                p = Pair(cls, base, dt, kw[cls], tag='exhaustive %s op#%d mask=%r' % (cls, k, mask))
                for f, m in zip(flags, mask):
                    if m:
                        p.step(*rd(f))
                p.step(*op)
                all_reads(p)
                all_reads(p)  # idempotence of reads
                count += 1
    return count


# ----------------------------------------------------------------------------
# 2. random long histories
# ----------------------------------------------------------------------------
def random_histories(n_hist=260, n_steps=28):
    count = 0
    for h in range(n_hist):
        rng = np.random.default_rng(1000 + h)
        cls = 'AccSignal' if rng.random() < 0.8 else 'Signal'
        npts = int(rng.choice([1, 2, 3, 4, 5, 7, 16, 30, 31, 33, 64, 90]))
        dt = float(rng.choice([0.005, 0.01, 0.02, 0.1]))
        kind = rng.integers(4)
        if kind == 0:
            values = rng.standard_normal(npts)
        elif kind == 1:
            values = list(rng.standard_normal(npts))
        elif kind == 2:
            values = rng.integers(-20, 20, npts)
        else:
            values = np.zeros(npts)
        kw = {}
        if rng.random() < 0.3:
            kw['smooth_fa_freqs'] = np.sort(rng.uniform(0.1, 20, 4))
        elif rng.random() < 0.5:
            kw['smooth_freq_range'] = (0.2, 15.)
        if rng.random() < 0.3:
            kw['verbose'] = 1
        if cls == 'AccSignal':
            if rng.random() < 0.5:
                kw['response_times'] = np.sort(rng.uniform(0.03, 3, int(rng.integers(1, 5))))
            elif rng.random() < 0.5:
                kw['response_times'] = [0.0, 0.2, 1.0]
            else:
                kw['response_period_range'] = (0.2, 2.)
        p = Pair(cls, values, dt, kw, tag='random #%d' % h)
        if not p.ok:
            continue
        for s in range(n_steps):
            p.step(*random_op(rng, p))
            count += 1
        all_reads(p)
        all_reads(p)
    return count


# ----------------------------------------------------------------------------
# 3. directed edge cases
# ----------------------------------------------------------------------------
def directed():
    count = 0
    rng = np.random.default_rng(77)
    inputs = [
        np.array([3.]), np.array([1., -2.]), np.array([1., -2., 4.]), [0.5, 0.25, -1.0, 2.0],
        np.arange(-5, 6), np.arange(12, dtype=np.int32), np.zeros(9), -np.ones(6),
        rng.standard_normal(25), rng.standard_normal(26).astype(np.float32), rng.standard_normal(64) * 1e-8,
        rng.standard_normal(17) * 1e6, np.array([1e308, -1e308, 1e308, 0.]), np.array([np.nan, 1., 2., 3., 4.]),
        np.array([0., -0., 0., -0.]), rng.standard_normal(11) + 1j * rng.standard_normal(11),
        np.array([True, False, True, True]), [],
    ]
    if INCLUDE_2D:
        inputs.append(rng.standard_normal((3, 8)))
    for values in inputs:
        for cls in ('AccSignal', 'Signal'):
            for dt in (0.01, 0.25):
                # running_average / remove_rolling_average in every flavour, interleaved with reads
                for width in (0, 1, 2, 3, 4, 5, 8, 50, 2.5, -1):
                    for pre in ((), ('values',), ('values', 'velocity', 'pga', 'pgv', 'fa_spectrum', 's_a', 'smooth_fa_spectrum')):
                        p = Pair(cls, values, dt, {}, tag='directed running_average')
                        if not p.ok:
                            continue
                        for x in pre:
                            p.step(*rd(x))
                        p.step(*meth('running_average', width=width))
                        p.step(*rd('values'))
                        p.step(*meth('running_average', width))
                        all_reads(p)
                        count += 1
                for mtype in ('velocity', 'acc'):
                    for fw in (1, 2, 5, 7.5, 20, 100, 1. / dt, 1.0001 / dt, 0.1):
                        for pre in ((), ('values', 'velocity'), ('pgd', 'pga', 'displacement', 's_d', 'smooth_fa_spectrum')):
                            p = Pair(cls, values, dt, {}, tag='directed remove_rolling_average')
                            if not p.ok:
                                continue
                            for x in pre:
                                p.step(*rd(x))
                            p.step(*meth('remove_rolling_average', mtype=mtype, freq_window=fw))
                            p.step(*rd('values'))
                            p.step(*rd('velocity'))
                            p.step(*meth('remove_rolling_average', mtype, fw))
                            all_reads(p)
                            count += 1
                # lazily cached peaks / spectra: every order of first reads, then invalidation, then again
                for order in itertools.permutations(('pga', 'pgv', 'pgd'), 3):
                    p = Pair(cls, values, dt, {}, tag='directed peaks')
                    if not p.ok:
                        continue
                    for x in order + order:
                        p.step(*rd(x))
                    p.step(*meth('add_constant', 0.5))
                    for x in order[::-1] + ('velocity', 'displacement') + order:
                        p.step(*rd(x))
                    p.step(*meth('reset_all_motion_stats'))
                    for x in order:
                        p.step(*rd(x))
                    count += 1
                # Fourier side, response spectra, settings
                p = Pair(cls, values, dt, {}, tag='directed spectra')
                if not p.ok:
                    continue
                for op in (rd('fa_freqs'), rd('fa_spectrum'), meth('gen_fa_spectrum', n=7), rd('fa_spectrum_abs'),
                           meth('gen_fa_spectrum', n=1), rd('fa_freqs'), meth('gen_fa_spectrum', n=0),
                           meth('gen_fa_spectrum', p2_plus=2), rd('fa_spectrum'), rd('smooth_fa_spectrum'),
                           meth('gen_fa_spectrum', p2_plus=-1), rd('fa_freqs'), rd('smooth_fa_spectrum'),
                           meth('gen_fa_spectrum', n=np.int64(9)), rd('fa_freqs'), rd('fa_spectrum_abs'),
                           meth('gen_fa_spectrum', n=np.int32(6)), rd('fa_frequencies'), rd('fa_spectrum'),
                           meth('gen_fa_spectrum', p2_plus=np.int64(1)), rd('fa_freqs'), rd('smooth_fa_spectrum'),
                           setter('smooth_fa_frequencies', [1, 2, 4]), rd('smooth_fa_spectrum'),
                           setter('smooth_fa_freqs', (0.5, 5)), rd('smooth_fa_spectrum'), rd('smooth_fa_frequencies'),
                           meth('set_smooth_fa_frequecies_by_range', (1, 10), 3), rd('smooth_fa_spectrum'),
                           setter('smooth_freq_points', 4), rd('smooth_fa_spectrum'),
                           setter('smooth_freq_range', [0.2, 2]), rd('smooth_fa_spectrum'), rd('smooth_freq_range'),
                           meth('clear_cache'), rd('smooth_fa_spectrum'),
                           rd('s_a'), setter('response_times', np.array([0.3, 0.9])), rd('s_v'), rd('s_d'),
                           meth('gen_response_spectrum', response_times=np.array([0., 0.4]), xi=0.1), rd('s_a'),
                           meth('gen_response_spectrum', response_times=[0.]), rd('s_a'),
                           meth('gen_response_spectrum', response_times=[]), rd('s_a'),
                           meth('gen_response_spectrum', min_dt_ratio=0.5), rd('s_d'),
                           meth('response_series', response_times=np.array([0.5])), rd('s_a'),
                           meth('response_series', xi=0.5), meth('clear_cache'), rd('s_a'), rd('pga'),
                           meth('rebase_displacement'), rd('pgd'), rd('s_a'), rd('fa_spectrum')):
                    p.step(*op)
                    count += 1
    # out-of-memory path of gen_response_spectrum (both modules call the same eqsig.sdof module object)
    import eqsig.sdof as _sdof
    assert OLD.dh is _sdof and NEW.dh is _sdof
    _real = _sdof.pseudo_response_spectra

    def _boom(*a, **k):
        raise MemoryError('simulated')
    for pre in ((), ('s_a', 'pga')):
        for kw in (dict(), dict(response_times=np.array([0.01, 0.3]), xi=0.1), dict(response_times=[0., 0.2])):
            p = Pair('AccSignal', rng.standard_normal(33), 0.02, {}, tag='directed MemoryError')
            for x in pre:
                p.step(*rd(x))
            _sdof.pseudo_response_spectra = _boom
            try:
                res = p.step(*meth('gen_response_spectrum', **kw))
                assert res[0] == 'exc' and res[1] is MemoryError and 'min_dt_ratio' in res[2], res
                p.step(*meth('generate_response_spectrum', **kw))
            finally:
                _sdof.pseudo_response_spectra = _real
            all_reads(p)
            count += 1
    # verbose printing path and constructor variants
    for kw in (dict(verbose=1), dict(verbose=2, response_times=[0.1, 0.2]), dict(response_period_range=(0.5, 1.)),
               dict(smooth_freq_range=(1, 5)), dict(smooth_fa_freqs=[1, 2]), dict(label='x', ccbox=3)):
        p = Pair('AccSignal', rng.standard_normal(30), 0.02, kw, tag='directed ctor')
        all_reads(p)
        p.step(*meth('gen_response_spectrum'))
        p.step(*meth('response_series'))
        p.step(*meth('remove_average'))
        all_reads(p)
        count += 1
    return count


if __name__ == '__main__':
    n3 = directed()
    n2 = random_histories()
    n1 = exhaustive()
    print("equiv%d OK: %d exhaustive histories, %d random steps, %d directed cases - original and edited "
          "eqsig/single.py agree bit-for-bit (results, exceptions, warnings, output, state, arguments, aliasing)"
          % (TWIN, n1, n2, n3))
    sys.exit(0)

"""
Equivalence check for twin3 (eqsig/surface.py: calc_surface_energy / get_time_shift_motions / calc_cum_abs_surface_energy).
All of trim_to_length, calc_surface_energy, calc_cum_abs_surface_energy and get_time_shift_motions are compared.

Run with twin3 applied and cwd = the worktree.  The ORIGINAL package is extracted from git (HEAD) into a temp dir
and evaluated in a subprocess; the EDITED package (the worktree) is evaluated in another subprocess; the pickled
result lists are then compared exactly (dtype, shape, bytes), including exceptions, argument mutation and
signal-object state.
"""
import os
import pickle
import subprocess
import sys
import tempfile

import numpy as np

WORKTREE = os.path.dirname(os.path.dirname(os.path.abspath(__file__)))


# ----------------------------------------------------------------------------------------------------------------
# generic helpers (run inside the workers)
# ----------------------------------------------------------------------------------------------------------------
def freeze(obj):
    """Turn an object into a picklable, exactly comparable description."""
    if isinstance(obj, np.ndarray):
        return ('nd', str(obj.dtype), obj.shape, np.ascontiguousarray(obj).tobytes())
    if isinstance(obj, np.generic):
        return ('npscalar', str(obj.dtype), obj.tobytes())
    if isinstance(obj, (list, tuple)):
        return (type(obj).__name__, tuple(freeze(o) for o in obj))
    if isinstance(obj, dict):
        return ('dict', tuple((k, freeze(obj[k])) for k in sorted(obj, key=str)))
    if isinstance(obj, (int, float, str, bool, type(None))):
        return (type(obj).__name__, repr(obj))
    return ('other', type(obj).__name__, repr(obj))


def sig_state(sig):
    return freeze(dict(sig.__dict__))


def call(fn, args, kwargs, sig=None):
    """Call fn and record the result or exception + the post-call state of all arguments."""
    try:
        out = ('ok', freeze(fn(*args, **kwargs)))
    except Exception as e:  # noqa
        out = ('exc', type(e).__name__, str(e))
    post_args = tuple(freeze(a) if not hasattr(a, '__dict__') else sig_state(a) for a in args)
    post_kwargs = freeze({k: v for k, v in kwargs.items()})
    return out, post_args, post_kwargs, (sig_state(sig) if sig is not None else None)


# ----------------------------------------------------------------------------------------------------------------
# the cases
# ----------------------------------------------------------------------------------------------------------------
def cp(x):
    return x.copy() if isinstance(x, np.ndarray) else (type(x)(x) if isinstance(x, (list, tuple)) else x)


def run_cases(eqsig):
    import eqsig.surface as surf
    rng = np.random.RandomState(4321)
    res = []
    bools = (True, False)

    # ---------------------------------------------------------------- trim_to_length called directly
    def trim_cases():
        for _ in range(300):
            k = rng.randint(1, 5)
            npts = rng.randint(1, 30)
            dt = rng.choice([0.1, 0.01, 0.5, 0.25, 1.0])
            tts = rng.choice([0.0, 0.5, 1.0, 1.5, 2.0, 2.3, 3.7, 6.0], size=k) * dt
            if rng.rand() < 0.2:
                tts[:] = 0.0
            extra = int(np.max(2 * tts / dt)) if rng.rand() < 0.8 else rng.randint(0, 6)
            values = rng.randn(k, npts + extra)
            stt = rng.choice([0.0, 0.0, dt, 2.6 * dt, 0.49 * dt, 7 * dt, 40 * dt])
            yield values, npts, tts, dt, stt
        # integer valued inputs, 0-d travel times (error), wrong widths (error), list travel times (error)
        yield np.arange(24).reshape(3, 8), 5, np.array([0.0, 0.1, 0.15]), 0.1, 0.0
        yield np.arange(24).reshape(3, 8), 5, np.array([0, 1, 2]), 1, 1
        yield np.arange(24.).reshape(3, 8), 5, np.array(0.1), 0.1, 0.0
        yield np.arange(24.).reshape(3, 8), 8, np.array([0.0, 0.1, 0.4]), 0.1, 0.3
        yield np.arange(24.).reshape(3, 8), 12, np.array([0.0, 0.1, 0.4]), 0.1, 0.3
        yield np.arange(24.).reshape(3, 8), 5, [0.0, 0.1, 0.2], 0.1, 0.0
        yield np.arange(8.), 5, np.array([0.0]), 0.1, 0.0
        yield np.arange(24.).reshape(3, 8), 5, np.array([0.0, 0.1]), 0.1, 0.0
        yield np.arange(16.).reshape(2, 8), 5, np.array([0.0, 0.1, 0.2]), 0.1, 0.0

    for values, npts, tts, dt, stt in trim_cases():
        for trim in bools:
            for start in bools:
                v, t = cp(values), cp(tts)
                r = call(surf.trim_to_length, (v, npts, t, dt), {'trim': trim, 'start': start, 's2s_travel_time': stt})
                res.append(('trim', r))
                if not trim and not start:  # the input object itself is handed back
                    try:
                        res.append(('trim-identity', surf.trim_to_length(v, npts, t, dt, trim=trim, start=start,
                                                                         s2s_travel_time=stt) is v))
                    except Exception as e:  # noqa
                        res.append(('trim-identity', type(e).__name__))
        v, t = cp(values), cp(tts)
        res.append(('trim-default', call(surf.trim_to_length, (v, npts, t, dt), {})))
        res.append(('trim-positional', call(surf.trim_to_length, (v, npts, t, dt, True, True, stt), {})))

    # ---------------------------------------------------------------- the surface functions on records
    def records():
        yield np.sin(np.linspace(0, 10, 100)), 0.1
        yield rng.randn(57), 0.01
        yield rng.randn(200), 0.005
        yield rng.randn(10), 0.5
        yield np.zeros(12), 0.1
        yield np.arange(-3, 9), 0.25  # integer dtype
        yield [0.5, -1.0, 2.0, 0.25, -0.75], 0.1  # list
        yield np.array([1.0, -2.0]), 0.1  # very short
        yield np.array([3.0]), 0.1  # one sample
        yield np.ones(7), 1.0

    def travel_time_sets(dt, npts):
        yield 0.0
        yield dt
        yield 1.37 * dt
        yield 1  # python int scalar
        yield np.float64(2.5 * dt)
        yield np.array([0.0])
        yield np.array([0.0, 0.0])
        yield np.array([1.5 * dt])
        yield np.array([0.0, 0.5 * dt, dt, 1.5 * dt, 2 * dt])
        yield np.array([0.13 * dt, 2.718 * dt, 0.999 * dt])
        yield np.array([3 * dt, dt, 2 * dt])  # unsorted
        yield [0.0, dt, 2.2 * dt]  # list
        yield (dt, 0.5 * dt)  # tuple
        yield np.array([0, 1, 2])  # int dtype
        yield np.array([npts * dt, 2 * npts * dt])  # longer than the record
        yield rng.rand(4) * npts * dt * 0.3
        yield np.array([])  # error
        yield np.array([-dt, dt])  # negative travel time (outside the domain, still compared)

    def reductions(tts):
        k = len(tts) if hasattr(tts, '__len__') else 1
        yield 1., 1.
        yield 1, 1
        yield 0.8, 0.6
        yield 0.0, 2.0
        yield np.linspace(1.0, 0.5, k), np.linspace(0.9, 0.3, k)
        yield rng.rand(k), rng.rand(k)
        yield np.ones(k, dtype=int), np.arange(k)
        yield np.linspace(1.0, 0.5, k), 0.7  # mixed -> error
        yield 0.7, np.linspace(1.0, 0.5, k)
        yield list(np.linspace(1.0, 0.5, k)), list(np.linspace(1.0, 0.5, k))  # lists -> error
        yield np.ones(k + 1), np.ones(k + 1)  # wrong length -> error (or broadcast)

    fns = [('energy', surf.calc_surface_energy), ('cum', surf.calc_cum_abs_surface_energy),
           ('motions', surf.get_time_shift_motions)]
    for values, dt in records():
        asig = eqsig.AccSignal(cp(values), dt)
        npts = asig.npts
        res.append(('sig-initial', sig_state(asig)))
        for tts in travel_time_sets(dt, npts):
            reds = list(reductions(tts))
            for ir, (up_red, down_red) in enumerate(reds):
                if ir < 3:
                    combos = [(n_, t_, s_) for n_ in bools for t_ in bools for s_ in bools]
                    stts = (0.0, 1.6 * dt, 3 * dt) if ir == 0 else (0.0, 1.6 * dt)
                elif ir < 7:
                    combos = [(True, True, False), (False, False, True), (True, True, True), (False, False, False)]
                    stts = (0.0, 2.49 * dt)
                else:  # argument combinations that raise
                    combos = [(True, True, False), (False, False, True)]
                    stts = (0.0,)
                if not np.size(tts):  # empty travel times always raise
                    combos, stts = combos[:2], stts[:1]
                for nodal, trim, start in combos:
                    for stt in stts:
                        for name, fn in fns:
                            t, u, d = cp(tts), cp(up_red), cp(down_red)
                            kw = {'nodal': nodal, 'up_red': u, 'down_red': d, 'stt': stt, 'trim': trim,
                                  'start': start}
                            res.append((name, call(fn, (asig, t), kw, sig=asig)))
            # defaults
            for name, fn in fns:
                res.append((name + '-default', call(fn, (asig, cp(tts)), {}, sig=asig)))
                res.append((name + '-positional', call(fn, (asig, cp(tts), False, 0.5, 0.25, dt, True, True), {},
                                                       sig=asig)))
        # large stt / stt beyond the record
        for stt in (npts * dt, 3 * npts * dt, 0.5 * npts * dt):
            for trim in bools:
                for start in bools:
                    for name, fn in fns:
                        kw = {'stt': stt, 'trim': trim, 'start': start}
                        res.append((name + '-bigstt', call(fn, (asig, np.array([0.0, dt, 2.5 * dt])), kw, sig=asig)))
                        res.append((name + '-bigstt1', call(fn, (asig, 1.5 * dt), kw, sig=asig)))

    # ---------------------------------------------------------------- history on an object that has cached state
    asig = eqsig.AccSignal(rng.randn(300), 0.01)
    asig.generate_response_spectrum(response_times=np.array([0.1, 0.5, 1.0]))
    _ = asig.velocity
    _ = asig.smooth_fa_spectrum
    res.append(('hist-initial', sig_state(asig)))
    for step in range(12):
        tts = rng.rand(rng.randint(1, 5)) * 0.2
        kw = {'nodal': bool(step % 2), 'trim': bool(step % 3), 'start': bool(step % 4 == 0), 'stt': 0.013 * step}
        for name, fn in fns:
            res.append(('hist-' + name, call(fn, (asig, tts.copy()), dict(kw), sig=asig)))
    asig.reset_values(rng.randn(64)) if hasattr(asig, 'reset_values') else None
    for name, fn in fns:
        res.append(('hist2-' + name, call(fn, (asig, np.array([0.0, 0.033])), {'trim': True}, sig=asig)))

    # ---------------------------------------------------------------- random sweep
    for _ in range(250):
        n = rng.randint(2, 120)
        dt = rng.choice([0.1, 0.01, 0.02, 0.005])
        asig = eqsig.AccSignal(rng.randn(n), dt)
        k = rng.randint(1, 6)
        mode = rng.randint(0, 3)
        if mode == 0:
            tts = rng.rand(k) * n * dt * 0.4
        elif mode == 1:
            tts = rng.randint(0, n, size=k) * dt / 2
        else:
            tts = rng.randint(0, max(n // 2, 1), size=k) * dt
        if rng.rand() < 0.5:
            up_red, down_red = rng.rand(k), rng.rand(k)
        else:
            up_red, down_red = rng.rand(), rng.rand()
        kw = {'nodal': bool(rng.randint(2)), 'trim': bool(rng.randint(2)), 'start': bool(rng.randint(2)),
              'stt': rng.choice([0.0, rng.rand() * n * dt * 0.3, rng.randint(0, n) * dt]),
              'up_red': up_red, 'down_red': down_red}
        for name, fn in fns:
            res.append(('rand-' + name, call(fn, (asig, tts.copy()), dict(kw), sig=asig)))
    return res


# ----------------------------------------------------------------------------------------------------------------
# driver
# ----------------------------------------------------------------------------------------------------------------
def worker(pkg_root, out_file):
    sys.path.insert(0, pkg_root)
    import eqsig
    import eqsig.surface  # noqa
    assert os.path.abspath(eqsig.__file__).startswith(os.path.abspath(pkg_root) + os.sep), eqsig.__file__
    import warnings
    warnings.simplefilter('ignore')
    np.seterr(all='ignore')
    res = run_cases(eqsig)
    with open(out_file, 'wb') as f:
        pickle.dump(res, f)


def main():
    tmp = tempfile.mkdtemp(prefix='c19_equiv3_', dir='/tmp')
    orig_root = os.path.join(tmp, 'orig')
    os.makedirs(orig_root)
    subprocess.check_call('git archive HEAD eqsig | tar -x -C "%s"' % orig_root, shell=True, cwd=WORKTREE)
    outs = {}
    procs = []
    for name, root in (('orig', orig_root), ('edit', WORKTREE)):  # the two workers run concurrently
        of = os.path.join(tmp, name + '.pkl')
        env = dict(os.environ)
        env.pop('PYTHONPATH', None)
        procs.append((name, of, subprocess.Popen([sys.executable, os.path.abspath(__file__), '--worker', root, of],
                                                 cwd=root, env=env)))
    for name, of, proc in procs:
        assert proc.wait() == 0, 'worker %s failed' % name
        with open(of, 'rb') as f:
            outs[name] = pickle.load(f)
    a, b = outs['orig'], outs['edit']
    assert len(a) == len(b) and len(a) > 0, (len(a), len(b))
    n_ok = 0
    n_exc = 0
    bad = []
    for i, (x, y) in enumerate(zip(a, b)):
        if x != y:
            bad.append((i, x[0]))
        if len(x) > 1 and isinstance(x[1], tuple) and x[1] and isinstance(x[1][0], tuple):
            if x[1][0][0] == 'ok':
                n_ok += 1
            elif x[1][0][0] == 'exc':
                n_exc += 1
    print('cases: %d (returned: %d, raised: %d); mismatches: %d' % (len(a), n_ok, n_exc, len(bad)))
    if bad:
        print('first mismatches:', bad[:10])
        i = bad[0][0]
        print('orig:', a[i])
        print('edit:', b[i])
        sys.exit(1)
    print('twin3 equivalent to original on all cases')
    sys.exit(0)


if __name__ == '__main__':
    if len(sys.argv) >= 4 and sys.argv[1] == '--worker':
        worker(sys.argv[2], sys.argv[3])
    else:
        main()

"""
Equivalence check for twin1 (run with twin1 applied, cwd = the worktree).

The ORIGINAL package is extracted from git (HEAD) into a temporary directory.  The same battery of calls is executed
in two subprocesses (one importing the original package, one importing the edited worktree) and the pickled results
are compared bit-for-bit (dtype, shape, bytes), including the state of the arguments after each call and the state of
AccSignal objects after multi-step histories.  Exit status 0 iff everything matches.
"""
import os
import pickle
import shutil
import subprocess
import sys
import tempfile

HERE = os.path.dirname(os.path.abspath(__file__))
WORKTREE = os.path.dirname(HERE)


# ----------------------------------------------------------------------------------------------------------------
# worker side
# ----------------------------------------------------------------------------------------------------------------

def freeze(obj):
    """Turns a result into a comparable structure that keeps dtype, shape and the exact bits"""
    import numpy as np
    if isinstance(obj, np.ndarray):
        return ('ndarray', str(obj.dtype), obj.shape, np.ascontiguousarray(obj).tobytes())
    if isinstance(obj, np.generic):
        return ('npscalar', str(obj.dtype), obj.tobytes())
    if isinstance(obj, (list, tuple)):
        return (type(obj).__name__, [freeze(o) for o in obj])
    if isinstance(obj, dict):
        return ('dict', [(k, freeze(obj[k])) for k in sorted(obj)])
    if isinstance(obj, float):
        import struct
        return ('float', struct.pack('d', obj))
    if isinstance(obj, (int, bool, str, type(None))):
        return (type(obj).__name__, obj)
    return ('repr', type(obj).__name__, repr(obj))


def call(fn, *args, **kwargs):
    try:
        return ('ok', freeze(fn(*args, **kwargs)))
    except Exception as e:  # noqa
        return ('raised', type(e).__name__, str(e))


def records(np):
    rs = np.random.RandomState(20240311)
    recs = {}
    for n in (2, 3, 5, 17, 120, 400):
        recs['rand%i' % n] = rs.normal(0, 1.5, n)
    recs['len1'] = np.array([0.7])
    recs['zeros'] = np.zeros(40)
    recs['negzeros'] = -np.zeros(12)
    recs['ints'] = rs.randint(-9, 9, 60)
    recs['ints_pos'] = rs.randint(1, 9, 30)
    recs['all_neg'] = -np.abs(rs.normal(0, 1, 50)) - 0.1
    recs['all_pos'] = np.abs(rs.normal(0, 1, 50)) + 0.1
    recs['const'] = np.full(25, -2.5)
    spike = np.zeros(80)
    spike[3] = -4.0
    recs['spike'] = spike
    recs['f32'] = rs.normal(0, 1, 64).astype(np.float32)
    recs['sine'] = np.sin(0.13 * np.arange(300)) * 0.9
    recs['sym'] = np.array([1.0, -1.0, 1.0, -1.0, 0.5, -0.5])
    t = np.arange(250) * 0.01
    recs['chirp'] = np.sin(2 * np.pi * (0.5 + 4 * t) * t) * np.exp(-t)
    return recs


def period_sets(np, dt):
    ps = []
    ps.append(('list_lead0', [0, dt * 2, dt * 5.9, dt * 6, dt * 6.1, dt * 20, 1.0, 3.0]))
    ps.append(('tuple_no0', (dt * 3, dt * 6, dt * 7, 0.4, 2.5)))
    ps.append(('arr_lead0', np.array([0.0, 0.05, 0.3, 1.1])))
    ps.append(('arr_no0', np.array([0.08, 0.3, 1.1, 4.0])))
    ps.append(('only0', [0]))
    ps.append(('zero_and_one', [0.0, 0.5]))
    ps.append(('single', [0.37]))
    ps.append(('single_arr', np.array([dt * 4])))
    ps.append(('int_periods', [1, 2, 3]))
    ps.append(('int_arr_lead0', np.array([0, 1, 2])))
    ps.append(('unsorted', [2.0, 0.1, dt * 2, 0.7]))
    ps.append(('linspace', np.linspace(0.02, 3, 23)))
    ps.append(('empty', []))
    return ps


def sig_state(np, s):
    keys = ['_s_a', '_s_v', '_s_d', '_cached_response_spectra', '_cached_xi', '_response_times', '_values', '_dt',
            '_npts', '_cached_fa', '_cached_smooth_fa', '_cached_disp_and_velo', '_cached_params']
    st = {}
    for k in keys:
        st[k] = freeze(s.__dict__.get(k, '<missing>'))
    st['dict_keys'] = freeze(sorted(s.__dict__.keys()))
    return st


def battery():
    import numpy as np
    import eqsig
    from eqsig import sdof, im
    out = []
    recs = records(np)
    rs = np.random.RandomState(7)

    # --- module level functions -------------------------------------------------------------------------------
    for rname in sorted(recs):
        rec = recs[rname]
        for dt in (0.01, 0.005, np.float64(0.02), 1):
            for pname, periods in period_sets(np, float(dt)):
                for xi in (0, 0.05, 0.3, 0.99):
                    if rs.rand() > 0.22 and not (rname in ('rand17', 'zeros', 'ints') and dt == 0.01):
                        continue
                    for fname in ('pseudo_response_spectra', 'true_response_spectra'):
                        m = np.array(rec)
                        p = periods.copy() if isinstance(periods, np.ndarray) else type(periods)(periods)
                        res = call(getattr(sdof, fname), m, dt, p, xi)
                        out.append(((fname, rname, str(dt), pname, xi), res, freeze(m), freeze(p)))
    # list / tuple records (not arrays)
    for cont in (list, tuple):
        for fname in ('pseudo_response_spectra', 'true_response_spectra'):
            m = cont(recs['rand17'])
            out.append(((fname, cont.__name__), call(getattr(sdof, fname), m, 0.01, [0, 0.1, 1.0], 0.05), freeze(m)))

    # absmax directly
    for rname in sorted(recs):
        out.append((('absmax', rname), call(sdof.absmax, recs[rname])))
        if len(recs[rname]) >= 6:
            a2 = recs[rname][:len(recs[rname]) // 3 * 3].reshape(3, -1)
            out.append((('absmax1', rname), call(sdof.absmax, a2, axis=1), call(sdof.absmax, a2, 0)))
            out.append((('absmax1kw', rname), call(sdof.absmax, a=a2, axis=1), freeze(a2)))

    # --- AccSignal lazy spectra and histories -------------------------------------------------------------------
    for rname in ('rand120', 'rand400', 'zeros', 'ints', 'sine', 'spike', 'rand5', 'chirp', 'f32'):
        rec = recs[rname]
        for dt in (0.01, 0.05):
            for ratio in (1, 2, 4, 8):
                for rt in (None, [0, 0.02, 0.3, 1.0], (0.04, 0.5, 2.0), np.array([0.0, 0.5, 1.5]), np.array([0.3, 0.31]),
                           [0, dt * 5, dt * 7]):
                    hist = []
                    vals = np.array(rec)
                    if rt is None:
                        s = eqsig.AccSignal(vals, dt)
                    else:
                        s = eqsig.AccSignal(vals, dt, response_times=rt)
                    hist.append(('init', sig_state(np, s)))
                    hist.append(('gen', call(s.gen_response_spectrum, min_dt_ratio=ratio), sig_state(np, s)))
                    hist.append(('s_a', call(lambda: s.s_a), call(lambda: s.s_v), call(lambda: s.s_d)))
                    hist.append(('same_obj', s.s_a is s._s_a, s.s_v is s._s_v, s.s_d is s._s_d))
                    hist.append(('gen_xi', call(s.gen_response_spectrum, xi=0.2, min_dt_ratio=ratio), sig_state(np, s)))
                    hist.append(('gen_rt', call(s.gen_response_spectrum, response_times=[0, 0.1, 0.9], xi=0),
                                 sig_state(np, s)))
                    s.response_times = np.array([0.2, 0.6])
                    hist.append(('set_rt', sig_state(np, s)))
                    hist.append(('s_d_first', call(lambda: s.s_d), sig_state(np, s)))
                    s.reset_values(vals * 2)
                    hist.append(('reset', sig_state(np, s)))
                    hist.append(('s_v_first', call(lambda: s.s_v), call(lambda: s.s_a), sig_state(np, s)))
                    hist.append(('generate', call(s.generate_response_spectrum, [0.0, 0.25], 0.1, ratio),
                                 sig_state(np, s)))
                    hist.append(('vals', freeze(vals)))
                    out.append((('AccSignal', rname, dt, ratio, repr(rt)), hist))
    # lazy access without an explicit generation
    for rname in ('rand120', 'zeros', 'ints'):
        for first in ('s_a', 's_v', 's_d'):
            s = eqsig.AccSignal(np.array(recs[rname]), 0.02, response_period_range=(0.2, 3))
            r = call(lambda: getattr(s, first))
            out.append((('lazy', rname, first), r, sig_state(np, s), call(lambda: s.s_a), call(lambda: s.s_d),
                        call(lambda: s.s_v)))
    out.append(('class_attr', [type(getattr(eqsig.AccSignal, k)).__name__ != 'ndarray' for k in ('s_a', 's_v', 's_d')]))
    s = eqsig.AccSignal(np.array(recs['rand120']), 0.01)

    def _set():
        s.s_a = 3
    try:
        _set()
        out.append(('set_s_a', 'ok'))
    except Exception as e:  # noqa
        out.append(('set_s_a', type(e).__name__))

    # copies, subclasses that override the generator, instance attributes, deletion
    import copy

    class Counting(eqsig.AccSignal):
        n_gen = 0

        def generate_response_spectrum(self, response_times=None, xi=-1, min_dt_ratio=4):
            self.n_gen += 1
            super(Counting, self).generate_response_spectrum(response_times=response_times, xi=xi,
                                                             min_dt_ratio=min_dt_ratio)

    for rname in ('rand120', 'ints', 'zeros'):
        s = Counting(np.array(recs[rname]), 0.01, response_times=[0, 0.03, 0.2, 1.0])
        h = [s.n_gen, call(lambda: s.s_a), s.n_gen, call(lambda: s.s_v), call(lambda: s.s_d), s.n_gen]
        s2 = copy.deepcopy(s)
        h += [sig_state(np, s2), call(lambda: s2.s_d), s2.n_gen, s2._s_d is s._s_d]
        s.gen_response_spectrum(xi=0.1)
        h += [s.n_gen, call(lambda: s.s_a), s.n_gen]
        s.response_times = (0.5, 0.7)
        h += [call(lambda: s.s_v), s.n_gen, call(lambda: s.s_a), s.n_gen, sig_state(np, s)]
        s.add_constant(0.3)
        h += [sig_state(np, s), call(lambda: s.s_d), s.n_gen, call(lambda: s.s_d), s.n_gen, sig_state(np, s)]
        s3 = copy.copy(s)
        s3.clear_cache()
        h += [call(lambda: s3.s_a), s3.n_gen, s.n_gen, sig_state(np, s3), sig_state(np, s)]
        h += [hasattr(s, 's_a'), 's_a' in s.__dict__, 's_a' in dir(s), call(lambda: getattr(s, 's_v', None))]
        for k in ('s_a', 's_v', 's_d'):
            try:
                delattr(s, k)
                h.append('deleted')
            except Exception as e:  # noqa
                h.append(type(e).__name__)
            try:
                setattr(s, k, np.zeros(2))
                h.append('set')
            except Exception as e:  # noqa
                h.append(type(e).__name__)
            h.append(str(getattr(eqsig.AccSignal, k).__doc__))
        h.append(sig_state(np, s))
        out.append((('subclass', rname), h))

    # --- energy spectra and spectrum intensities ----------------------------------------------------------------
    for rname in ('rand120', 'rand400', 'zeros', 'ints', 'sine', 'spike', 'rand5', 'rand2', 'len1', 'f32', 'const'):
        for dt in (0.01, 0.04, 1):
            vals = np.array(recs[rname])
            s = eqsig.AccSignal(vals, dt)
            for periods in (None, [0.1, 0.5, 2.0], (0.3,), np.array([0.05, 0.2, 1.0, 3.0]), np.array([0.0, 0.4]),
                            [0, 0.3, 1]):
                for xi in (None, 0, 0.05, 0.4):
                    p = periods.copy() if isinstance(periods, np.ndarray) else periods
                    out.append((('uke', rname, dt, repr(periods), xi),
                                call(sdof.calc_resp_uke_spectrum, s, periods=p, xi=xi), freeze(p)))
                    out.append((('ie', rname, dt, repr(periods), xi),
                                call(sdof.calc_input_energy_spectrum, s, periods=p, xi=xi),
                                call(sdof.calc_input_energy_spectrum, s, p, xi, True),
                                call(sdof.calc_input_energy_spectrum, s, periods=p, xi=xi, series=False), freeze(p)))
            out.append((('ie_state', rname, dt), sig_state(np, s), freeze(vals)))
            for xi in (0.05, 0.0, 0.2):
                out.append((('asi', rname, dt, xi), call(im.calc_asi, s, xi), call(im.calc_vsi, s, xi=xi)))
            for periods in ([0.1, 0.5, 1.0], np.array([0.2, 0.3, 0.4, 0.8]), (0.5,), [0, 0.2, 0.6]):
                out.append((('asi_p', rname, dt, repr(periods)), call(im.calc_asi, s, periods=periods),
                            call(im.calc_vsi, s, 0.1, periods)))
            out.append((('asi_default', rname, dt), call(im.calc_asi, s), call(im.calc_vsi, s), sig_state(np, s)))
    return out


def worker(path, out_file):
    sys.path.insert(0, path)
    import warnings
    warnings.simplefilter('ignore')
    import numpy as np
    np.seterr(all='ignore')
    import eqsig
    assert os.path.abspath(eqsig.__file__).startswith(os.path.abspath(path) + os.sep), (eqsig.__file__, path)
    res = battery()
    with open(out_file, 'wb') as f:
        pickle.dump(res, f)


# ----------------------------------------------------------------------------------------------------------------
# driver side
# ----------------------------------------------------------------------------------------------------------------

def main():
    tmp = tempfile.mkdtemp(prefix='twin3_C03_equiv_', dir='/tmp')
    try:
        orig = os.path.join(tmp, 'orig')
        os.makedirs(orig)
        subprocess.check_call('git archive HEAD eqsig | tar -x -C "%s"' % orig, shell=True, cwd=WORKTREE)
        outs = {}
        for name, path in (('orig', orig), ('edit', WORKTREE)):
            of = os.path.join(tmp, name + '.pkl')
            env = dict(os.environ)
            env.pop('PYTHONPATH', None)
            subprocess.check_call([sys.executable, os.path.abspath(__file__), '--worker', path, of], cwd=path, env=env)
            with open(of, 'rb') as f:
                outs[name] = pickle.load(f)
        a, b = outs['orig'], outs['edit']
        assert len(a) == len(b), (len(a), len(b))
        n_bad = 0
        n_ok_calls = 0
        for x, y in zip(a, b):
            if x != y:
                n_bad += 1
                if n_bad < 10:
                    print('MISMATCH at', x[0])
            n_ok_calls += repr(x).count("'ok'")
        print('%i cases compared (%i successful calls inside), %i mismatches' % (len(a), n_ok_calls, n_bad))
        return 1 if n_bad else 0
    finally:
        shutil.rmtree(tmp, ignore_errors=True)


if __name__ == '__main__':
    if len(sys.argv) > 1 and sys.argv[1] == '--worker':
        worker(sys.argv[2], sys.argv[3])
    else:
        sys.exit(main())

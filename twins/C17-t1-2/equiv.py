"""Equivalence check for twin2 (remove_poly: Signal method delegates to fns.generic.remove_poly, loop idiom there).

Run with twin2 applied, cwd = the worktree.  Exit 0 iff original == edited everywhere.
"""
import os
import sys
import subprocess
import types
import warnings
import itertools

HERE = os.getcwd()
sys.path.insert(0, HERE)

import numpy as np
import eqsig
import eqsig.single as new_single
import eqsig.fns.generic as new_generic

assert eqsig.__file__.startswith(HERE), eqsig.__file__


def load_original(relpath, modname):
    src = subprocess.check_output(['git', 'show', 'HEAD:' + relpath], cwd=HERE).decode()
    mod = types.ModuleType(modname)
    mod.__package__ = modname.rpartition('.')[0]
    mod.__file__ = '<git HEAD:%s>' % relpath
    exec(compile(src, mod.__file__, 'exec'), mod.__dict__)
    return mod


old_single = load_original('eqsig/single.py', 'eqsig._orig_single')
old_generic = load_original('eqsig/fns/generic.py', 'eqsig.fns._orig_generic')
assert 'remove_poly' not in subprocess.check_output(['git', 'show', 'HEAD:eqsig/single.py'], cwd=HERE).decode() \
    .split('import eqsig.sdof')[0], 'original single.py must not depend on fns.generic.remove_poly'
for rel in ('eqsig/single.py', 'eqsig/fns/generic.py'):
    assert open(os.path.join(HERE, rel)).read() != \
        subprocess.check_output(['git', 'show', 'HEAD:' + rel], cwd=HERE).decode(), rel + ': twin2 is not applied'
cur_src = open(os.path.join(HERE, 'eqsig/single.py')).read()
head_src = subprocess.check_output(['git', 'show', 'HEAD:eqsig/single.py'], cwd=HERE).decode()
assert cur_src != head_src, "twin2 is not applied"

n_checks = 0


def same(a, b, path=''):
    """Strict structural / bit-for-bit comparison."""
    if isinstance(a, np.ndarray) or isinstance(b, np.ndarray):
        assert isinstance(a, np.ndarray) and isinstance(b, np.ndarray), (path, type(a), type(b))
        assert a.dtype == b.dtype, (path, a.dtype, b.dtype)
        assert a.shape == b.shape, (path, a.shape, b.shape)
        if a.dtype == object:
            assert all(x is y or x == y for x, y in zip(a.ravel(), b.ravel())), path
        else:
            assert np.array_equal(a, b, equal_nan=a.dtype.kind in 'fc'), (path, a, b)
            if a.dtype.kind == 'f':
                assert np.array_equal(np.signbit(a), np.signbit(b)), (path, 'sign of zero')
        return
    assert type(a) is type(b), (path, type(a), type(b))
    if isinstance(a, dict):
        assert list(a.keys()) == list(b.keys()), (path, a.keys(), b.keys())
        for k in a:
            same(a[k], b[k], path + '.' + str(k))
    elif isinstance(a, (list, tuple)):
        assert len(a) == len(b), path
        for i, (x, y) in enumerate(zip(a, b)):
            same(x, y, path + '[%d]' % i)
    elif isinstance(a, float):
        assert a == b or (a != a and b != b), (path, a, b)
    else:
        assert a == b, (path, a, b)


def state(sig):
    return dict(vars(sig))


def run(cls_name, values, dt, calls, ctor_kwargs=None):
    """Build the same object with both implementations, run the same calls, compare everything."""
    global n_checks
    ctor_kwargs = ctor_kwargs or {}
    outs = []
    for mod in (old_single, new_single):
        vals_in = values.copy() if isinstance(values, np.ndarray) else list(values)
        log = []
        with warnings.catch_warnings():
            warnings.simplefilter('ignore')
            try:
                sig = getattr(mod, cls_name)(vals_in, dt, **ctor_kwargs)
            except Exception as e:  # constructor failure must match as well
                outs.append((('ctor-exc', type(e).__name__, str(e)), None, vals_in))
                continue
            held = sig.values  # a reference held by a caller
            for name, args, kwargs in calls:
                args = tuple(a.copy() if isinstance(a, np.ndarray) else a for a in args)
                try:
                    ret = getattr(sig, name)(*args, **kwargs)
                    log.append(('ok', ret, args, sig.values.copy(), sig.values is held, held.copy()))
                except Exception as e:
                    log.append(('exc', type(e).__name__, str(e), args, sig.values.copy(), sig.values is held,
                                held.copy()))
        outs.append((log, state(sig), vals_in))
    (log_o, st_o, in_o), (log_n, st_n, in_n) = outs
    same(log_o, log_n, 'log')
    same(st_o, st_n, 'state')
    same(in_o, in_n, 'ctor-arg')
    n_checks += 1
    return log_o


rng = np.random.RandomState(2717)


def run_fn(values, *args, **kwargs):
    """Array-level remove_poly: same result / exception, argument left untouched."""
    global n_checks
    outs = []
    for mod in (old_generic, new_generic):
        if isinstance(values, np.ndarray):
            arg = values.copy()
        elif isinstance(values, (list, tuple)):
            arg = type(values)(values)
        else:
            arg = values
        with warnings.catch_warnings(record=True) as w:
            warnings.simplefilter('always')
            try:
                res = ('ok', mod.remove_poly(arg, *args, **kwargs))
            except Exception as e:
                res = ('exc', type(e).__name__, str(e))
        outs.append((res, arg, sorted(str(x.category.__name__) for x in w)))
    same(outs[0], outs[1], 'remove_poly')
    if outs[0][0][0] == 'ok' and isinstance(values, np.ndarray):
        same(outs[1][1], values, 'argument mutated')
        assert outs[1][0][1] is not outs[1][1]
    n_checks += 1
    return outs[0][0]


def record(n, kind):
    t = np.linspace(0, 1, n)
    if kind == 0:
        return rng.randn(n)
    if kind == 1:
        return (rng.randn(n) * 50).astype(int)
    if kind == 2:
        return list(rng.randn(n))
    if kind == 3:
        return rng.randn(n).astype(np.float32)
    if kind == 4:  # noise plus a large polynomial trend
        return rng.randn(n) + np.polyval(rng.randn(5) * 1e3, t)
    if kind == 5:
        return np.zeros(n)
    if kind == 6:
        return tuple(int(v) for v in rng.randint(-9, 9, n))
    return np.polyval(rng.randn(3), t)  # exactly polynomial


# ---------------------------------------------------------------- array level
n_ok = 0
for trial in range(1500):
    n = int(rng.choice([1, 2, 3, 4, 5, 6, 7, 10, 33, 100, 257, 1000, 4001]))
    values = record(n, trial % 8)
    k = int(rng.randint(0, 5)) if n > 1 else 0  # (n == 1 with k >= 1 only makes LAPACK print warnings)
    if trial % 3 == 0:
        r = run_fn(values, k)
    elif trial % 3 == 1:
        r = run_fn(values, poly_fit=k)
    else:
        r = run_fn(values) if k == 0 else run_fn(values, k)
    n_ok += r[0] == 'ok'
assert n_ok > 1300, n_ok
for k in range(0, 5):
    for n in [m for m in range(0, 12) if m != 1 or k < 1]:
        run_fn(np.arange(n) ** 2.0, k)
        run_fn(list(range(n)), k)
        run_fn(np.arange(n), k)
# idempotence-style chains: feed the output back in
v_o = v_n = rng.randn(500) + 3 * np.linspace(0, 1, 500) ** 3
for k in (3, 3, 1, 4, 0, 2):
    v_o, v_n = old_generic.remove_poly(v_o, k), new_generic.remove_poly(v_n, k)
    same(v_o, v_n, 'chain')
# odd arguments
for pf in [2.0, np.int64(3), np.float64(1.0), True, -1, 'a', None, 1.5, [1], 50]:
    run_fn(rng.randn(40), pf)
for values in [rng.randn(20, 1), rng.randn(20, 3), rng.randn(3, 3), rng.randn(20) + 1j * rng.randn(20),
               5.0, None, 'abcd',
               np.array(3.0), np.array(['a', 'b']), [[1, 2], [3, 4]], np.array([True, False, True])]:
    for k in (0, 1, 2):
        run_fn(values, k)

# ---------------------------------------------------------------- object level
n_ok = 0
for trial in range(600):
    n = int(rng.choice([1, 2, 3, 5, 8, 50, 128, 999, 2048]))
    values = record(n, trial % 8)
    if isinstance(values, tuple):
        values = list(values)
    dt = float(rng.choice([0.01, 0.005, 0.1]))
    k1, k2 = (int(rng.randint(0, 5)), int(rng.randint(0, 5))) if n > 1 else (0, 0)
    cls_name = 'AccSignal' if trial % 2 else 'Signal'
    h = trial % 5
    if h == 0:
        calls = [('remove_poly', (k1,), {})]
    elif h == 1:
        calls = [('remove_poly', (), {'poly_fit': k1}), ('remove_poly', (k1,), {}), ('remove_poly', (k2,), {})]
    elif h == 2:  # caches filled first, polynomial added beforehand
        calls = [('gen_fa_spectrum', (), {}), ('add_series', (np.polyval(rng.randn(k1 + 1), np.linspace(0, 1, n)),), {}),
                 ('remove_poly', (k1,), {}), ('add_constant', (2.5,), {}), ('remove_poly', (), {})]
    elif h == 3:  # length changes through reset_values before detrending
        m = int(rng.choice([4, 7, 60]))
        calls = [('remove_poly', (k1,), {}), ('reset_values', (rng.randn(m),), {}), ('remove_poly', (k2,), {}),
                 ('reset_values', (list(range(m + 3)),), {}), ('remove_poly', (min(k2, 2),), {})]
    else:
        calls = [('running_average', (int(rng.randint(1, 26)),), {}), ('remove_poly', (k1,), {}),
                 ('remove_average', (), {}), ('remove_poly', (k2,), {})]
        if cls_name == 'AccSignal' and n >= 50:
            calls += [('remove_rolling_average', (), {'mtype': 'velocity', 'freq_window': 5}),
                      ('remove_poly', (k2,), {}),
                      ('remove_rolling_average', (), {'mtype': 'acc', 'freq_window': 5}),
                      ('rebase_displacement', (), {}), ('remove_poly', (k1,), {})]
    log = run(cls_name, values, dt, calls)
    n_ok += all(entry[0] == 'ok' for entry in log)
assert n_ok > 450, n_ok
for n in range(0, 9):
    for k in range(0, 5 if n != 1 else 1):
        run('Signal', np.arange(n) * 1.5, 0.01, [('remove_poly', (k,), {})])
        run('AccSignal', list(range(n)), 0.01, [('remove_poly', (k,), {}), ('remove_poly', (k,), {})])
for pf in [2.0, np.int64(3), True, -1, 'a', None, 1.5]:
    run('Signal', rng.randn(30), 0.01, [('remove_poly', (pf,), {})])
run('Signal', rng.randn(20, 3), 0.01, [('remove_poly', (1,), {})])
run('Signal', rng.randn(20) + 1j, 0.01, [('remove_poly', (1,), {})])
# AccSignal derived quantities after detrending (cache invalidation is part of the state)
for k in range(5):
    run('AccSignal', rng.randn(400), 0.01, [('generate_response_spectrum', (), {}), ('remove_poly', (k,), {}),
                                            ('gen_fa_spectrum', (), {})])

# signature / metadata
import inspect
assert str(inspect.signature(old_generic.remove_poly)) == str(inspect.signature(new_generic.remove_poly))
assert str(inspect.signature(old_single.Signal.remove_poly)) == str(inspect.signature(new_single.Signal.remove_poly))
assert old_single.Signal.remove_poly.__doc__ == new_single.Signal.remove_poly.__doc__
assert eqsig.remove_poly is new_generic.remove_poly

print('equiv2: %d comparisons, all identical' % n_checks)

"""
Equivalence program for twin 2 (eqsig/im.py: the power-law equivalent-cycle functions rewritten in another style;
the zero-order hold of calc_n_cyc_array_w_power_law is done with np.repeat instead of scipy's interp1d).

Run with the edit applied and cwd = the worktree:
    cd <worktree> && PYTHONPATH=<worktree> /venv/bin/python out/equiv2.py

The original package is obtained with `git archive HEAD eqsig` into a temporary directory. The original and the
edited package are each exercised in a separate subprocess (this file, `worker` mode) on the same deterministic
set of cases; the parent compares the pickled outcomes: dtype, shape, exception type and text and the state of the
arguments after the call exactly, array contents to 1e-12 relative (NaN / inf positions exactly).
"""
import io
import os
import pickle
import subprocess
import sys
import tarfile
import tempfile


# ---------------------------------------------------------------------------------------------------------------
# worker
# ---------------------------------------------------------------------------------------------------------------

def enc(obj):
    import numpy as np
    if isinstance(obj, np.ndarray):
        if obj.dtype == object:
            return ('ndobj', obj.shape, repr(obj.tolist()))
        if obj.dtype.kind in 'fc' and obj.dtype.itemsize > 8 and obj.dtype != np.complex128:
            # extended precision has padding bytes of unspecified content: compare the printed digits
            return ('ndlong', obj.dtype.str, obj.shape, repr([repr(v) for v in obj.ravel().tolist()]))
        return ('nd', obj.dtype.str, obj.shape, np.ascontiguousarray(obj).tobytes())
    if isinstance(obj, np.generic):
        return ('npscalar', obj.dtype.str, obj.tobytes())
    if isinstance(obj, (list, tuple)):
        return (type(obj).__name__, [enc(o) for o in obj])
    return ('py', type(obj).__name__, repr(obj))


def series_pool():
    import numpy as np
    rng = np.random.RandomState(777)
    pool = []
    hand = [
        [0, 2, 1, 2, 0, 1, 0, -1, 0, 1, 0], [0, 2, 1, 2, -1, 1, 1, 0.3, -1, 0.2, 1, 0.2],
        [0, 1], [1, 0], [0, 0, 1], [1, 1, 0], [5, 5, 5, 4, 4, 6, 6, 6], [0, -1, -1, -2, 3, 3, 3, -4],
        [3, 2, 1, 0, -1], [1, 2, 3, 4], [0, 1, 0], [0, -1, 0], [7, 7, 7], [0, 0], [0.0], [3], [-2.5], [],
        [0, 0, 0, 0], [1, -1, 1, -1, 1], [-1, 1, -1, 1], [0.5, -0.001, 0.4, 0.0005, -0.3, 0.0, 0.0, 0.2],
        [1e-300, -2e-300, 1e-300], [1e150, -1e150, 1e150], [0, 0, 0, 1, 0, 0, 0],
    ]
    for k, h in enumerate(hand):
        pool.append(('hand-list-%i' % k, list(h)))
        pool.append(('hand-arr-%i' % k, np.array(h)))
        pool.append(('hand-float-%i' % k, np.array(h, dtype=float)))
        pool.append(('hand-off-%i' % k, np.array(h, dtype=float) + 0.75))
        pool.append(('hand-rev-%i' % k, np.array(h, dtype=float)[::-1]))
    for k in range(160):
        n = int(rng.randint(1, 150))
        pool.append(('randn-%i' % k, rng.randn(n) * rng.choice([1e-3, 1.0, 50.0])))
    for k in range(60):
        n = int(rng.randint(2, 120))
        pool.append(('randn-list-%i' % k, (rng.randn(n)).tolist()))
        pool.append(('randn-off-%i' % k, rng.randn(n) + rng.uniform(-3, 3)))
    for k in range(100):
        n = int(rng.randint(2, 100))
        x = rng.randint(-4, 5, size=n)
        pool.append(('int-%i' % k, x.astype([np.int64, np.int32, np.int16, np.int8][k % 4])))
        if k % 4 == 0:
            pool.append(('int-list-%i' % k, [int(v) for v in x]))
    for k in range(80):
        n = int(rng.randint(2, 200))
        x = np.round(rng.randn(n) * 2) / 2
        pool.append(('quant-%i' % k, x))
        if k % 2:
            pool.append(('quant32-%i' % k, x.astype(np.float32)))
    for k in range(60):
        n = int(rng.randint(2, 150))
        pool.append(('walk-%i' % k, np.cumsum(rng.choice([-1.0, -0.5, 0.0, 0.0, 0.5, 1.0], size=n))))
    for k in range(12):
        n = int(rng.randint(500, 3000))
        t = np.arange(n) * 0.01
        x = np.sin(2 * np.pi * rng.uniform(0.2, 5) * t) * np.exp(-t * rng.uniform(0, 0.3)) + 0.1 * rng.randn(n)
        pool.append(('smooth-%i' % k, x))
    # small peaks relative to the maximum (exercise the cut-off)
    for k in range(60):
        n = int(rng.randint(5, 80))
        x = rng.randn(n) * rng.choice([1.0, 0.05, 0.005], size=n)
        pool.append(('mixed-%i' % k, x))
    pool.append(('nan-mid', np.array([0., 1., np.nan, -2., 1.])))
    pool.append(('inf', np.array([0., np.inf, -1., -np.inf, 1.])))
    pool.append(('uint8', np.array([3, 5, 2, 2, 9, 1], dtype=np.uint8)))
    pool.append(('bool', np.array([True, False, True, True])))
    pool.append(('complex', np.array([0, 1 + 1j, -0.5, 2j])))
    pool.append(('2d', np.array([[0., 1., -1.], [2., -1., 3.]])))
    pool.append(('2d-list', [[0., 1., -1.], [2., -1., 3.]]))
    pool.append(('col', np.array([[0.], [1.], [-0.5]])))
    pool.append(('scalar', 3.0))
    pool.append(('0d', np.array(2.0)))
    pool.append(('none', None))
    pool.append(('str', 'abc'))
    pool.append(('object', np.array([0, 1.5, -1, 2], dtype=object)))
    pool.append(('tuple', (0.0, 1.0, -2.0, 0.5)))
    pool.append(('range', range(5)))
    pool.append(('f16', np.array([0, 1, -0.5, 2, 2, -1], dtype=np.float16)))
    return pool


def worker(out_path, expected_root):
    import copy
    import warnings
    import numpy as np
    import eqsig
    from eqsig import im
    root = os.path.realpath(os.path.dirname(os.path.dirname(eqsig.__file__)))
    assert root == os.path.realpath(expected_root), (root, expected_root)
    warnings.simplefilter('ignore')
    np.seterr(all='ignore')
    rng = np.random.RandomState(4242)
    pool = series_pool()

    b_scalars = [0.05, 0.1, 0.2, 0.3, 0.34, 0.5, 0.77, 1.0, 1, np.float64(0.25), np.float32(0.5)]
    b_arrays = [np.array([0.3]), np.array([0.1, 0.34, 1.0]), np.linspace(0.05, 1.0, 7), np.array([0.2, 0.2]),
                np.array([1, 1]), np.array(0.3), np.array([[0.3, 0.5]]), np.array([]), np.array([0.3, 0.5], dtype=np.float32)]
    b_odd = [[0.3], [0.2, 0.4], (0.3,), 0.0, -0.3, 2.0, None, '0.3', np.nan]
    cut_offs = [None, 0.0, 0.01, 0.05, 0.1, 0.003, 1.0, -0.1]
    a_refs = [1.0, 0.65, 1e-3, 30.0, 2, np.float64(0.4), 0.0, -1.0, np.array(1.5), np.array([2.0])]  # scalar a_ref only
    n_cycs = [15, 15.0, 1, 0.5, 7.3, 100, np.float64(3.0), 0, -2, np.array([1.0, 2.0])]

    def pick(seq, n_main):
        """mostly from the in-domain head of the list, sometimes from the odd tail"""
        if rng.rand() < 0.9:
            return seq[rng.randint(0, n_main)]
        return seq[rng.randint(0, len(seq))]

    def call(fn, args, kwargs):
        args = copy.deepcopy(args)
        kwargs = copy.deepcopy(kwargs)
        try:
            out = ('ok', enc(getattr(im, fn)(*args, **kwargs)))
        except Exception as e:  # noqa
            out = ('exc', type(e).__name__, str(e))
        state = [enc(a) if not isinstance(a, range) else repr(a) for a in list(args) + [kwargs[k] for k in sorted(kwargs)]]
        return out, state

    results = {}
    for i, (label, vals) in enumerate(pool):
        for rep in range(5):
            r = rng.rand()
            if r < 0.55:
                b = b_scalars[rng.randint(0, len(b_scalars))]
            elif r < 0.92:
                b = b_arrays[rng.randint(0, len(b_arrays))]
            else:
                b = b_odd[rng.randint(0, len(b_odd))]
            if rng.rand() < 0.3:
                b = float(rng.uniform(0.05, 1.0))
            a_ref = pick(a_refs, 6)
            if rng.rand() < 0.4:
                a_ref = float(np.exp(rng.uniform(-4, 3)))
            cut = pick(cut_offs, 6)
            if rng.rand() < 0.3:
                cut = float(rng.uniform(0, 0.1))
            n_cyc = pick(n_cycs, 7)
            key = (label, rep, repr(b), repr(a_ref), repr(cut), repr(n_cyc))
            kw = {} if cut is None else {'cut_off': cut}
            if rep % 2:
                results[key + ('n_cyc',)] = call('calc_n_cyc_array_w_power_law', (vals, a_ref, b), kw)
                results[key + ('amp',)] = call('calc_cyc_amp_array_w_power_law', (vals, n_cyc, b), {})
            else:
                kw2 = dict(kw)
                kw2.update({'a_ref': a_ref, 'b': b})
                results[key + ('n_cyc',)] = call('calc_n_cyc_array_w_power_law', (vals,), kw2)
                results[key + ('amp',)] = call('calc_cyc_amp_array_w_power_law', (vals,), {'n_cyc': n_cyc, 'b': b})
            # two components: the same one, a scaled copy, another series of the same / another length
            other_label, other = pool[rng.randint(0, len(pool))]
            partners = [('same', vals), ('other', other)]
            try:
                arr = np.array(vals, dtype=float)
                partners.append(('scaled', arr * -0.5))
                partners.append(('perm', arr[rng.permutation(len(arr))]))
            except Exception:  # noqa
                pass
            pname, partner = partners[rng.randint(0, len(partners))]
            k2 = key + (pname, other_label if pname == 'other' else '')
            results[k2 + ('gm',)] = call('calc_cyc_amp_gm_arrays_w_power_law', (vals, partner, n_cyc, b), {})
            results[k2 + ('comb',)] = call('calc_cyc_amp_combined_arrays_w_power_law', (vals, partner),
                                           {'n_cyc': n_cyc, 'b': b})
        # a history on the same array object: n cycles for a reference amplitude, then the amplitude for that n
        if isinstance(vals, np.ndarray) and vals.ndim == 1 and len(vals) > 1:
            a = vals.copy()
            seq = []
            for b in (0.3, np.array([0.2, 0.6])):
                try:
                    n_series = im.calc_n_cyc_array_w_power_law(a, a_ref=0.65 * np.max(np.abs(a)), b=b, cut_off=0.01)
                    seq.append(enc(n_series))
                    amp = im.calc_cyc_amp_array_w_power_law(a, n_cyc=n_series[-1], b=b)
                    seq.append(enc(amp))
                    seq.append(enc(im.calc_cyc_amp_combined_arrays_w_power_law(a, a, n_cyc=15, b=0.3)))
                    seq.append(enc(im.calc_cyc_amp_gm_arrays_w_power_law(a, a, n_cyc=15, b=b)))
                except Exception as e:  # noqa
                    seq.append(('exc', type(e).__name__, str(e)))
            results[(label, 'history')] = (('ok', ('list', seq)), [enc(a)])
    with open(out_path, 'wb') as f:
        pickle.dump(results, f, protocol=4)


# ---------------------------------------------------------------------------------------------------------------
# parent
# ---------------------------------------------------------------------------------------------------------------

def run_worker(root, out_path):
    env = dict(os.environ)
    env['PYTHONPATH'] = root
    env['PYTHONHASHSEED'] = '0'
    env['PYTHONDONTWRITEBYTECODE'] = '1'
    subprocess.check_call([sys.executable, os.path.abspath(__file__), 'worker', out_path, root], cwd=root, env=env)
    with open(out_path, 'rb') as f:
        return pickle.load(f)


N_INEXACT = [0]


def same(a, b):
    """exact, except that the contents of floating arrays may differ by 1e-12 relative"""
    import numpy as np
    if a == b:
        return True
    if type(a) != type(b):
        return False
    if isinstance(a, (list, tuple)):
        if len(a) != len(b):
            return False
        if len(a) == 4 and a[0] == 'nd' and b[0] == 'nd':
            if a[1] != b[1] or a[2] != b[2] or np.dtype(a[1]).kind not in 'fc':
                return False
            x = np.frombuffer(a[3], dtype=a[1])
            y = np.frombuffer(b[3], dtype=b[1])
            fin = np.isfinite(x)
            if not np.array_equal(fin, np.isfinite(y)):
                return False
            if not np.array_equal(x[~fin], y[~fin], equal_nan=True):
                return False
            if np.all(np.abs(x[fin] - y[fin]) <= 1e-12 * np.abs(x[fin])):
                N_INEXACT[0] += 1
                return True
            return False
        return all(same(u, v) for u, v in zip(a, b))
    return False


def main():
    cwd = os.getcwd()
    with tempfile.TemporaryDirectory() as tmp:
        orig_root = os.path.join(tmp, 'orig')
        os.makedirs(orig_root)
        blob = subprocess.check_output(['git', 'archive', 'HEAD', 'eqsig'], cwd=cwd)
        with tarfile.open(fileobj=io.BytesIO(blob)) as tf:
            tf.extractall(orig_root)
        res_orig = run_worker(orig_root, os.path.join(tmp, 'orig.pkl'))
        res_edit = run_worker(cwd, os.path.join(tmp, 'edit.pkl'))
    bad = 0
    if set(res_orig) != set(res_edit):
        print('case sets differ')
        bad += 1
    n_ok = n_exc = 0
    for key in sorted(res_orig, key=repr):
        if key not in res_edit:
            continue
        if not same(res_orig[key], res_edit[key]):
            bad += 1
            if bad < 20:
                print('MISMATCH', key, str(res_orig[key])[:300], '!=', str(res_edit[key])[:300])
        out = res_orig[key][0]
        if isinstance(out, tuple) and out[0] == 'exc':
            n_exc += 1
        else:
            n_ok += 1
    print('outcomes equal only to 1e-12 (not bit-for-bit): %i' % N_INEXACT[0])
    print('compared %i outcomes (%i returned, %i raised); mismatches: %i' % (len(res_orig), n_ok, n_exc, bad))
    return 1 if bad else 0


if __name__ == '__main__':
    if len(sys.argv) > 1 and sys.argv[1] == 'worker':
        worker(sys.argv[2], sys.argv[3])
    else:
        sys.exit(main())

"""
Equivalence check for twin2 (C14): equivalent argument forms and bit-identical regrouping in
eqsig/fns/time_step.py (empty `factor == 1` branch dropped in favour of `if > 1 / elif != 1`, even rounding
2 * int(n / 2) -> 2 * (int(n) // 2), keyword forms of np.interp / scipy.signal.resample / AccSignal,
float index axis, star-unpacking of the array-level result in interp_to_approx_dt).

Run with twin2 applied and cwd = the worktree:  /venv/bin/python out/equiv2.py
Loads the ORIGINAL package from `git archive HEAD eqsig` and compares it to the edited one.
Exit status 0 iff everything matches.
"""
import copy
import itertools
import os
import subprocess
import sys
import tempfile

import numpy as np

WORKTREE = os.getcwd()


def _purge():
    for k in [k for k in sys.modules if k == 'eqsig' or k.startswith('eqsig.')]:
        del sys.modules[k]


def _load(root):
    _purge()
    sys.path.insert(0, root)
    try:
        import eqsig
        import eqsig.fns.time_step
        import eqsig.fns.generic
        import eqsig.single
        assert os.path.realpath(eqsig.__file__).startswith(os.path.realpath(root) + os.sep), (eqsig.__file__, root)
        assert os.path.realpath(eqsig.fns.time_step.__file__).startswith(os.path.realpath(root) + os.sep)
        return eqsig
    finally:
        sys.path.remove(root)
        _purge()


def load_both():
    tmpdir = tempfile.mkdtemp(prefix='c14_orig_', dir='/tmp')
    subprocess.check_call('git archive HEAD eqsig | tar -x -C %s' % tmpdir, shell=True, cwd=WORKTREE)
    new = _load(WORKTREE)
    old = _load(tmpdir)
    assert new is not old and new.fns.time_step is not old.fns.time_step
    return old, new


N_CHECKS = [0]


def same(a, b, path='', rtol=None):
    """Strict structural equality: types, dtypes, shapes and values (bit-for-bit, nan == nan)."""
    N_CHECKS[0] += 1
    if isinstance(a, np.ndarray) or isinstance(b, np.ndarray):
        assert isinstance(a, np.ndarray) and isinstance(b, np.ndarray), (path, type(a), type(b))
        assert a.dtype == b.dtype, (path, a.dtype, b.dtype)
        assert a.shape == b.shape, (path, a.shape, b.shape)
        if a.dtype == object:
            for i, (x, y) in enumerate(zip(a.ravel(), b.ravel())):
                same(x, y, path + '[%i]' % i)
        else:
            assert np.array_equal(a, b, equal_nan=a.dtype.kind in 'fc'), (path, a, b)
        return
    assert type(a).__name__ == type(b).__name__, (path, type(a), type(b))
    if isinstance(a, dict):
        assert list(a.keys()) == list(b.keys()), (path, list(a), list(b))
        for k in a:
            same(a[k], b[k], path + '[%r]' % (k,))
    elif isinstance(a, (list, tuple)):
        assert len(a) == len(b), (path, len(a), len(b))
        for i, (x, y) in enumerate(zip(a, b)):
            same(x, y, path + '[%i]' % i)
    elif isinstance(a, (float, np.floating)):
        assert a == b or (a != a and b != b), (path, a, b)
    elif isinstance(a, (int, bool, str, np.integer, np.bool_, type(None))):
        assert a == b, (path, a, b)
    elif hasattr(a, '__dict__') and type(a).__module__.startswith('eqsig'):
        same(vars(a), vars(b), path + '.__dict__')
    else:
        assert a == b, (path, a, b)


def outcome(fn, *args, **kwargs):
    try:
        return ('ok', fn(*args, **kwargs))
    except Exception as e:  # compare exception classes as well
        return ('exc', type(e).__name__)


def make_records(rng):
    recs = []
    for n in [2, 3, 4, 5, 7, 8, 16, 17, 50, 99, 100, 101, 256, 333]:
        recs.append(rng.standard_normal(n))
    recs.append(np.zeros(20))
    recs.append(np.zeros(21))
    recs.append(np.ones(33) * 3.5)
    recs.append(np.arange(40))                          # integer dtype
    recs.append(rng.integers(-50, 50, size=61))         # integer dtype
    recs.append(list(rng.standard_normal(30)))          # python list of floats
    recs.append([1, 2, 3, 4, 5, 4, 3, 2, 1, 0])          # python list of ints
    recs.append(tuple(rng.standard_normal(12)))         # tuple
    recs.append(rng.standard_normal(64).astype(np.float32))
    recs.append(np.sin(2 * np.pi * 3 * np.arange(128) / 128))      # periodic and band limited
    recs.append(np.cos(2 * np.pi * 5 * np.arange(120) / 120) + 0.3)
    recs.append(1e300 * rng.standard_normal(25))
    recs.append(1e-300 * rng.standard_normal(25))
    big = rng.standard_normal(45)
    big[7] = 1e12
    recs.append(big)
    return recs


def make_steps(rng):
    pairs = [(0.01, 0.01), (0.01, 0.02), (0.01, 0.005), (0.01, 0.025), (0.01, 0.003), (0.01, 0.007),
             (0.005, 0.01), (0.02, 0.01), (0.1, 0.3), (0.3, 0.1), (0.1, 0.1), (0.1, 0.7), (0.7, 0.1),
             (1, 1), (1, 2), (2, 1), (1, 3), (3, 1), (1, 0.5), (2, 3), (3, 2),
             (0.01, 0.0999999), (0.0999999, 0.01), (0.01, 0.010000000000000002), (0.010000000000000002, 0.01),
             (np.float64(0.01), 0.004), (0.01, np.float64(0.04)), (np.float64(0.02), np.float64(0.02)),
             (np.float32(0.01), 0.004), (np.float32(0.01), np.float32(0.03)),
             (0.01, np.pi / 100), (np.e / 100, 0.01), (1.0 / 3, 0.1), (0.1, 1.0 / 3), (0.01, 0.0001), (0.01, 0.049)]
    for _ in range(25):
        dt = float(10 ** rng.uniform(-3, 0))
        pairs.append((dt, float(dt * 10 ** rng.uniform(-1.2, 1.2))))
    for _ in range(10):
        dt = float(10 ** rng.uniform(-3, 0))
        k = int(rng.integers(1, 9))
        pairs.append((dt, dt * k))
        pairs.append((dt, dt / k))
        pairs.append((dt * k, dt))
    return pairs


def check_array_level(old, new, recs, pairs):
    f_old = old.fns.time_step.interp_array_to_approx_dt
    f_new = new.fns.time_step.interp_array_to_approx_dt
    for values, (dt, tdt), even in itertools.product(recs, pairs, [True, False]):
        v_old, v_new = copy.deepcopy(values), copy.deepcopy(values)
        r_old = outcome(f_old, v_old, dt, tdt, even)
        r_new = outcome(f_new, v_new, dt, target_dt=tdt, even=even)
        same(r_old, r_new, 'interp_array(n=%i, dt=%r, tdt=%r, even=%r)' % (len(values), dt, tdt, even))
        same(v_old, values, 'arg-old')      # argument is not modified
        same(v_new, values, 'arg-new')
    # defaults
    for values in recs:
        same(outcome(f_old, values, 0.02), outcome(f_new, values, 0.02), 'interp_array defaults')
        same(outcome(f_old, values, 0.004, even=False), outcome(f_new, values, 0.004, even=False), 'interp_array d2')
    # invalid / degenerate inputs: the same exception classes
    for args in [(np.ones(5), 0.01, 0.0), (np.ones(5), 0.0, 0.01), (np.ones(5), np.float64(0.01), np.float64(0.0)),
                 ([], 0.01, 0.02), ([], 0.01, 0.005), (np.ones(5), float('nan'), 0.01), (np.ones(5), float('inf'), 0.01),
                 (np.ones(5), 0.01, float('inf')), (3.0, 0.01, 0.02), (np.ones((4, 3)), 0.01, 0.005)]:
        for even in (True, False):
            with np.errstate(all='ignore'):
                same(outcome(f_old, *args, even=even), outcome(f_new, *args, even=even), 'interp_array degenerate %r' % (args[1:],))


def check_object_level(old, new, recs, pairs):
    for name in ['interp_to_approx_dt', 'resample_to_approx_dt']:
        f_old = getattr(old.fns.time_step, name)
        f_new = getattr(new.fns.time_step, name)
        assert getattr(old, name) is f_old and getattr(new, name) is f_new  # still exported at package level
        for values, (dt, tdt), even in itertools.product(recs, pairs, [True, False]):
            a_old = old.AccSignal(values, dt, label='rec')
            a_new = new.AccSignal(values, dt, label='rec')
            ref_old, ref_new = copy.deepcopy(a_old), copy.deepcopy(a_new)
            r_old = outcome(f_old, a_old, tdt, even)
            r_new = outcome(f_new, a_new, target_dt=tdt, even=even)
            tag = '%s(n=%i, dt=%r, tdt=%r, even=%r)' % (name, len(values), dt, tdt, even)
            same(r_old, r_new, tag)          # compares the full object state (values, dt, npts, caches, ...)
            if r_old[0] == 'ok':
                assert type(r_new[1]) is new.AccSignal and type(r_old[1]) is old.AccSignal
                same(r_old[1].values, r_new[1].values, tag + '.values')
                same(r_old[1].dt, r_new[1].dt, tag + '.dt')
                same(r_old[1].npts, r_new[1].npts, tag + '.npts')
            same(a_old, ref_old, tag + ' input-old')   # input object state untouched
            same(a_new, ref_new, tag + ' input-new')
            same(a_old, a_new, tag + ' input')
        for values in recs[:8]:
            a_old, a_new = old.AccSignal(values, 0.02), new.AccSignal(values, 0.02)
            same(outcome(f_old, a_old), outcome(f_new, a_new), name + ' defaults')
        # works on a plain Signal too, and after the input object has a multi-step history
        for values, (dt, tdt) in itertools.product(recs[3:12], pairs[:12]):
            s_old, s_new = old.Signal(values, dt), new.Signal(values, dt)
            same(outcome(f_old, s_old, tdt), outcome(f_new, s_new, tdt), name + ' Signal')
            a_old, a_new = old.AccSignal(values, dt), new.AccSignal(values, dt)
            for a in (a_old, a_new):
                a.generate_displacement_and_velocity_series()
                a.reset_values(np.array(a.values) * 2.0)
                _ = a.fa_spectrum
            same(outcome(f_old, a_old, tdt, False), outcome(f_new, a_new, tdt, False), name + ' history')
            same(a_old, a_new, name + ' history input')


def check_consumer(old, new, rng):
    recs = [rng.standard_normal(n) for n in (40, 101, 256)] + [np.zeros(50), list(rng.standard_normal(64)),
                                                                 np.arange(30) - 15]
    rts = [None, np.array([0.0, 0.05, 0.1, 0.5, 1.0]), np.array([0.05, 0.1, 1.0]), np.array([0.3, 1.0, 2.0]),
           [0.0, 0.3, 1.0], [0.01, 0.02], np.linspace(0.02, 3, 12), np.array([0, 1.0])]
    for values, dt, rt, ratio, xi in itertools.product(recs, [0.01, 0.02, 0.05], rts, [4, 1, 7.5, 0.5], [-1, 0.02]):
        a_old, a_new = old.AccSignal(values, dt), new.AccSignal(values, dt)
        tag = 'gen_response_spectrum(n=%i, dt=%r, ratio=%r, xi=%r)' % (len(values), dt, ratio, xi)
        with np.errstate(all='ignore'):
            same(outcome(a_old.gen_response_spectrum, rt, xi, ratio),
                 outcome(a_new.gen_response_spectrum, response_times=rt, xi=xi, min_dt_ratio=ratio), tag)
        same(a_old, a_new, tag + ' state')
    # multi-step histories through the lazy properties
    for values, dt in itertools.product(recs, [0.01, 0.04]):
        a_old, a_new = old.AccSignal(values, dt), new.AccSignal(values, dt, response_times=None)
        for step in range(6):
            for a in (a_old, a_new):
                if step == 0:
                    a.last = a.s_a
                elif step == 1:
                    a.response_times = np.array([0.0, 0.04, 0.2, 1.0])
                    a.last = a.s_d
                elif step == 2:
                    a.last = a.s_v
                elif step == 3:
                    a.reset_values(np.array(a.values) * 0.5 + 0.1)
                    a.last = (a.s_a, a.s_v, a.s_d)
                elif step == 4:
                    a.generate_response_spectrum(response_times=[0.03, 0.3], xi=0.1, min_dt_ratio=2)
                    a.last = a.s_a
                else:
                    a.clear_cache()
                    a.last = a.s_v
            same(a_old, a_new, 'history step %i' % step)
    # valid-input exception behaviour (too few response times with a leading zero)
    a_old, a_new = old.AccSignal(recs[0], 0.01), new.AccSignal(recs[0], 0.01)
    same(outcome(a_old.gen_response_spectrum, [0.0]), outcome(a_new.gen_response_spectrum, [0.0]), 'short rt')
    same(a_old, a_new, 'short rt state')


def main():
    old, new = load_both()
    rng = np.random.default_rng(20260926)
    recs = make_records(rng)
    pairs = make_steps(rng)
    check_array_level(old, new, recs, pairs)
    check_object_level(old, new, recs, pairs)
    check_consumer(old, new, rng)
    print('equivalent: %i comparisons matched' % N_CHECKS[0])


if __name__ == '__main__':
    main()

"""
Equivalence check for twin1 (AccSignal.gen_response_spectrum tidy-up).

Run with twin1 applied, cwd = the worktree:
    /venv/bin/python out/equiv1.py

The ORIGINAL package is extracted from git HEAD into a temporary directory and every scenario is executed
in two separate worker processes (original / edited); the pickled outcomes are compared exactly.
"""
import os
import pickle
import subprocess
import sys
import tempfile
import shutil

import numpy as np

HERE = os.path.dirname(os.path.abspath(__file__))
WORKTREE = os.path.dirname(HERE)


# ----------------------------------------------------------------------------------------------------------------------
# worker
# ----------------------------------------------------------------------------------------------------------------------

def freeze(obj):
    """Turn an outcome into something picklable that keeps type / dtype / shape information"""
    if isinstance(obj, np.ndarray):
        return ('ndarray', str(obj.dtype), obj.shape, obj.copy())
    if isinstance(obj, np.generic):
        return ('npscalar', type(obj).__name__, obj.item())
    if isinstance(obj, (list, tuple)):
        return (type(obj).__name__, [freeze(o) for o in obj])
    if isinstance(obj, dict):
        return ('dict', [(k, freeze(obj[k])) for k in sorted(obj)])
    if isinstance(obj, (bool, int, float, str, type(None))):
        return (type(obj).__name__, obj)
    return ('repr', type(obj).__name__, repr(obj))


def sig_state(asig):
    keys = ['_values', '_dt', '_npts', '_response_times', '_cached_response_spectra', '_cached_xi', '_s_a', '_s_v',
            '_s_d', '_cached_fa', '_cached_smooth_fa', '_cached_disp_and_velo', '_cached_params']
    return freeze(dict((k, getattr(asig, k, 'MISSING')) for k in keys))


def attempt(fn):
    try:
        return ('ok', fn())
    except Exception as e:  # noqa
        return ('EXC', type(e).__name__, str(e))


def make_periods(kind, dt, rng):
    if kind == 'lead0_short':
        return [0.0, 2 * dt, 5.9 * dt, 6 * dt, 6.5 * dt, 20 * dt, 1.0]
    if kind == 'lead0_long':
        return [0.0, 0.5, 1.0, 2.0]
    if kind == 'short_only':
        return [1.5 * dt, 3 * dt, 5 * dt]
    if kind == 'mixed':
        return [3 * dt, 6 * dt, 7 * dt, 0.3, 1.1, 4.0]
    if kind == 'long':
        return [0.4, 0.8, 1.6]
    if kind == 'int_periods':
        return [1, 2, 3]
    if kind == 'lead0_int':
        return [0, 1, 2]
    if kind == 'random':
        n = int(rng.integers(1, 8))
        return list(np.sort(rng.uniform(0.5 * dt, 3.0, n)))
    if kind == 'random_lead0':
        n = int(rng.integers(1, 8))
        return [0.0] + list(np.sort(rng.uniform(0.5 * dt, 3.0, n)))
    if kind == 'unsorted':
        return [1.0, 0.02, 0.5, 0.0]
    if kind == 'single':
        return [0.7]
    if kind == 'single_zero':
        return [0.0]
    raise ValueError(kind)


def containerise(periods, container):
    if container == 'list':
        return list(periods)
    if container == 'tuple':
        return tuple(periods)
    if container == 'array':
        return np.array(periods)
    if container == 'float32':
        return np.array(periods, dtype=np.float32)
    raise ValueError(container)


def make_record(kind, n, rng):
    if kind == 'normal':
        return rng.normal(0, 1.0, n)
    if kind == 'zeros':
        return np.zeros(n)
    if kind == 'int':
        return rng.integers(-5, 6, n)
    if kind == 'list':
        return list(rng.normal(0, 1.0, n))
    if kind == 'neg_peak':
        v = rng.normal(0, 0.2, n)
        v[n // 2] = -4.0
        return v
    if kind == 'sine':
        return np.sin(0.3 * np.arange(n)) * 0.7
    raise ValueError(kind)


def run_scenarios(pkg_root):
    sys.path.insert(0, pkg_root)
    import eqsig
    assert os.path.abspath(eqsig.__file__).startswith(os.path.abspath(pkg_root)), eqsig.__file__
    import eqsig.sdof as sdof
    import eqsig.single as single

    # spy on what is handed to the spectrum routine
    calls = []
    real_prs = sdof.pseudo_response_spectra

    def spy(motion, dt, periods, xi):
        calls.append([freeze(motion), freeze(dt), freeze(periods), type(periods).__name__, freeze(xi), motion])
        return real_prs(motion, dt, periods, xi)

    sdof.pseudo_response_spectra = spy
    assert single.dh is sdof

    out = []
    rng = np.random.default_rng(20240917)

    period_kinds = ['lead0_short', 'lead0_long', 'short_only', 'mixed', 'long', 'int_periods', 'lead0_int', 'random',
                    'random_lead0', 'unsorted', 'single', 'single_zero']
    containers = ['list', 'tuple', 'array', 'float32']
    rec_kinds = ['normal', 'zeros', 'int', 'list', 'neg_peak', 'sine']
    dts = [0.002, 0.005, 0.01, 0.02, 0.05, 0.1]
    xis = [-1, 0.0, 0.02, 0.05, 0.3, 0.7, 0.99]
    ratios = [1, 2, 4, 8, 3, 0.5]
    lengths = [2, 3, 5, 17, 64, 201]

    # 1. single calls, systematic over period kinds x containers, random other options
    i = 0
    for pk in period_kinds:
        for cont in containers:
            for rep in range(3):
                i += 1
                dt = dts[int(rng.integers(len(dts)))]
                n = lengths[int(rng.integers(len(lengths)))]
                rk = rec_kinds[int(rng.integers(len(rec_kinds)))]
                xi = xis[int(rng.integers(len(xis)))]
                ratio = ratios[(i + rep) % len(ratios)]
                rec = make_record(rk, n, rng)
                rec_before = freeze(rec)
                periods = containerise(make_periods(pk, dt, rng), cont)
                periods_before = freeze(periods)
                asig = eqsig.AccSignal(rec, dt)
                del calls[:]

                def go():
                    return asig.gen_response_spectrum(response_times=periods, xi=xi, min_dt_ratio=ratio)
                res = attempt(go)
                same_obj = [c[-1] is asig.values for c in calls]
                out.append(('single', pk, cont, rk, dt, n, xi, ratio, freeze(res), sig_state(asig),
                            [c[:-1] for c in calls], same_obj,
                            asig.response_times is periods,
                            same(freeze(rec), rec_before) is None,  # record argument not mutated
                            same(freeze(periods), periods_before) is None,  # periods argument not mutated
                            freeze(rec), freeze(periods)))
                # lazy attributes afterwards
                out.append(('single_lazy', freeze(attempt(lambda: asig.s_a)), freeze(attempt(lambda: asig.s_v)),
                            freeze(attempt(lambda: asig.s_d)), sig_state(asig)))

    # 2. all min_dt_ratio x xi combinations on one record with / without leading zero
    rec = rng.normal(0, 1, 150)
    for dt in [0.01, 0.04]:
        for pk in ['lead0_short', 'mixed', 'lead0_long', 'long']:
            for ratio in [1, 2, 4, 8]:
                for xi in [0.0, 0.05, 0.5, 0.99]:
                    asig = eqsig.AccSignal(rec, dt)
                    periods = np.array(make_periods(pk, dt, rng))
                    del calls[:]
                    res = attempt(lambda: asig.gen_response_spectrum(response_times=periods, xi=xi,
                                                                      min_dt_ratio=ratio))
                    out.append(('grid', dt, pk, ratio, xi, freeze(res), sig_state(asig), [c[:-1] for c in calls],
                                [c[-1] is asig.values for c in calls]))

    # 3. multi step histories on one object
    for rep in range(12):
        dt = dts[rep % len(dts)]
        rec = rng.normal(0, 1, 120)
        kwargs = {}
        if rep % 3 == 1:
            kwargs['response_times'] = [0.0, 4 * dt, 0.2, 0.9]
        if rep % 3 == 2:
            kwargs['response_period_range'] = (3 * dt, 2.0)
        asig = eqsig.AccSignal(rec, dt, **kwargs)
        hist = [sig_state(asig)]
        del calls[:]
        hist.append(freeze(attempt(lambda: asig.s_a)))  # lazy default generation
        hist.append(sig_state(asig))
        hist.append(freeze(attempt(lambda: asig.s_d)))  # cached: no new call
        hist.append(len(calls))
        hist.append(freeze(attempt(lambda: asig.gen_response_spectrum(xi=0.2, min_dt_ratio=8))))
        hist.append(sig_state(asig))
        asig.response_times = (0.0, 2 * dt, 10 * dt, 1.5)  # setter invalidates
        hist.append(sig_state(asig))
        hist.append(freeze(attempt(lambda: asig.s_v)))
        hist.append(sig_state(asig))
        hist.append(freeze(attempt(lambda: asig.generate_response_spectrum(response_times=[5 * dt, 7 * dt],
                                                                            min_dt_ratio=1))))
        hist.append(sig_state(asig))
        asig.reset_values(rng.integers(-3, 4, 77))
        hist.append(sig_state(asig))
        hist.append(freeze(attempt(lambda: asig.s_a)))
        hist.append(freeze(attempt(lambda: asig.gen_response_spectrum(response_times=np.array([0.0]), xi=0.1))))
        hist.append(sig_state(asig))
        hist.append(freeze(attempt(lambda: asig.gen_response_spectrum(response_times=np.linspace(0, 1, 5), xi=0))))
        hist.append(sig_state(asig))
        hist.append([c[:-1] for c in calls])
        out.append(('history', rep, hist))

    # 4. users of the object api
    import eqsig.im as im
    for rep in range(3):
        asig = eqsig.AccSignal(rng.normal(0, 1, 300), [0.005, 0.01, 0.02][rep])
        out.append(('im', freeze(attempt(lambda: im.calc_max_velocity_period(asig))),
                    freeze(attempt(lambda: im.max_acceleration_period(asig))), sig_state(asig)))
    return out


# ----------------------------------------------------------------------------------------------------------------------
# comparison
# ----------------------------------------------------------------------------------------------------------------------

def same(a, b, path='root'):
    if type(a) is not type(b):
        return '%s: type %s vs %s' % (path, type(a), type(b))
    if isinstance(a, np.ndarray):
        if a.dtype != b.dtype or a.shape != b.shape:
            return '%s: dtype/shape %s%s vs %s%s' % (path, a.dtype, a.shape, b.dtype, b.shape)
        if a.dtype.kind == 'f':
            if not np.array_equal(a, b, equal_nan=True) or not np.array_equal(np.signbit(a), np.signbit(b)):
                return '%s: values differ (max abs diff %s)' % (path, np.nanmax(abs(a - b)) if a.size else 0)
        elif not np.array_equal(a, b):
            return '%s: values differ' % path
        return None
    if isinstance(a, (list, tuple)):
        if len(a) != len(b):
            return '%s: len %i vs %i' % (path, len(a), len(b))
        for k, (x, y) in enumerate(zip(a, b)):
            r = same(x, y, '%s[%i]' % (path, k))
            if r:
                return r
        return None
    if isinstance(a, float):
        if a != b and not (a != a and b != b):
            return '%s: %r vs %r' % (path, a, b)
        return None
    if a != b:
        return '%s: %r vs %r' % (path, a, b)
    return None


def main():
    tmp = tempfile.mkdtemp(prefix='eqsig_orig_C03_1_', dir='/tmp')
    try:
        subprocess.check_call('git archive HEAD eqsig | tar -x -C %s' % tmp, shell=True, cwd=WORKTREE)
        results = []
        for root in (tmp, WORKTREE):
            ofile = os.path.join(tmp, 'res_%i.pkl' % len(results))
            subprocess.check_call([sys.executable, os.path.abspath(__file__), '--worker', root, ofile], cwd=root)
            with open(ofile, 'rb') as f:
                results.append(pickle.load(f))
        orig, new = results
        assert len(orig) == len(new), (len(orig), len(new))
        n_exc = 0
        for k, (a, b) in enumerate(zip(orig, new)):
            r = same(a, b, 'scenario[%i]' % k)
            if r:
                print('MISMATCH', a[0], r)
                sys.exit(1)
            if 'EXC' in repr(a):
                n_exc += 1
        print('equiv1: %i scenarios identical (%i involve an exception raised identically by both)' % (len(orig),
                                                                                                         n_exc))
    finally:
        shutil.rmtree(tmp, ignore_errors=True)


if __name__ == '__main__':
    if len(sys.argv) > 1 and sys.argv[1] == '--worker':
        import warnings
        warnings.simplefilter('ignore')
        np.seterr(all='ignore')
        res = run_scenarios(sys.argv[2])
        with open(sys.argv[3], 'wb') as f:
            pickle.dump(res, f)
    else:
        main()

"""
Equivalence check for twin1 (AccSignal.set_zero_residual_displacement tidy-up).

Run with twin1 applied and cwd = the worktree:
    /venv/bin/python out/equiv1.py

The ORIGINAL package is extracted from git (HEAD) into a temp dir under /tmp.  The same scenario
script is executed in two subprocesses (one importing the original, one importing the edited copy)
and the pickled observations are compared bit-for-bit.
"""
import os
import pickle
import shutil
import subprocess
import sys
import tempfile
import warnings

import numpy as np

TOUCHED = ['eqsig/single.py']


# ----------------------------------------------------------------------------------------------
# generic helpers (observation -> plain picklable data, compared exactly)
# ----------------------------------------------------------------------------------------------
def freeze(obj):
    """Turn a result into nested plain data that can be compared with == (bit exact for arrays)."""
    if isinstance(obj, np.ndarray):
        return ('ndarray', str(obj.dtype), obj.shape, np.ascontiguousarray(obj).tobytes())
    if isinstance(obj, np.generic):
        return ('npscalar', type(obj).__name__, np.asarray(obj).tobytes())
    if isinstance(obj, (list, tuple)):
        return (type(obj).__name__, [freeze(o) for o in obj])
    if isinstance(obj, dict):
        return ('dict', [(repr(k), freeze(v)) for k, v in obj.items()])
    if isinstance(obj, (int, float, complex, str, bool, type(None))):
        return (type(obj).__name__, repr(obj))
    return ('other', type(obj).__name__)


def snapshot(sig):
    """Full object state (instance dict) + derived public views."""
    state = {k: freeze(v) for k, v in sorted(vars(sig).items())}
    state['<values>'] = freeze(sig.values)
    state['<npts>'] = freeze(sig.npts)
    state['<time>'] = freeze(sig.time)
    state['<len==npts>'] = len(sig.values) == sig.npts
    return state


def call(fn, *args, **kwargs):
    try:
        return ('ok', freeze(fn(*args, **kwargs)))
    except Exception as e:  # noqa
        return ('raised', type(e).__name__, str(e))


# ----------------------------------------------------------------------------------------------
# scenarios
# ----------------------------------------------------------------------------------------------
def make_records():
    rng = np.random.RandomState(51)
    recs = []
    for n in (1, 2, 3, 4, 5, 8, 17, 64, 257, 1000):
        recs.append(('randn%i' % n, rng.randn(n)))
    recs.append(('list_float', list(rng.randn(23))))
    recs.append(('list_int', [0, 1, -2, 3, 5, -1, 0, 0, 2]))
    recs.append(('tuple_float', tuple(rng.randn(9))))
    recs.append(('int64', rng.randint(-9, 9, size=40)))
    recs.append(('int32', rng.randint(-9, 9, size=12).astype(np.int32)))
    recs.append(('float32', rng.randn(31).astype(np.float32)))
    recs.append(('zeros', np.zeros(20)))
    recs.append(('zeros_int', np.zeros(6, dtype=int)))
    recs.append(('ones', np.ones(15)))
    recs.append(('sine', np.sin(np.linspace(0, 12, 400)) * 2.3))
    recs.append(('strided', rng.randn(60)[::3]))
    recs.append(('reversed', rng.randn(33)[::-1]))
    ro = rng.randn(14)
    ro.setflags(write=False)
    recs.append(('readonly', ro))
    return recs


def copy_in(rec):
    if isinstance(rec, np.ndarray):
        c = rec.copy() if rec.flags.writeable else rec
        return c
    return type(rec)(rec)


WARMUPS = ['none', 'motion', 'all']

HISTORIES = [
    ['szrd'],
    ['szrd', 'szrd'],
    ['szrd_tz'],
    ['szrd_tz2', 'szrd'],
    ['add_constant', 'szrd', 'remove_poly', 'szrd'],
    ['szrd', 'rebase', 'szrd', 'szrv'],
    ['reset_list', 'szrd', 'add_series', 'szrd'],
    ['szrd', 'szrdv', 'szrd', 'remove_average'],
    ['running_average', 'szrd', 'reset_same', 'szrd'],
    ['butter', 'szrd'],
]


def apply_step(eqsig, sig, step, rng):
    if step == 'szrd':
        return call(sig.set_zero_residual_displacement)
    if step == 'szrd_tz':
        return call(sig.set_zero_residual_displacement, timezone=(0.0, 0.1))
    if step == 'szrd_tz2':
        return call(sig.set_zero_residual_displacement, (0, None))
    if step == 'szrv':
        return call(sig.set_zero_residual_velocity)
    if step == 'szrdv':
        return call(sig.set_zero_residual_displacement_and_velocity)
    if step == 'add_constant':
        return call(sig.add_constant, 0.37)
    if step == 'remove_poly':
        return call(sig.remove_poly, 1)
    if step == 'remove_average':
        return call(sig.remove_average)
    if step == 'rebase':
        return call(sig.rebase_displacement)
    if step == 'running_average':
        return call(sig.running_average, 3)
    if step == 'butter':
        return call(sig.butter_pass, (0.5, 10))
    if step == 'add_series':
        return call(sig.add_series, list(rng.randn(sig.npts)))
    if step == 'reset_list':
        return call(sig.reset_values, list(rng.randn(sig.npts + 2)))
    if step == 'reset_same':
        return call(sig.reset_values, sig.values)
    raise ValueError(step)


def run_scenarios(eqsig):
    out = []
    for name, rec in make_records():
        for dt in (0.01, 0.5):
            for warm in WARMUPS:
                for hi, hist in enumerate(HISTORIES):
                    rng = np.random.RandomState(7)
                    arg = copy_in(rec)
                    before = freeze(arg)
                    sig = eqsig.AccSignal(arg, dt)
                    if warm in ('motion', 'all'):
                        sig.velocity, sig.displacement
                        call(lambda: sig.pga)
                    if warm == 'all':
                        call(lambda: sig.fa_spectrum)
                        call(lambda: sig.smooth_fa_spectrum)
                    obs = {'key': (name, dt, warm, hi)}
                    aliases = []
                    for si, step in enumerate(hist):
                        held = sig.values  # reference a caller may hold before the step
                        vel_held = sig._velocity
                        res = apply_step(eqsig, sig, step, rng)
                        aliases.append(held)
                        obs['step%i' % si] = res
                        obs['state%i' % si] = snapshot(sig)
                        obs['held%i' % si] = freeze(held)
                        obs['held_is_values%i' % si] = held is sig.values
                        obs['shares%i' % si] = bool(np.shares_memory(held, sig.values))
                        obs['vel_held%i' % si] = freeze(vel_held)
                        obs['arg_unchanged%i' % si] = freeze(arg) == before
                        obs['arg_aliased%i' % si] = bool(isinstance(arg, np.ndarray)
                                                          and np.shares_memory(arg, sig.values))
                    # derived quantities after the history (lazy caches must be rebuilt from new values)
                    obs['disp_end'] = call(lambda: sig.displacement)
                    obs['vel_end'] = call(lambda: sig.velocity)
                    obs['pga_end'] = call(lambda: sig.pga)
                    obs['final'] = snapshot(sig)
                    obs['aliases_final'] = [freeze(a) for a in aliases]
                    out.append(obs)

    # the plain Signal class and Cluster must be untouched too: a few smoke observations
    rng = np.random.RandomState(3)
    a = rng.randn(50)
    b = rng.randn(50)
    cl = eqsig.Cluster([a, b], 0.01, stypes='acc')
    r = call(cl.signal_by_index(1).set_zero_residual_displacement)
    out.append({'key': 'cluster', 'r': r, 's0': snapshot(cl.signal_by_index(0)), 's1': snapshot(cl.signal_by_index(1)),
                'a': freeze(a), 'b': freeze(b)})
    return out


# ----------------------------------------------------------------------------------------------
# driver
# ----------------------------------------------------------------------------------------------
def worker(root, outpath):
    root = os.path.realpath(root)
    sys.path.insert(0, root)
    os.chdir(root)
    warnings.simplefilter('ignore')
    np.seterr(all='ignore')
    import eqsig
    assert os.path.realpath(eqsig.__file__).startswith(root + os.sep), (eqsig.__file__, root)
    res = run_scenarios(eqsig)
    with open(outpath, 'wb') as f:
        pickle.dump(res, f)


def diff_path(a, b, path=''):
    if type(a) != type(b):
        return '%s: type %s vs %s' % (path, type(a), type(b))
    if isinstance(a, dict):
        if sorted(a) != sorted(b):
            return '%s: keys %s vs %s' % (path, sorted(a), sorted(b))
        for k in a:
            d = diff_path(a[k], b[k], path + '/' + str(k))
            if d:
                return d
        return None
    if isinstance(a, (list, tuple)):
        if len(a) != len(b):
            return '%s: len %i vs %i' % (path, len(a), len(b))
        for i, (x, y) in enumerate(zip(a, b)):
            d = diff_path(x, y, path + '[%i]' % i)
            if d:
                return d
        return None
    if a != b:
        return '%s: %r vs %r' % (path, a if not isinstance(a, bytes) else a[:40], b if not isinstance(b, bytes) else b[:40])
    return None


def main():
    here = os.path.realpath(os.getcwd())
    assert os.path.isdir(os.path.join(here, 'eqsig')), 'run with cwd = the worktree'
    tmp = tempfile.mkdtemp(prefix='c05_equiv1_', dir='/tmp')
    try:
        subprocess.check_call('git archive HEAD eqsig | tar -x -C "%s"' % tmp, shell=True, cwd=here)
        changed = False
        for rel in TOUCHED:
            with open(os.path.join(tmp, rel)) as f0, open(os.path.join(here, rel)) as f1:
                changed = changed or (f0.read() != f1.read())
        assert changed, 'twin1 does not seem to be applied (touched files identical to HEAD)'
        outs = {}
        for tag, root in (('orig', tmp), ('edit', here)):
            outpath = os.path.join(tmp, tag + '.pkl')
            subprocess.check_call([sys.executable, os.path.abspath(__file__), '--worker', root, outpath], cwd=root)
            with open(outpath, 'rb') as f:
                outs[tag] = pickle.load(f)
        assert len(outs['orig']) == len(outs['edit']) and len(outs['orig']) > 100
        n_ok_steps = 0
        n_raise_steps = 0
        for o, e in zip(outs['orig'], outs['edit']):
            d = diff_path(o, e)
            assert d is None, 'MISMATCH in scenario %r: %s' % (o.get('key'), d)
            for k, v in o.items():
                if k.startswith('step'):
                    if v[0] == 'ok':
                        n_ok_steps += 1
                    else:
                        n_raise_steps += 1
        assert n_ok_steps > 500 and n_raise_steps > 50, (n_ok_steps, n_raise_steps)
        print('equiv1: %i scenarios identical (%i successful steps, %i raising steps)' % (
            len(outs['orig']), n_ok_steps, n_raise_steps))
    finally:
        shutil.rmtree(tmp, ignore_errors=True)


if __name__ == '__main__':
    if len(sys.argv) > 1 and sys.argv[1] == '--worker':
        worker(sys.argv[2], sys.argv[3])
    else:
        main()

"""Equivalence program for a behaviour-preserving edit of eqsig/im.py (property C09).

Run with the edit applied and cwd = the worktree:

    cd <worktree> && PYTHONPATH=<worktree> /venv/bin/python out/equiv1.py

The ORIGINAL package is obtained with `git archive HEAD eqsig` into a temporary
directory.  Two worker subprocesses (same script, `--worker <root> <out>`) import
eqsig from the original root and from the edited worktree respectively, run the
same deterministic battery of cases and pickle what they observed (returned
arrays bit-for-bit, dtypes, shapes, flags, aliasing with the signal's state,
exceptions with their messages, state of the signal object after each step).
The parent compares the two observation lists; exit 0 iff all are identical.
"""
import io
import os
import pickle
import subprocess
import sys
import tarfile
import tempfile
import time
import warnings

SEED = 20260928


# --------------------------------------------------------------------------
# worker side
# --------------------------------------------------------------------------

def _enc(obj, sig=None):
    """Encode a returned object into something picklable and exactly comparable."""
    import numpy as np
    if isinstance(obj, np.ndarray):
        shares_v = shares_vel = shares_d = False
        if sig is not None:
            try:
                shares_v = bool(np.shares_memory(obj, sig._values))
                shares_vel = bool(np.shares_memory(obj, sig._velocity))
                shares_d = bool(np.shares_memory(obj, sig._displacement))
            except Exception:
                pass
        return ("nd", str(obj.dtype), obj.shape, np.ascontiguousarray(obj).tobytes(),
                bool(obj.flags.writeable), bool(obj.flags.c_contiguous), shares_v, shares_vel, shares_d)
    if isinstance(obj, np.generic):
        return ("npscalar", str(obj.dtype), obj.tobytes())
    if isinstance(obj, (tuple, list)):
        return (type(obj).__name__, [_enc(o, sig) for o in obj])
    if isinstance(obj, float):
        return ("float", obj.hex() if obj == obj else "nan")
    return (type(obj).__name__, repr(obj))


def _call(fn, *args, sig=None, **kwargs):
    with warnings.catch_warnings(record=True) as wlist:
        warnings.simplefilter("always")
        try:
            out = ("ok", _enc(fn(*args, **kwargs), sig))
        except RecursionError:
            raise
        except Exception as e:  # noqa
            out = ("exc", type(e).__name__, str(e))
    wsum = sorted(set((w.category.__name__, str(w.message)) for w in wlist))
    return out + (wsum,)


def _state(sig):
    """State of a signal as seen through its public API (after the calls)."""
    import numpy as np
    return ("state", _enc(sig.values), repr(sig.dt), sig.npts,
            bool(sig._cached_disp_and_velo), _enc(np.asarray(sig._velocity)), _enc(np.asarray(sig._displacement)),
            sorted(sig._cached_params.keys()))


def _records(rng, record_file=None):
    """Generator of (tag, values, dt) covering the property's domain and its corners."""
    import numpy as np
    # a recorded ground motion (the suite's own record), scaled / decimated / truncated / padded
    if record_file and os.path.isfile(record_file):
        rec = np.loadtxt(record_file, skiprows=2)
        for alpha in (1.0, -1.0, 0.3, 0.05, 0.02, 2.5):
            yield ("rec_x%r" % alpha, alpha * rec, 0.01)
        for step in (2, 4, 5, 10, 20, 25, 50, 100):
            yield ("rec_dec%d" % step, rec[::step], 0.01 * step)
            yield ("rec_dec%d_small" % step, 0.1 * rec[3::step], 0.01 * step)
        for cut in (150, 200, 201, 299, 300, 301, 1000, 1001, 2050):
            yield ("rec_cut%d" % cut, rec[500:500 + cut], 0.01)
        yield ("rec_padded", np.concatenate([rec, np.zeros(777)]), 0.01)
        yield ("rec_f32", rec.astype(np.float32), 0.01)
        yield ("rec_int", np.round(rec * 1000).astype(np.int64), 0.01)
        yield ("rec_list", list(rec), 0.01)
    g = 9.81
    gate = 0.025 * g
    int_sps_dts = [0.005, 0.01, 0.02, 0.025, 0.04, 0.05, 0.1, 0.2, 0.25, 0.5, 1.0, 0.0078125, 0.015625, 0.125,
                   0.002, 0.004, 0.008, 1. / 3, 1. / 7, 1. / 30, 1. / 60, 1. / 120]
    other_dts = [0.3, 0.007, 0.013, 0.03, 0.45, 0.7, 0.0999999, 0.1000001, 1.5, 2.5, 0.011, 0.0033]
    int_dts = [1, 2, np.int64(1), np.float32(0.25), np.float64(0.02), np.float32(0.01)]

    def shapes(n, kind, amp):
        t = np.arange(n)
        if kind == 0:
            return amp * rng.standard_normal(n)
        if kind == 1:  # enveloped sine
            return amp * np.sin(0.07 * t) * np.exp(-((t - n / 2.) / (n / 5. + 1)) ** 2)
        if kind == 2:  # sparse spikes
            v = np.zeros(n)
            k = max(1, n // 40)
            idx = rng.integers(0, n, size=k)
            v[idx] = amp * rng.standard_normal(k) * 3
            return v
        if kind == 3:  # constant
            return np.full(n, amp)
        if kind == 4:  # piecewise: quiet windows then strong windows
            v = 0.01 * amp * rng.standard_normal(n)
            a = rng.integers(0, n)
            b = min(n, a + rng.integers(1, n + 1))
            v[a:b] = amp * rng.standard_normal(b - a)
            return v
        if kind == 5:  # ends at zero (for zero padding relations)
            v = amp * rng.standard_normal(n)
            v[-1] = 0.0
            return v
        return np.zeros(n)

    n_main = 2500
    for c in range(n_main):
        r = rng.random()
        if r < 0.6:
            dt = int_sps_dts[rng.integers(len(int_sps_dts))]
        elif r < 0.8:
            dt = other_dts[rng.integers(len(other_dts))]
        elif r < 0.9:
            dt = int_dts[rng.integers(len(int_dts))]
        else:
            dt = float(rng.uniform(0.001, 1.2))
        # duration mostly >= 2 s, sometimes shorter (exceptions), length capped for speed
        dur = rng.choice([0.3, 0.9, 1.0, 1.5, 2.0, 2.0, 3.0, 3.7, 5.0, 8.0, 12.5, 20.0])
        n = int(round(dur / float(dt))) + int(rng.integers(0, 3))
        n = max(1, min(n, 2500))
        kind = int(rng.integers(0, 7))
        amp = float(rng.choice([gate * 0.2, gate * 0.9, gate, gate * 1.1, gate * 3, 1.0, 5.0, 1e-9, 1e6]))
        v = shapes(n, kind, amp)
        yield ("rand%d" % c, v, dt)
        sel = rng.integers(0, 8)
        if sel == 0:    # scaling / sign reversal
            alpha = float(rng.choice([-1.0, 2.0, -0.5, 3.7, 1e-3, -1e3]))
            yield ("rand%d_scaled" % c, alpha * v, dt)
        elif sel == 1:  # zero padding
            yield ("rand%d_padded" % c, np.concatenate([v, np.zeros(int(rng.integers(1, 400)))]), dt)
        elif sel == 2:  # python list input
            yield ("rand%d_list" % c, [float(x) for x in v[:600]], dt)
        elif sel == 3:  # float32 data
            yield ("rand%d_f32" % c, v.astype(np.float32), dt)
        elif sel == 4:  # integer-typed data
            yield ("rand%d_int" % c, np.round(v * rng.choice([1, 10, 1000])).astype([np.int64, np.int32, np.int16][int(rng.integers(0, 3))]), dt)

    # records built to sit exactly on / next to the 0.025 g gate, per window
    for c in range(250):
        dt = [0.01, 0.02, 0.05, 0.1, 0.25, 0.5, 1.0, 0.005][c % 8]
        sps = int(round(1 / dt))
        secs = int(rng.integers(2, 7))
        n = secs * sps + 1 + int(rng.integers(0, 3))
        v = 0.1 * gate * rng.standard_normal(n)
        v = np.clip(v, -0.5 * gate, 0.5 * gate)
        for w in range(secs):
            choice = rng.integers(0, 6)
            pos = w * sps + int(rng.integers(0, sps + 1))
            pos = min(pos, n - 1)
            val = [gate, np.nextafter(gate, 0), np.nextafter(gate, 1), 0.025 * 9.81, -gate, 0.0][choice]
            # also values whose quotient by 9.81 is exactly 0.025 or its neighbours
            if c % 3 == 0:
                q = [0.025, np.nextafter(0.025, 0), np.nextafter(0.025, 1)][w % 3]
                val = q * 9.81
            v[pos] = val
        yield ("gate%d" % c, v, dt)
        if c % 5 == 0:
            yield ("gate%d_f32" % c, v.astype(np.float32), dt)

    # integer records with integer dt, tiny records, degenerate forms
    yield ("int_dt1", np.array([0, 1, -2, 3, 0, 0, 1, 5, -7, 2, 0]), 1)
    yield ("int_dt2", np.arange(-6, 7), 2)
    yield ("int_dt1_small", np.array([0, 0, 0, 0, 0]), 1)
    yield ("bool", np.array([True, False, True, True, False, True] * 20), 0.05)
    yield ("one", np.array([1.0]), 0.01)
    yield ("two", np.array([1.0, -1.0]), 1.0)
    yield ("three", np.array([1.0, -1.0, 0.5]), 1.0)
    yield ("empty", np.array([]), 0.01)
    yield ("dt0", np.array([1.0, 2.0, 3.0]), 0.0)
    yield ("dt0int", np.array([1.0, 2.0, 3.0]), 0)
    yield ("dtneg", np.linspace(-1, 1, 300), -0.01)
    yield ("dtnan", np.linspace(-1, 1, 300), float("nan"))
    yield ("dtinf", np.linspace(-1, 1, 300), float("inf"))
    yield ("dtbig", np.linspace(-1, 1, 30), 3.0)
    yield ("twod", np.ones((3, 250)), 0.01)
    yield ("twod_b", rng.standard_normal((300, 2)), 0.01)
    for k, pos in enumerate([0, 1, 57, 100, 101, 199, 200, 299, 300]):
        for bad in (float("nan"), float("inf"), -float("inf")):
            v = 0.5 * np.sin(0.1 * np.arange(301))
            v[pos] = bad
            yield ("nonfinite%d_%r" % (k, bad), v, 0.01)
    v = np.zeros(501)
    yield ("zeros", v, 0.01)
    yield ("negzeros", -v, 0.01)
    yield ("huge", 1e200 * rng.standard_normal(400), 0.01)
    yield ("tiny", 1e-200 * rng.standard_normal(400), 0.01)
    yield ("subnormal", 5e-324 * np.ones(400), 0.01)
    # non-integer samples per second, many dt (outside the CAVdp domain, exceptions / odd windows)
    for c in range(400):
        dt = float(rng.uniform(0.003, 0.9))
        if c % 4 == 0:
            k = int(rng.integers(2, 200))
            dt = float(np.nextafter(1.0 / k, [0, 1][c % 8 == 0]))
        secs = float(rng.uniform(0.5, 6.0))
        n = max(1, int(secs / dt) + int(rng.integers(0, 2)))
        n = min(n, 2000)
        yield ("oddsps%d" % c, 0.3 * rng.standard_normal(n), dt)


def worker(root, outfile, record_file=None):
    sys.path.insert(0, root)
    import numpy as np
    import eqsig
    from eqsig import im
    assert os.path.realpath(eqsig.__file__).startswith(os.path.realpath(root) + os.sep), (eqsig.__file__, root)
    np.seterr(all="ignore")
    rng = np.random.default_rng(SEED)
    hrng = np.random.default_rng(SEED + 1)

    fnames = ["calc_arias_intensity", "calc_cav", "calc_cav_dp", "calc_isv", "calc_integral_of_abs_velocity",
              "calc_integral_of_abs_acceleration", "calc_unit_kinetic_energy", "calc_cumulative_abs_displacement"]
    obs = []

    def run_all(tag, sig, order):
        for k in order:
            name = fnames[k]
            obs.append((tag, name, _call(getattr(im, name), sig, sig=sig)))
        obs.append((tag, "state", _state(sig)))

    ncase = 0
    for tag, values, dt in _records(rng, record_file):
        ncase += 1
        keep = np.array(values, copy=True)
        res = _call(eqsig.AccSignal, values, dt)
        if res[0] != "ok":
            obs.append((tag, "ctor", res))
            continue
        sig = eqsig.AccSignal(values, dt)
        order = list(hrng.permutation(len(fnames)))
        hist = int(hrng.integers(0, 10))
        if hist == 1:   # velocity pre-computed with the rectangle rule
            obs.append((tag, "gen_rect", _call(sig.generate_displacement_and_velocity_series, trap=False)))
        elif hist == 2:  # touch peaks first
            obs.append((tag, "pgv", _call(lambda: (sig.pga, sig.pgv, sig.pgd))))
        run_all(tag, sig, order)
        # the caller's array / list must not have been modified
        obs.append((tag, "arg", _enc(np.asarray(values)), bool(np.array_equal(np.asarray(values), keep, equal_nan=True)
                                                                if keep.dtype.kind in "fc" else np.array_equal(np.asarray(values), keep))))
        if hist == 3:    # repeat: results must not depend on caches
            run_all(tag + "/again", sig, order[::-1])
        elif hist == 4:  # history: add constant then recompute
            obs.append((tag, "add_constant", _call(sig.add_constant, 0.013)))
            run_all(tag + "/addc", sig, order)
        elif hist == 5:  # history: reset values (shorter, reversed sign)
            obs.append((tag, "reset", _call(sig.reset_values, -np.asarray(values, dtype=float).ravel()[: max(1, np.size(values) // 2)])))
            run_all(tag + "/reset", sig, order)
        elif hist == 6:  # history: mutate a returned series, then recompute
            r = im.calc_cav(sig) if np.ndim(values) == 1 and np.size(values) > 0 else None
            if r is not None:
                r[:] = -1.0
            try:
                r2 = im.calc_unit_kinetic_energy(sig)
                r2[:] = 7.0
                r3 = im.calc_integral_of_abs_acceleration(sig)
                r3 *= 0
            except Exception:
                pass
            run_all(tag + "/aftermut", sig, order)
        elif hist == 7:  # deprecated wrapper + significant duration that ride on the measures
            obs.append((tag, "gen_cum", _call(sig.generate_cumulative_stats)))
            obs.append((tag, "cum_attrs", _call(lambda: (sig.arias_intensity_series, sig.arias_intensity, sig.cav_series, sig.cav))))
            obs.append((tag, "sig_dur", _call(im.calc_sig_dur, sig, se=True)))
            obs.append((tag, "sig_dur_cav", _call(im.calc_sig_dur, sig, im=im.calc_cav)))
        elif hist == 8:  # raw helper on the record and on a 2-D stack of records, list/scalars
            a = np.asarray(values)
            obs.append((tag, "raw1", _call(im._raw_calc_arias_intensity, a, dt)))
            if a.ndim == 1 and a.size:
                obs.append((tag, "raw2", _call(im._raw_calc_arias_intensity, np.vstack([a, -a, 2 * a]), dt)))
                obs.append((tag, "raw3", _call(im._raw_calc_arias_intensity, a[:1], dt)))
        elif hist == 9 and np.ndim(values) == 1 and 8 < np.size(values) < 700:
            obs.append((tag, "crs", _call(im.cumulative_response_spectra, sig, "arias_intensity", periods=[0.2, 1.0])))
            obs.append((tag, "crs_bad", _call(im.cumulative_response_spectra, sig, "cav")))

    # duck-typed signal-like objects (public functions only use attributes)
    class Duck(object):
        def __init__(self, values, dt, velocity=None):
            self.values = values
            self.dt = dt
            self.velocity = velocity
            self.time = np.arange(len(values)) * dt
    for c in range(60):
        n = int(hrng.integers(150, 600))
        v = 0.4 * hrng.standard_normal(n)
        d = Duck(v, 0.01, np.cumsum(v) * 0.01)
        for name in fnames:
            obs.append(("duck%d" % c, name, _call(getattr(im, name), d)))
        obs.append(("duck%d" % c, "unchanged", _enc(d.values), _enc(d.velocity)))
    d = Duck([0.1, 0.2, 0.3] * 100, 0.01, [0.0, 0.1, 0.2] * 100)  # plain lists: mostly exceptions
    for name in fnames:
        obs.append(("ducklist", name, _call(getattr(im, name), d)))
    for bad in (None, 3.0, "abc"):
        for name in fnames:
            obs.append(("bad%r" % (bad,), name, _call(getattr(im, name), bad)))

    with open(outfile, "wb") as f:
        pickle.dump((ncase, obs), f, protocol=4)


# --------------------------------------------------------------------------
# parent side
# --------------------------------------------------------------------------

def _show(o):
    """Readable short form of an observation (arrays decoded)."""
    import numpy as np
    if isinstance(o, tuple) and len(o) >= 4 and o[0] == "nd":
        try:
            arr = np.frombuffer(o[3], dtype=o[1]).reshape(o[2])
            return "array(dtype=%s, shape=%s, head=%s, tail=%s, flags=%s)" % (
                o[1], o[2], arr.ravel()[:3].tolist(), arr.ravel()[-3:].tolist(), o[4:])
        except Exception:
            return repr(o)[:200]
    if isinstance(o, (tuple, list)):
        return "(" + ", ".join(_show(i) for i in o) + ")"
    return repr(o)[:200]


def main():
    t0 = time.time()
    cwd = os.getcwd()
    if not os.path.isdir(os.path.join(cwd, "eqsig")):
        print("run from the worktree root")
        return 2
    tmp = tempfile.mkdtemp(prefix="equiv_c09_")
    orig_root = os.path.join(tmp, "orig")
    os.makedirs(orig_root)
    data = subprocess.check_output(["git", "archive", "HEAD", "eqsig"], cwd=cwd)
    tarfile.open(fileobj=io.BytesIO(data)).extractall(orig_root)
    me = os.path.abspath(__file__)
    outs = [os.path.join(tmp, "orig.pkl"), os.path.join(tmp, "edit.pkl")]
    env = dict(os.environ)
    env.pop("PYTHONPATH", None)
    env["PYTHONHASHSEED"] = "0"
    record_file = os.path.join(cwd, "tests", "unit_test_data", "test_motion_dt0p01.txt")
    procs = [subprocess.Popen([sys.executable, me, "--worker", root, out, record_file], cwd=tmp, env=env)
             for root, out in zip([orig_root, cwd], outs)]
    codes = [p.wait() for p in procs]
    if any(codes):
        print("worker failed", codes)
        return 2
    (n0, a), (n1, b) = [pickle.load(open(o, "rb")) for o in outs]
    bad = 0
    if n0 != n1 or len(a) != len(b):
        print("different number of observations", n0, n1, len(a), len(b))
        bad += 1
    nexc = 0
    for x, y in zip(a, b):
        if len(x) > 2 and isinstance(x[2], tuple) and x[2] and x[2][0] == "exc":
            nexc += 1
        if x != y:
            bad += 1
            if bad <= 15:
                print("MISMATCH at", x[0], x[1])
                print("   original:", _show(x[2:]))
                print("   edited  :", _show(y[2:]))
    print("cases: %d, observations: %d (of which exceptions: %d), mismatches: %d, %.1f s"
          % (n0, len(a), nexc, bad, time.time() - t0))
    import shutil
    shutil.rmtree(tmp, ignore_errors=True)
    return 0 if bad == 0 else 1


if __name__ == "__main__":
    if len(sys.argv) >= 2 and sys.argv[1] == "--worker":
        worker(sys.argv[2], sys.argv[3], sys.argv[4] if len(sys.argv) > 4 else None)
        sys.exit(0)
    sys.exit(main())

"""
Equivalence program for a behaviour-preserving edit of eqsig/fns/time_step.py
(interp_array_to_approx_dt, interp_to_approx_dt, resample_to_approx_dt) and of the
consumer AccSignal.gen_response_spectrum.

Run with the edit applied and cwd = the worktree:
    cd <worktree> && PYTHONPATH=<worktree> python out/equivK.py

It extracts the ORIGINAL package from git (git archive HEAD eqsig) into a temporary
directory, runs one and the same deterministic battery of cases in two subprocesses
(one importing the original package, one importing the edited package of the cwd),
and compares the recorded outcomes bit for bit: returned values (type, dtype, shape,
bytes), returned step (type and exact value), exceptions (type and message), warnings,
state of the arguments after the call, state of the objects as seen through the
public API, the public namespace and the signatures.

Exit status 0 iff everything matches.
"""
import os
import pickle
import subprocess
import sys
import tempfile
import time

WORKER = r'''
import sys, os, pickle, hashlib, warnings, inspect, types
import numpy as np

root = os.path.realpath(sys.argv[1])
out_path = sys.argv[2]
sys.path.insert(0, root)
import eqsig
import eqsig.fns.time_step as ts
assert os.path.realpath(eqsig.__file__).startswith(root + os.sep), (eqsig.__file__, root)
assert os.path.realpath(ts.__file__).startswith(root + os.sep), (ts.__file__, root)

RESULTS = []


def enc(o, depth=0):
    """Canonical, exact, picklable description of a value."""
    if depth > 6:
        return ('deep', type(o).__name__)
    if isinstance(o, np.ndarray):
        try:
            b = np.ascontiguousarray(o).tobytes()
        except Exception as e:  # object arrays etc.
            b = repr(o).encode()
        head = tuple(np.ravel(o)[:3].tolist()) if o.dtype != object and o.size else ()
        return ('nd', o.dtype.str, o.shape, hashlib.blake2b(b, digest_size=12).hexdigest(), repr(head))
    if isinstance(o, np.generic):
        return ('npscalar', type(o).__name__, o.dtype.str, o.tobytes().hex(), repr(o))
    if isinstance(o, bool):
        return ('bool', o)
    if isinstance(o, int):
        return ('int', o)
    if isinstance(o, float):
        return ('float', o.hex() if o == o and abs(o) != float('inf') else repr(o))
    if isinstance(o, complex):
        return ('complex', repr(o))
    if isinstance(o, str):
        return ('str', o)
    if o is None:
        return ('none',)
    if isinstance(o, (list, tuple)):
        return (type(o).__name__,) + tuple(enc(x, depth + 1) for x in o)
    if isinstance(o, dict):
        return ('dict',) + tuple((repr(k), enc(o[k], depth + 1)) for k in sorted(o, key=repr))
    if isinstance(o, eqsig.Signal):
        return sig_state(o)
    if isinstance(o, types.SimpleNamespace):
        return ('ns',) + tuple((k, enc(v, depth + 1)) for k, v in sorted(vars(o).items()))
    return ('other', type(o).__name__, repr(o)[:200])


def sig_state(s):
    """State of a Signal / AccSignal as seen through cheap public attributes."""
    d = [('cls', type(s).__name__), ('values', enc(s.values)), ('dt', enc(s.dt)), ('npts', enc(s.npts)),
         ('label', enc(s.label)), ('time', enc(s.time) if _finite_dt(s) else ('skipped',)),
         ('cached_fa', enc(s._cached_fa)), ('cached_sfa', enc(s._cached_smooth_fa)),
         ('sff', enc(s.smooth_fa_freqs)), ('verbose', enc(s.verbose))]
    if isinstance(s, eqsig.AccSignal):
        d.append(('cached_rs', enc(getattr(s, '_cached_response_spectra', None))))
        d.append(('cached_dv', enc(getattr(s, '_cached_disp_and_velo', None))))
        d.append(('rt', enc(s.response_times)))
    return ('sig',) + tuple(d)


def _finite_dt(s):
    try:
        return bool(np.isfinite(s.dt)) and s.npts < 10 ** 7
    except Exception:
        return False


def run(case_id, fn, *args, **kwargs):
    """Call fn, record outcome + warnings."""
    with warnings.catch_warnings(record=True) as w:
        warnings.simplefilter('always')
        try:
            r = fn(*args, **kwargs)
            outcome = ('ok', enc(r))
        except MemoryError as e:
            r = None
            outcome = ('exc', 'MemoryError', '')
        except Exception as e:
            r = None
            outcome = ('exc', type(e).__name__, str(e))
    ws = tuple((x.category.__name__, str(x.message)) for x in w)
    RESULTS.append((case_id, outcome, ws))
    return r


def note(case_id, value):
    RESULTS.append((case_id, ('note', enc(value)), ()))


# ---------------------------------------------------------------------------------------------
# 0. namespace, signatures, docstrings
# ---------------------------------------------------------------------------------------------
note('ns/time_step', sorted(n for n in dir(ts) if not n.startswith('_')))
note('ns/fns', sorted(n for n in dir(eqsig.fns) if not n.startswith('_')))
note('ns/eqsig', sorted(n for n in dir(eqsig) if not n.startswith('_')))
for name in ('time_series_from_motion', 'interp_array_to_approx_dt', 'interp_to_approx_dt', 'resample_to_approx_dt'):
    f = getattr(ts, name)
    note('sig/' + name, str(inspect.signature(f)))
    note('doc/' + name, f.__doc__)
    note('same_obj/' + name, (getattr(eqsig, name) is f, getattr(eqsig.fns, name) is f))
note('sig/gen_response_spectrum', str(inspect.signature(eqsig.AccSignal.gen_response_spectrum)))
note('single_uses', eqsig.single.interp_array_to_approx_dt is ts.interp_array_to_approx_dt)

# ---------------------------------------------------------------------------------------------
# value makers
# ---------------------------------------------------------------------------------------------
rng = np.random.RandomState(20140914)


def make_values(kind, n):
    if kind == 'f64':
        return rng.standard_normal(n)
    if kind == 'i64':
        return rng.randint(-50, 50, size=n)
    if kind == 'i32':
        return rng.randint(-50, 50, size=n).astype(np.int32)
    if kind == 'u8':
        return rng.randint(0, 255, size=n).astype(np.uint8)
    if kind == 'f32':
        return rng.standard_normal(n).astype(np.float32)
    if kind == 'f16':
        return rng.standard_normal(n).astype(np.float16)
    if kind == 'bool':
        return rng.randint(0, 2, size=n).astype(bool)
    if kind == 'list':
        return rng.standard_normal(n).tolist()
    if kind == 'intlist':
        return rng.randint(-9, 9, size=n).tolist()
    if kind == 'tuple':
        return tuple(rng.standard_normal(n).tolist())
    if kind == 'c128':
        return rng.standard_normal(n) + 1j * rng.standard_normal(n)
    if kind == 'strided':
        return rng.standard_normal(2 * n)[::2]
    if kind == 'reversed':
        return rng.standard_normal(n)[::-1]
    if kind == 'readonly':
        a = rng.standard_normal(n)
        a.setflags(write=False)
        return a
    if kind == 'nan':
        a = rng.standard_normal(n)
        a[rng.randint(0, n)] = np.nan
        return a
    if kind == 'inf':
        a = rng.standard_normal(n)
        a[rng.randint(0, n)] = np.inf
        a[rng.randint(0, n)] = -np.inf
        return a
    if kind == 'const':
        return np.full(n, 3.25)
    if kind == 'huge':
        return rng.standard_normal(n) * 1e300
    if kind == 'tiny':
        return rng.standard_normal(n) * 1e-310
    if kind == '2d':
        return rng.standard_normal((n, 2))
    if kind == '2drow':
        return rng.standard_normal((1, n))
    if kind == 'object':
        return np.array(rng.standard_normal(n).tolist(), dtype=object)
    if kind == 'strs':
        return [str(i) for i in range(n)]
    raise KeyError(kind)


def snapshot(v):
    return enc(np.array(v, dtype=object) if isinstance(v, (list, tuple)) and False else v)


BASE_DTS = [0.001, 0.002, 0.004, 0.005, 0.01, 0.02, 0.025, 0.05, 0.1, 0.0078125, 1.0 / 3, 0.3, 0.7, 1.0, 2.5]


def targets_for(dt):
    """Targets commensurate with dt, next to commensurate, and arbitrary ones."""
    t = []
    for k in list(range(1, 13)) + [16, 20, 25, 33, 49, 50, 64, 100]:
        for base in (dt / k, dt * k, dt / (k + 0.5), dt * (k + 0.5)):
            t.append(base)
            t.append(float(np.nextafter(base, 0)))
            t.append(float(np.nextafter(base, np.inf)))
    t.extend(BASE_DTS)
    return t


# ---------------------------------------------------------------------------------------------
# 1. interp_array_to_approx_dt: systematic dt x target x length x even
# ---------------------------------------------------------------------------------------------
cid = 0
for dt in BASE_DTS:
    for tg in targets_for(dt):
        ratio = dt / tg
        for n in (2, 3, 7, 16, 31):
            if ratio * n > 4000:
                continue
            # duration >= 2 * max(dt, target) is the stated domain, but outside it is compared too
            vals = make_values('f64', n)
            before = enc(vals)
            for even in (True, False):
                cid += 1
                run('A%d/dt=%r/tg=%r/n=%d/even=%r' % (cid, dt, tg, n, even), ts.interp_array_to_approx_dt, vals, dt, tg, even)
            note('A%d/args_after' % cid, (before == enc(vals), enc(vals)))

# random non-commensurate pairs, random lengths, many value kinds
KINDS = ['f64', 'i64', 'i32', 'u8', 'f32', 'f16', 'bool', 'list', 'intlist', 'tuple', 'c128', 'strided', 'reversed',
         'readonly', 'nan', 'inf', 'const', 'huge', 'tiny']
for i in range(2500):
    dt = float(np.round(10 ** rng.uniform(-3, 0.5), rng.randint(2, 8))) or 0.01
    if rng.rand() < 0.5:
        tg = float(10 ** rng.uniform(-3, 0.5))
    else:
        k = rng.randint(1, 30)
        tg = dt * k if rng.rand() < 0.5 else dt / k
        if rng.rand() < 0.3:
            tg = float(np.nextafter(tg, rng.choice([0, np.inf])))
    n = int(rng.choice([2, 3, 4, 5, 8, 13, 50, 101, 256, 1000]))
    if dt / tg * n > 2e5:
        n = 3
    kind = KINDS[i % len(KINDS)]
    vals = make_values(kind, n)
    before = enc(vals)
    even = [True, False, 1, 0, None, 'yes', '', np.True_, np.False_, 2.0][rng.randint(0, 10)]
    form = rng.randint(0, 4)
    cid += 1
    label = 'B%d/%s/dt=%r/tg=%r/n=%d/even=%r/form=%d' % (cid, kind, dt, tg, n, even, form)
    if form == 0:
        run(label, ts.interp_array_to_approx_dt, vals, dt, tg, even)
    elif form == 1:
        run(label, ts.interp_array_to_approx_dt, vals, dt, target_dt=tg, even=even)
    elif form == 2:
        run(label, ts.interp_array_to_approx_dt, values=vals, dt=dt, even=even, target_dt=tg)
    else:
        run(label, eqsig.interp_array_to_approx_dt, vals, np.float64(dt), np.float64(tg), even=even)
    note(label + '/args_after', (before == enc(vals), enc(vals)))

# defaults (target_dt=0.01, even=True) and typed steps
for dt in [0.01, 0.005, 0.02, 0.03, 0.0025, 1, 2, np.float64(0.02), np.float32(0.02), np.float32(0.005), np.int64(1),
           np.float16(0.5), True]:
    for n in (2, 5, 12, 33):
        vals = make_values('f64', n)
        cid += 1
        run('C%d/default/dt=%r/n=%d' % (cid, dt, n), ts.interp_array_to_approx_dt, vals, dt)
        run('C%d/default-even-false/dt=%r/n=%d' % (cid, dt, n), ts.interp_array_to_approx_dt, vals, dt, even=False)
        for tg in [1, 2, 3, np.float64(0.01), np.float32(0.01), np.int64(2), np.float16(0.25), 0.5, 4, np.int32(1),
                   np.array(0.01), np.array([0.01]), np.array([0.04])]:
            if n * float(np.ravel(dt)[0]) / float(np.ravel(tg)[0]) > 1e5:
                continue
            for even in (True, False):
                cid += 1
                run('C%d/typed/dt=%r/tg=%r/n=%d/even=%r' % (cid, dt, tg, n, even), ts.interp_array_to_approx_dt, vals, dt, tg, even)
# array-typed dt
for dt in [np.array(0.02), np.array([0.02]), np.array([0.02, 0.04]), np.array([[0.005]])]:
    for tg in [0.01, 0.02, 0.05, np.array([0.01])]:
        for even in (True, False):
            cid += 1
            run('C%d/arraydt/dt=%r/tg=%r/even=%r' % (cid, dt, tg, even), ts.interp_array_to_approx_dt, make_values('f64', 6), dt, tg, even)

# corner / out-of-domain / error cases
BAD_VALUES = [('empty', np.array([])), ('emptylist', []), ('scalar', 3.0), ('zero-d', np.array(2.0)), ('none', None),
              ('2d', make_values('2d', 4)), ('2drow', make_values('2drow', 4)), ('object', make_values('object', 5)),
              ('strs', make_values('strs', 4)), ('one', np.array([1.5])), ('onelist', [2]), ('string', 'abcd'),
              ('dict', {0: 1.0, 1: 2.0}), ('range', range(5)), ('gen', (x for x in range(3)))]
BAD_STEPS = [0, 0.0, -0.01, -1, float('nan'), float('inf'), -float('inf'), np.float64(0), np.float64('nan'),
             np.float64('inf'), np.float64(-0.02), None, '0.01', 1e-320, 1e308, 1e-9, 5e-324, 1j, np.float32(0),
             0.01, 0.02, 0.005]
for name, v in BAD_VALUES:
    for dt in (0.01, 0.02):
        for tg in (0.01, 0.005, 0.03, 0):
            for even in (True, False):
                cid += 1
                run('D%d/%s/dt=%r/tg=%r/even=%r' % (cid, name, dt, tg, even), ts.interp_array_to_approx_dt, v, dt, tg, even)
for dt in BAD_STEPS:
    for tg in BAD_STEPS:
        try:
            if abs(dt / tg) * 5 > 1e6 and abs(dt / tg) != float('inf'):
                continue
        except Exception:
            pass
        for v in (make_values('f64', 5), [1, 2, 3, 4], 7.0):
            for even in (True, False):
                cid += 1
                run('E%d/dt=%r/tg=%r/even=%r' % (cid, dt, tg, even), ts.interp_array_to_approx_dt, v, dt, tg, even)
run('E/noargs', ts.interp_array_to_approx_dt)
run('E/onearg', ts.interp_array_to_approx_dt, [1.0, 2.0])
run('E/toomany', ts.interp_array_to_approx_dt, [1.0, 2.0], 0.01, 0.01, True, 1)
run('E/badkw', ts.interp_array_to_approx_dt, [1.0, 2.0], 0.01, target=0.01)
# large records
for n, dt, tg in [(4097, 0.01, 0.005), (10000, 0.005, 0.02), (9999, 0.01, 0.003), (30001, 0.02, 0.0199), (65536, 0.01, 0.07)]:
    for even in (True, False):
        cid += 1
        run('F%d/n=%d/dt=%r/tg=%r/even=%r' % (cid, n, dt, tg, even), ts.interp_array_to_approx_dt, make_values('f64', n), dt, tg, even)
# time_series_from_motion lives in the same module
for n in (0, 1, 2, 9):
    for dt in (0.01, 1, np.float32(0.5)):
        run('G/tsfm/n=%d/dt=%r' % (n, dt), ts.time_series_from_motion, np.zeros(n), dt)
run('G/tsfm/list', ts.time_series_from_motion, [1, 2, 3], 0.1)
run('G/tsfm/scalar', ts.time_series_from_motion, 3.0, 0.1)


# ---------------------------------------------------------------------------------------------
# 2. object level: interp_to_approx_dt, resample_to_approx_dt
# ---------------------------------------------------------------------------------------------
def both(label, asig, *args, **kwargs):
    """Run both object-level functions; record result objects, argument state afterwards; return results."""
    before = enc(asig)
    r1 = run(label + '/interp', ts.interp_to_approx_dt, asig, *args, **kwargs)
    note(label + '/interp/arg_after', (before == enc(asig), enc(asig)))
    r2 = run(label + '/resample', ts.resample_to_approx_dt, asig, *args, **kwargs)
    note(label + '/resample/arg_after', (before == enc(asig), enc(asig)))
    for tag, r in (('interp', r1), ('resample', r2)):
        if r is not None:
            note(label + '/' + tag + '/shares_memory', bool(np.shares_memory(r.values, asig.values)) if isinstance(asig.values, np.ndarray) else None)
    return r1, r2


OBJ_DTS = [0.005, 0.01, 0.02, 0.025, 0.1, 1.0 / 3, 1, np.float64(0.02), np.float32(0.01)]
for dt in OBJ_DTS:
    tgs = []
    for k in (1, 2, 3, 4, 5, 7, 10):
        for base in (dt / k, dt * k, dt / (k + 0.4), dt * (k + 0.4)):
            tgs.extend([base, float(np.nextafter(float(base), 0)), float(np.nextafter(float(base), np.inf))])
    tgs.extend([0.01, 0.013, 0.05])
    for tg in tgs:
        for n in (4, 9, 10, 37):
            vals = make_values(['f64', 'i64', 'list', 'f32'][n % 4], n)
            for even in (True, False):
                cid += 1
                a = eqsig.AccSignal(vals, dt, label='rec%d' % cid)
                both('H%d/dt=%r/tg=%r/n=%d/even=%r' % (cid, dt, tg, n, even), a, tg, even)
# keyword forms, defaults, Signal (not Acc), subclasses, duck-typed
for n in (6, 11, 200):
    for dt in (0.02, 0.01, 0.004):
        vals = make_values('f64', n)
        cid += 1
        both('I%d/default' % cid, eqsig.AccSignal(vals, dt))
        both('I%d/kw' % cid, eqsig.AccSignal(vals, dt), even=False, target_dt=0.013)
        both('I%d/kw2' % cid, eqsig.AccSignal(vals, dt), target_dt=0.05)
        both('I%d/signal' % cid, eqsig.Signal(vals, dt), 0.007, False)
        both('I%d/signal-even' % cid, eqsig.Signal(vals, dt, label='s', verbose=0), 0.03)
        duck = types.SimpleNamespace(values=vals, dt=dt, npts=n)
        both('I%d/duck' % cid, duck, 0.007, False)
        duck2 = types.SimpleNamespace(values=vals.tolist(), dt=dt, npts=n)
        both('I%d/ducklist' % cid, duck2, 0.03, True)
        duck3 = types.SimpleNamespace(values=vals, dt=dt, npts=n - 2)  # npts attribute disagrees with len(values)
        both('I%d/duck-npts-mismatch' % cid, duck3, 0.009, False)
        both('I%d/duck-npts-mismatch-even' % cid, duck3, 0.05, True)
        both('I%d/duck-no-npts' % cid, types.SimpleNamespace(values=vals, dt=dt), 0.009, False)
        both('I%d/duck-no-dt' % cid, types.SimpleNamespace(values=vals, npts=n), 0.009, False)
        both('I%d/duck-no-values' % cid, types.SimpleNamespace(dt=dt, npts=n), 0.009, False)
        both('I%d/ndarray-as-asig' % cid, vals, 0.009, False)
        both('I%d/none' % cid, None, 0.009)
# bad steps at object level
for tg in [0, -0.01, float('nan'), float('inf'), None, '0.01', np.float64(0), 1e-320, 1e-7]:
    for dt in (0.01, np.float64(0.01), 0):
        for even in (True, False):
            cid += 1
            a = eqsig.AccSignal(make_values('f64', 8), dt)
            r1 = run('J%d/interp/dt=%r/tg=%r/even=%r' % (cid, dt, tg, even), ts.interp_to_approx_dt, a, tg, even)
            if not (isinstance(tg, float) and tg in (1e-320, 1e-7)):
                r2 = run('J%d/resample/dt=%r/tg=%r/even=%r' % (cid, dt, tg, even), ts.resample_to_approx_dt, a, tg, even)
for vals in ([], [1.0], [[1.0, 2.0], [3.0, 4.0]], make_values('c128', 9), make_values('nan', 9), make_values('bool', 8)):
    for tg in (0.005, 0.01, 0.03):
        for even in (True, False):
            cid += 1
            try:
                a = eqsig.AccSignal(vals, 0.01)
            except Exception as e:
                note('K%d/ctor' % cid, (type(e).__name__, str(e)))
                continue
            both('K%d/tg=%r/even=%r' % (cid, tg, even), a, tg, even)

# band-limited periodic signals through resample (the Fourier half of the property)
for n in (32, 50, 63, 128):
    for dt in (0.01, 0.02):
        t = np.arange(n) * dt
        dur = n * dt
        sigv = np.sin(2 * np.pi * 2 * t / dur) + 0.3 * np.cos(2 * np.pi * 3 * t / dur + 0.2) + 0.1
        for tg in (dt / 2, dt / 3, dt * 2, dt * 2.5, dt, dt / 1.5):
            for even in (True, False):
                cid += 1
                both('L%d/n=%d/dt=%r/tg=%r/even=%r' % (cid, n, dt, tg, even), eqsig.AccSignal(sigv, dt), tg, even)

# ---------------------------------------------------------------------------------------------
# 3. histories of public operations on objects
# ---------------------------------------------------------------------------------------------
def full_state(s, tag):
    """Deeper public read-out of a signal (spectra, peaks, integrals)."""
    out = [sig_state(s)]
    for attr in ('fa_spectrum', 'fa_frequencies', 'smooth_fa_spectrum', 'velocity', 'displacement', 'pga', 'pgv', 'pgd'):
        with warnings.catch_warnings():
            warnings.simplefilter('ignore')
            try:
                out.append((attr, enc(getattr(s, attr))))
            except Exception as e:
                out.append((attr, ('exc', type(e).__name__, str(e))))
    note(tag, tuple(out))


STEP_CHOICES = [0.002, 0.004, 0.005, 0.01, 0.0125, 0.02, 0.03, 0.05, 0.07, 0.1]
for h in range(120):
    n = int(rng.choice([20, 41, 64, 150, 333]))
    dt = float(rng.choice([0.005, 0.01, 0.02, 0.04]))
    t = np.arange(n) * dt
    vals = np.sin(2 * np.pi * 1.3 * t) * np.exp(-t) + 0.05 * rng.standard_normal(n)
    if h % 5 == 0:
        vals = np.round(vals * 100).astype(int)
    cur = eqsig.AccSignal(vals, dt, label='h%d' % h)
    for step in range(int(rng.randint(2, 7))):
        op = rng.randint(0, 9)
        tg = float(rng.choice(STEP_CHOICES))
        even = bool(rng.randint(0, 2))
        tag = 'M%d.%d' % (h, step)
        if cur.npts * cur.dt / tg > 50000 or cur.npts < 4:
            break
        if op in (0, 1, 2):
            new = run(tag + '/interp/tg=%r/even=%r' % (tg, even), ts.interp_to_approx_dt, cur, tg, even)
            note(tag + '/interp/src_after', sig_state(cur))
            cur = new
        elif op in (3, 4):
            new = run(tag + '/resample/tg=%r/even=%r' % (tg, even), ts.resample_to_approx_dt, cur, tg, even)
            note(tag + '/resample/src_after', sig_state(cur))
            cur = new
        elif op == 5:
            run(tag + '/array', ts.interp_array_to_approx_dt, cur.values, cur.dt, tg, even)
            note(tag + '/array/src_after', sig_state(cur))
        elif op == 6:
            cur.reset_values(cur.values[: max(4, cur.npts - int(rng.randint(0, 5)))] * 1.5)
            note(tag + '/reset', sig_state(cur))
        elif op == 7:
            with warnings.catch_warnings():
                warnings.simplefilter('ignore')
                run(tag + '/rs', cur.gen_response_spectrum, response_times=np.array([0.0, tg, 0.5, 1.0]), min_dt_ratio=int(rng.choice([1, 4, 16])))
                note(tag + '/rs/out', (enc(cur.s_a), enc(cur.s_v), enc(cur.s_d)))
        else:
            with warnings.catch_warnings():
                warnings.simplefilter('ignore')
                run(tag + '/butter', cur.butter_pass, (0.2, 0.4 / cur.dt))
            note(tag + '/butter/state', sig_state(cur))
        if cur is None:
            break
    if cur is not None:
        full_state(cur, 'M%d/final' % h)

# ---------------------------------------------------------------------------------------------
# 4. the consumer: AccSignal.gen_response_spectrum (interpolates with even=False when target < dt)
# ---------------------------------------------------------------------------------------------
for i, (n, dt) in enumerate([(50, 0.02), (51, 0.02), (120, 0.01), (77, 0.05), (200, 0.005), (64, 0.1)]):
    t = np.arange(n) * dt
    vals = np.sin(2 * np.pi * 2.1 * t) * np.hanning(n) + 0.01 * rng.standard_normal(n)
    for rts in ([0.05, 0.1, 1.0], [0.0, 0.03, 0.3], [0.2, 0.5], np.array([0.011, 0.5, 2.0]), [0.0, 0.4, 4.0], np.linspace(0.04, 2, 7)):
        for ratio in (1, 2, 4, 7, 20):
            a = eqsig.AccSignal(vals, dt)
            before = sig_state(a)
            with warnings.catch_warnings():
                warnings.simplefilter('ignore')
                run('N%d/rs/rts=%r/ratio=%r' % (i, list(rts), ratio), a.gen_response_spectrum, response_times=rts, min_dt_ratio=ratio)
            try:
                note('N%d/rs/out/rts=%r/ratio=%r' % (i, list(rts), ratio), (enc(a.s_a), enc(a.s_v), enc(a.s_d), sig_state(a), before))
            except Exception as e:
                note('N%d/rs/out/rts=%r/ratio=%r' % (i, list(rts), ratio), ('exc', type(e).__name__, str(e)))
    a = eqsig.AccSignal(vals, dt)
    with warnings.catch_warnings():
        warnings.simplefilter('ignore')
        note('N%d/s_a-default' % i, (enc(a.s_a), enc(a.s_d)))

with open(out_path, 'wb') as f:
    pickle.dump(RESULTS, f, protocol=4)
'''


def main():
    t0 = time.time()
    cwd = os.getcwd()
    if not os.path.isdir(os.path.join(cwd, 'eqsig')):
        print('run me with cwd = the worktree (no eqsig/ here)')
        return 2
    with tempfile.TemporaryDirectory(prefix='equiv_c14_') as tmp:
        orig_root = os.path.join(tmp, 'orig')
        run_dir = os.path.join(tmp, 'run')
        os.makedirs(orig_root)
        os.makedirs(run_dir)
        tar_path = os.path.join(tmp, 'orig.tar')
        with open(tar_path, 'wb') as f:
            subprocess.check_call(['git', 'archive', 'HEAD', 'eqsig'], cwd=cwd, stdout=f)
        subprocess.check_call(['tar', '-xf', tar_path, '-C', orig_root])
        worker = os.path.join(run_dir, 'worker.py')
        with open(worker, 'w') as f:
            f.write(WORKER)
        # is there an edit at all?
        differs = []
        for dirpath, _, files in os.walk(os.path.join(cwd, 'eqsig')):
            for fn in files:
                if fn.endswith('.py'):
                    p = os.path.join(dirpath, fn)
                    q = os.path.join(orig_root, os.path.relpath(p, cwd))
                    if not os.path.exists(q) or open(p, 'rb').read() != open(q, 'rb').read():
                        differs.append(os.path.relpath(p, cwd))
        print('edited files relative to HEAD:', differs if differs else 'NONE (comparing the original with itself)')
        env = dict(os.environ)
        env.pop('PYTHONPATH', None)
        env['PYTHONDONTWRITEBYTECODE'] = '1'
        env['PYTHONHASHSEED'] = '0'
        procs = []
        outs = []
        for tag, root in (('orig', orig_root), ('edit', cwd)):
            out = os.path.join(tmp, tag + '.pkl')
            outs.append(out)
            procs.append((tag, subprocess.Popen([sys.executable, worker, root, out], cwd=run_dir, env=env,
                                                stdout=subprocess.PIPE, stderr=subprocess.STDOUT)))
        failed = False
        for tag, p in procs:
            so, _ = p.communicate()
            if p.returncode != 0:
                failed = True
                print('worker %s failed with status %d:\n%s' % (tag, p.returncode, so.decode(errors='replace')[-4000:]))
        if failed:
            return 3
        with open(outs[0], 'rb') as f:
            res_o = pickle.load(f)
        with open(outs[1], 'rb') as f:
            res_e = pickle.load(f)
    n_bad = 0
    if len(res_o) != len(res_e):
        print('different number of records: %d vs %d' % (len(res_o), len(res_e)))
        n_bad += 1
    n_ok = n_exc = 0
    for ro, re_ in zip(res_o, res_e):
        if ro != re_:
            n_bad += 1
            if n_bad <= 15:
                print('MISMATCH at case', ro[0])
                print('   original:', repr(ro)[:700])
                print('   edited  :', repr(re_)[:700])
        if ro[1][0] == 'ok':
            n_ok += 1
        elif ro[1][0] == 'exc':
            n_exc += 1
    print('%d records compared (%d calls returned, %d calls raised, %d state/namespace notes); %d mismatches; %.1f s'
          % (len(res_o), n_ok, n_exc, len(res_o) - n_ok - n_exc, n_bad, time.time() - t0))
    if len(res_o) < 5000 or n_ok < 3000:
        print('too few cases were executed - battery broken')
        return 4
    return 1 if n_bad else 0


if __name__ == '__main__':
    sys.exit(main())

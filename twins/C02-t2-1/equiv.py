"""
Equivalence check for twin1 (run with twin1 applied, cwd = the worktree).

Compares eqsig.sdof.nigam_and_jennings_response / response_series / pseudo_response_spectra /
true_response_spectra / calc_*_spectrum of the ORIGINAL package (git HEAD) with the edited working tree.
Everything has to be bit-identical (values, dtype, shape, memory layout), arguments must not be mutated.
"""
import os
import subprocess
import sys
import tempfile
import itertools

import numpy as np

HERE = os.getcwd()


def load_both():
    """returns (original eqsig package, edited eqsig package)"""
    tmp = tempfile.mkdtemp(prefix='eqsig_orig_', dir='/tmp')
    subprocess.check_call('git archive HEAD eqsig | tar -x -C %s' % tmp, shell=True, cwd=HERE)

    def fresh(path):
        for k in [k for k in sys.modules if k == 'eqsig' or k.startswith('eqsig.')]:
            del sys.modules[k]
        sys.path.insert(0, path)
        try:
            import eqsig
            import eqsig.sdof  # noqa
            assert os.path.abspath(eqsig.__file__).startswith(path), (eqsig.__file__, path)
            return eqsig
        finally:
            sys.path.remove(path)

    new = fresh(HERE)
    old = fresh(tmp)
    assert old is not new and old.sdof is not new.sdof
    assert new.sdof.__file__.startswith(HERE) and old.sdof.__file__.startswith(tmp)
    return old, new


def same(x, y, what):
    assert type(x) is type(y), (what, type(x), type(y))
    if isinstance(x, tuple):
        assert len(x) == len(y), what
        for k, (p, q) in enumerate(zip(x, y)):
            same(p, q, what + ('[%i]' % k,))
        return
    if isinstance(x, np.ndarray):
        assert x.dtype == y.dtype, (what, x.dtype, y.dtype)
        assert x.shape == y.shape, (what, x.shape, y.shape)
        assert x.flags['C_CONTIGUOUS'] == y.flags['C_CONTIGUOUS'], what
        assert x.flags['WRITEABLE'] == y.flags['WRITEABLE'], what
        assert np.array_equal(x, y, equal_nan=True), (what, np.max(np.abs(x - y)))
        # also the sign of zeros
        assert np.array_equal(np.signbit(x), np.signbit(y)), what
        return
    assert x == y or (x != x and y != y), (what, x, y)


def call(fn, args):
    """calls with private copies of the args, returns (outcome, args after call)"""
    import copy
    args = copy.deepcopy(args)
    try:
        with np.errstate(all='ignore'):
            out = fn(*args)
    except Exception as e:  # same exception type expected
        out = ('EXC', type(e).__name__)
    return out, args


def same_args(a0, a1, what):
    for p, q in zip(a0, a1):
        assert type(p) is type(q), what
        if isinstance(p, np.ndarray):
            assert p.dtype == q.dtype and np.array_equal(p, q, equal_nan=True), what
        else:
            assert p == q, what


def main():
    old, new = load_both()
    rng = np.random.RandomState(20260926)
    n_cases = 0
    n_exc = []

    fnames = ['nigam_and_jennings_response', 'response_series', 'pseudo_response_spectra', 'true_response_spectra']

    def check(args, tag):
        nonlocal n_cases
        for fname in fnames:
            r0, a0 = call(getattr(old.sdof, fname), args)
            r1, a1 = call(getattr(new.sdof, fname), args)
            same(r0, r1, (tag, fname))
            if isinstance(r1, tuple) and r1 and isinstance(r1[0], str) and r1[0] == 'EXC':
                n_exc.append((fname, r1[1]))
            same_args(a0, args, (tag, fname, 'orig mutates'))
            same_args(a1, args, (tag, fname, 'edit mutates'))
            if isinstance(r1, tuple) and r1 and isinstance(r1[0], np.ndarray) and fname in fnames[:2]:
                # returned arrays are independent of each other
                assert not np.shares_memory(r1[0], r1[1]) and not np.shares_memory(r1[0], r1[2])
                assert not np.shares_memory(r0[0], r0[1])
            n_cases += 1

    records = []
    for n in [0, 1, 2, 3, 4, 5, 8, 17, 64, 257, 1000]:
        records.append(rng.randn(n))
    records.append(np.zeros(40))
    records.append(np.concatenate([np.zeros(7), rng.randn(30)]))  # starts at zero (shift invariance domain)
    records.append(np.concatenate([[0.0], rng.randn(30), np.zeros(10)]))
    records.append(rng.randint(-5, 6, size=50))  # integer dtype
    records.append(rng.randn(33).astype(np.float32))
    records.append(list(rng.randn(21)))  # list
    records.append([0, 1, -2, 3, 0, 0])  # list of ints
    records.append(tuple(rng.randn(9)))
    records.append(np.sin(0.1 * np.arange(300)) * 0.01)
    records.append(1e300 * rng.randn(20))  # overflow -> inf / nan have to match too
    records.append(np.array([0.0, np.nan, 1.0, 2.0, np.inf, 0.0]))
    records.append(-0.0 * np.ones(5))
    records.append(rng.randn(50)[::2])  # non contiguous view
    records.append(2.5 * rng.randn(40) - 1.5 * rng.randn(40))  # a linear combination

    period_sets = [
        np.array([0.5]),
        np.array([0.0]),
        np.array([0.0, 0.3]),
        np.array([0.0, 0.3, 1.0, 2.5]),
        np.array([0.3, 0.0, 1.0]),  # zero not first: inf frequency, nan response
        np.array([2.5, 0.1, 1.0, 0.3]),  # unordered
        np.linspace(0.01, 5, 40),
        np.linspace(0.0, 5, 41),
        np.logspace(-2, 1, 13)[::-1],
        [0.2, 0.4],  # list
        [0, 1, 2],  # list of ints starting with zero
        (1, 2),
        np.array([1, 2, 3]),  # int dtype
        np.array([0.02, 0.02, 0.02]),
        np.array([]),  # raises IndexError in both
        1.0,  # scalar: raises in both
    ]
    dts = [0.01, 0.005, 0.1, 1, np.float64(0.02), 0.0025]
    xis = [0.0, 0.05, 0.2, 0.5, 0.99, 0.999999, np.float64(0.05), 0]

    # full product on a reduced set + random sampling of the rest
    for rec, per in itertools.product(records, period_sets):
        check((rec, 0.01, per, 0.05), ('grid',))
    for rec, dt, xi in itertools.product(records[5:12], dts, xis):
        check((rec, dt, np.array([0.0, 0.1, 0.7, 3.0]), xi), ('dt_xi',))
        check((rec, dt, np.array([0.4, 0.1, 0.7, 3.0]), xi), ('dt_xi_nz',))
    for k in range(300):
        n = rng.randint(0, 200)
        rec = rng.randn(n) * 10 ** rng.uniform(-3, 3)
        if rng.rand() < 0.3 and n:
            rec[0] = 0.0
        m = rng.randint(1, 12)
        per = 10 ** rng.uniform(-2.5, 1.2, size=m)
        if rng.rand() < 0.4:
            per[0] = 0.0
        if rng.rand() < 0.5:
            per = np.sort(per)
        dt = float(10 ** rng.uniform(-3, -0.5))
        xi = float(rng.uniform(0, 1)) if rng.rand() < 0.9 else 0.0
        check((rec, dt, per, xi), ('rand', k))

    # the property's operations themselves, original vs edited: refinement, shift, split, batches
    for k in range(40):
        n = rng.randint(2, 120)
        rec = rng.randn(n)
        rec[0] = 0.0
        per = np.concatenate([[0.0], 10 ** rng.uniform(-1.5, 1, size=5)])
        xi = float(rng.uniform(0, 1))
        dt = 0.01
        fac = rng.randint(2, 9)
        fine = np.interp(np.arange((n - 1) * fac + 1) / fac, np.arange(n), rec)
        check((fine, dt / fac, per, xi), ('refine', k))
        check((np.concatenate([np.zeros(rng.randint(1, 9)), rec]), dt, per, xi), ('shift', k))
        check((rec[:rng.randint(1, n)], dt, per, xi), ('causal', k))
        perm = rng.permutation(len(per))
        check((rec, dt, per[perm], xi), ('perm', k))
        cut = rng.randint(1, len(per))
        check((rec, dt, per[:cut], xi), ('batch0', k))
        check((rec, dt, per[cut:], xi), ('batch1', k))
        al, be = rng.randn(2)
        check((al * rec + be * rng.randn(n), dt, per, xi), ('lincomb', k))

    # users of response_series on signal objects (energy spectra) and the spectra of AccSignal objects
    for k in range(15):
        n = rng.randint(10, 300)
        vals = rng.randn(n)
        res = []
        for pkg in (old, new):
            asig = pkg.AccSignal(vals.copy(), 0.01, response_times=np.array([0.0, 0.2, 1.0, 3.0]))
            with np.errstate(all='ignore'):
                r = (pkg.sdof.calc_resp_uke_spectrum(asig), pkg.sdof.calc_resp_uke_spectrum(asig, periods=[0.3, 0.5], xi=0.1),
                     pkg.sdof.calc_input_energy_spectrum(asig), pkg.sdof.calc_input_energy_spectrum(asig, series=True),
                     asig.s_a, asig.s_v, asig.s_d)
            res.append(r + (asig.values,))
        same(res[0], res[1], ('asig', k))
        n_cases += 1

    assert len(n_exc) < 0.2 * n_cases, len(n_exc)  # the checks must mostly exercise successful calls
    print('twin1: %i comparisons identical (%i of them raised the same exception: %s)' % (n_cases, len(n_exc), sorted(set(n_exc))))


if __name__ == '__main__':
    main()

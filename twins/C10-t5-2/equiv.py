"""
Equivalence program for twin 2 of property C10 (significant / bracketed durations).

Run with the edit applied and cwd = the worktree:
    cd <worktree> && PYTHONPATH=<worktree> /venv/bin/python out/equiv2.py

The ORIGINAL package is obtained with `git archive HEAD eqsig` into a temporary directory.
The same deterministic battery of cases (this file, `--worker` mode) is executed in two
subprocesses, one importing the original package and one importing the edited package
(PYTHONPATH differs).  Every case outcome (returned value encoded bit-for-bit with its type,
or exception type + message, plus the warnings emitted, plus the bytes of the arguments /
the public state of the object after the call) is pickled and the two lists are compared.
Exit status 0 iff everything matches.
"""
import io
import os
import pickle
import subprocess
import sys
import tarfile
import tempfile
import warnings

FOCUS = "twin2"


# --------------------------------------------------------------------------------------
# worker part
# --------------------------------------------------------------------------------------

def enc(v):
    import numpy as np
    if isinstance(v, tuple):
        return ('tuple', tuple(enc(x) for x in v))
    if isinstance(v, list):
        return ('list', tuple(enc(x) for x in v))
    if isinstance(v, dict):
        return ('dict', tuple((repr(k), enc(v[k])) for k in sorted(v, key=repr)))
    if isinstance(v, np.ndarray):
        if v.dtype.kind == 'O':
            return ('nd', 'O', v.shape, repr(v.tolist()))
        raw = np.ascontiguousarray(v).tobytes()
        if len(raw) > 256:
            import hashlib
            raw = hashlib.sha1(raw).hexdigest()
        return ('nd', type(v).__name__, v.dtype.str, v.shape, raw)
    if isinstance(v, np.generic):
        return ('npg', type(v).__name__, v.tobytes())
    if isinstance(v, float):
        return ('float', v.hex())
    if v is None or isinstance(v, (bool, int, str, bytes)):
        return (type(v).__name__, repr(v))
    return ('other', type(v).__name__, repr(v))


def snapshot_sig(asig):
    """Public + cached state of a Signal/AccSignal (without triggering lazy computations)."""
    d = {}
    for k in sorted(asig.__dict__):
        d[k] = enc(asig.__dict__[k])
    return ('state', tuple(sorted(d.items())))


class Recorder(object):
    def __init__(self):
        self.out = []

    def run(self, cid, fn, watch=(), sigs=()):
        """Runs fn(), records outcome + warnings + bytes of watched arrays + state of signals"""
        with warnings.catch_warnings(record=True) as wlist:
            warnings.simplefilter('always')
            try:
                res = ('ok', enc(fn()))
            except Exception as e:  # noqa
                res = ('exc', type(e).__name__, str(e))
        wrn = tuple((w.category.__name__, str(w.message)) for w in wlist)
        after = tuple(enc(w) for w in watch)
        states = tuple(snapshot_sig(s) for s in sigs)
        self.out.append((cid, res, wrn, after, states))


def make_records(rng):
    """A list of (name, ndarray) covering typical records and corners."""
    import numpy as np
    recs = []

    def add(name, arr):
        recs.append((name, arr))

    for n in (0, 1, 2, 3, 4, 5, 7, 10, 33, 100, 257, 1000, 4096):
        for rep in range(3):
            t = np.arange(n)
            env = np.exp(-((t - 0.4 * n) / (0.2 * n + 1)) ** 2)
            add('gauss_env_n%i_%i' % (n, rep), rng.standard_normal(n) * env * 3.0)
        add('gauss_n%i' % n, rng.standard_normal(n))
        add('zeros_n%i' % n, np.zeros(n))
        add('ones_n%i' % n, np.ones(n))
        add('neg_ones_n%i' % n, -np.ones(n))
        if n > 0:
            a = np.zeros(n)
            a[rng.integers(0, n)] = 2.5
            add('spike_n%i' % n, a)
            a = np.zeros(n)
            a[0] = -1.0
            add('spike_first_n%i' % n, a)
            a = np.zeros(n)
            a[-1] = 1.0
            add('spike_last_n%i' % n, a)
            # exact ties: entries in {-1, 0, 1} so that cumulative sums hit fractions exactly
            add('tern_n%i' % n, rng.integers(-1, 2, n).astype(float))
            add('tern_int_n%i' % n, rng.integers(-1, 2, n))
            add('smallint64_n%i' % n, rng.integers(-20, 21, n))
            add('int32_n%i' % n, rng.integers(-3000, 3000, n).astype(np.int32))
            add('int16_n%i' % n, rng.integers(-150, 150, n).astype(np.int16))
            add('int16_overflow_n%i' % n, rng.integers(-30000, 30000, n).astype(np.int16))
            add('int8_n%i' % n, rng.integers(-100, 100, n).astype(np.int8))
            add('uint8_n%i' % n, rng.integers(0, 200, n).astype(np.uint8))
            add('f32_n%i' % n, rng.standard_normal(n).astype(np.float32))
            add('f16_n%i' % n, rng.standard_normal(n).astype(np.float16))
            add('bool_n%i' % n, rng.integers(0, 2, n).astype(bool))
            # leading / trailing zeros
            k = int(rng.integers(0, n + 1))
            a = rng.standard_normal(n)
            a[:k] = 0
            add('lead0_n%i' % n, a)
            a = rng.standard_normal(n)
            a[n - k:] = 0
            add('trail0_n%i' % n, a)
            a = rng.standard_normal(n)
            a[rng.integers(0, n)] = np.nan
            add('nan_n%i' % n, a)
            a = rng.standard_normal(n)
            a[rng.integers(0, n)] = np.inf
            add('inf_n%i' % n, a)
            a = rng.standard_normal(n)
            a[rng.integers(0, n)] = -np.inf
            add('ninf_n%i' % n, a)
            add('huge_n%i' % n, rng.standard_normal(n) * 1e160)
            add('tiny_n%i' % n, rng.standard_normal(n) * 1e-170)
            add('subnormal_n%i' % n, rng.standard_normal(n) * 1e-158)
            add('mixedscale_n%i' % n, rng.standard_normal(n) * 10.0 ** rng.integers(-8, 8, n))
            add('strided_n%i' % n, rng.standard_normal(2 * n)[::2])
            add('reversed_n%i' % n, rng.standard_normal(n)[::-1])
            add('plateaus_n%i' % n, np.repeat(rng.standard_normal(n // 4 + 1), 4)[:n]
                * (rng.random(n) > 0.5))
            add('complex_n%i' % n, rng.standard_normal(n) + 1j * rng.standard_normal(n))
    return recs


FRACTIONS = [(0.05, 0.95), (0.05, 0.75), (0.25, 0.75), (0.5, 0.5), (0.0, 1.0), (0.95, 0.05),
             (1e-9, 1 - 1e-9), (0.5, 1.0), (0.0, 0.5), (-0.1, 1.1), (0.2, 0.8), (0.1, 0.3),
             (1. / 3, 2. / 3), (0.49, 0.51), (0.999, 0.9999), (1e-12, 1e-6)]

DTS = [0.01, 0.005, 1, 2, 0.1, 1. / 3, 1.0, 0.02]


def typed_fraction_pairs():
    import numpy as np
    return [(np.float64(0.05), np.float64(0.95)), (np.float32(0.05), np.float32(0.95)),
            (np.float16(0.25), np.float16(0.75)), (0, 1), (False, True),
            (np.array(0.05), np.array(0.95)), (np.array([0.05]), np.array([0.95])),
            (np.array([0.05, 0.1]), 0.95), (0.05, np.array([[0.95]])), (0.3, [0.9]), ([0.1], 0.9),
            (np.float64('nan'), np.float64('nan')), (0.95, float('nan')), (float('inf'), float('-inf')),
            (0.05, float('-inf')), (float('-inf'), 0.5), (-0.0, 0.0), (0.0, 0.0), (1.0, 1.0), (1, 1), (2, 3),
            (np.int64(0), np.int64(1)), (0.5j, 0.9), (np.float32(0.3), 0.9),
            ('a', 0.95), (0.05, 'b'), (None, 0.95), (0.05, None), (float('nan'), 0.95),
            (0.05, float('nan')), (float('-inf'), float('inf')), (0.05, float('inf'))]


def worker(out_path, expect_root):
    import numpy as np
    import eqsig
    import eqsig.im as im
    root = os.path.realpath(os.path.dirname(os.path.dirname(eqsig.__file__)))
    assert root == os.path.realpath(expect_root), (root, expect_root)

    R = Recorder()

    for phase in ('numpy_as_is', 'numpy_with_trapz'):
        if phase == 'numpy_with_trapz':
            # emulate an older NumPy in which np.trapz exists (so that the deprecated
            # generate_duration_stats runs to completion); same patch for both packages
            if not hasattr(np, 'trapz'):
                np.trapz = np.trapezoid
        rng = np.random.default_rng(20240610)
        recs = make_records(rng)
        tfp = typed_fraction_pairs()

        # ---------------- calc_sig_dur_vals (array variant) ----------------
        if phase == 'numpy_as_is':
            for ir, (name, arr) in enumerate(recs):
                pairs = [FRACTIONS[0], FRACTIONS[(ir % (len(FRACTIONS) - 1)) + 1],
                         tuple(sorted(rng.random(2))), tuple(rng.random(2))]
                if arr.size and arr.dtype.kind in 'fiu' and np.all(np.isfinite(arr.astype(float))):
                    # fractions hitting cumulative values exactly (strictness of the inequalities)
                    with warnings.catch_warnings():
                        warnings.simplefilter('ignore')
                        c = np.cumsum(arr.astype(float) ** 2)
                    if np.isfinite(c[-1]) and c[-1] > 0:
                        i0, i1 = sorted(rng.integers(0, len(c), 2))
                        pairs.append((c[i0] / c[-1], c[i1] / c[-1]))
                for ip, (s, e) in enumerate(pairs):
                    dt = DTS[(ir + ip) % len(DTS)]
                    for se in (False, True):
                        R.run(('sdv', name, ip, se), lambda: im.calc_sig_dur_vals(arr, dt, start=s, end=e, se=se),
                              watch=(arr,))
                if ir % 7 == 0:
                    s, e = tfp[(ir // 7) % len(tfp)]
                    R.run(('sdv_typedfrac', name), lambda: im.calc_sig_dur_vals(arr, 0.01, s, e, True), watch=(arr,))
                if ir % 5 == 0:
                    # defaults, positional se, dt typed
                    R.run(('sdv_default', name), lambda: im.calc_sig_dur_vals(arr, 0.01), watch=(arr,))
                    R.run(('sdv_dt32', name), lambda: im.calc_sig_dur_vals(arr, np.float32(0.02), 0.05, 0.95, 1))
                    R.run(('sdv_dt64', name), lambda: im.calc_sig_dur_vals(arr, np.float64(0.1), se=True))
                    R.run(('sdv_dtarr', name), lambda: im.calc_sig_dur_vals(arr, np.array([0.1, 0.2]), se=True))
                    R.run(('sdv_dtnone', name), lambda: im.calc_sig_dur_vals(arr, None, se=True))
                    R.run(('sdv_dtstr', name), lambda: im.calc_sig_dur_vals(arr, 'ab', se=True))
                    R.run(('sdv_dtneg', name), lambda: im.calc_sig_dur_vals(arr, -0.01, se=False))
                    R.run(('sdv_dtcomplex', name), lambda: im.calc_sig_dur_vals(arr, 0.01j, se=False))
                    R.run(('sdv_se_none', name), lambda: im.calc_sig_dur_vals(arr, 0.01, se=None))
                    R.run(('sdv_se_str', name), lambda: im.calc_sig_dur_vals(arr, 0.01, se='yes'))
                if ir % 11 == 0:
                    # other argument forms
                    lst = arr.tolist()
                    R.run(('sdv_list', name), lambda: im.calc_sig_dur_vals(lst, 0.01))
                    R.run(('sdv_tuple', name), lambda: im.calc_sig_dur_vals(tuple(lst), 0.01))
                    ro = arr.copy()
                    ro.setflags(write=False)
                    R.run(('sdv_readonly', name), lambda: im.calc_sig_dur_vals(ro, 0.01, se=True), watch=(ro,))
                    if arr.size >= 4 and arr.size % 2 == 0:
                        a2 = arr.reshape(2, -1)
                        R.run(('sdv_2d', name), lambda: im.calc_sig_dur_vals(a2, 0.01, se=True), watch=(a2,))
                        a2f = np.asfortranarray(arr.reshape(-1, 2))
                        R.run(('sdv_2df', name), lambda: im.calc_sig_dur_vals(a2f, 0.01, 0.2, 0.8, se=True))
                    if arr.dtype.kind == 'f':
                        ma = np.ma.masked_array(arr, mask=(np.arange(arr.size) % 3 == 0))
                        R.run(('sdv_masked', name), lambda: im.calc_sig_dur_vals(ma, 0.01, 0.1, 0.9, se=True))
                        mat = np.asmatrix(arr)
                        R.run(('sdv_matrix', name), lambda: im.calc_sig_dur_vals(mat, 0.01, 0.1, 0.9, se=True))
                    R.run(('sdv_object', name), lambda: im.calc_sig_dur_vals(arr.astype(object), 0.01, se=True))
                    # deprecated alias
                    R.run(('sdv_deprecated', name), lambda: im.calc_significant_duration(arr, 0.01, 0.1, 0.9))
            for (name, arr) in recs:
                if name in ('gauss_n100', 'tern_n33', 'f32_n100', 'f16_n33', 'spike_last_n3', 'smallint64_n10',
                            'gauss_env_n257_1', 'ones_n5', 'inf_n10', 'nan_n10', 'huge_n10', 'lead0_n100'):
                    for ip, (s, e) in enumerate(tfp):
                        for se in (False, True):
                            R.run(('sdv_typedfrac_all', name, ip, se),
                                  lambda: im.calc_sig_dur_vals(arr, 0.01, s, e, se), watch=(arr,))
                            asig = eqsig.AccSignal(arr, 0.01)
                            R.run(('sd_typedfrac_all', name, ip, se), lambda: im.calc_sig_dur(asig, s, e, se=se))
                            R.run(('sd_typedfrac_cav', name, ip, se),
                                  lambda: im.calc_sig_dur(asig, s, e, im=im.calc_cav, se=se))
            for sc in (3.0, -2.0, 0.0, 5, np.float64(1.5), np.float32(2.0), np.int64(3), float('nan'), True, 2 + 1j):
                R.run(('sdv_scalar', repr(sc)), lambda: im.calc_sig_dur_vals(sc, 0.01, se=True))
                R.run(('sdv_scalar01', repr(sc)), lambda: im.calc_sig_dur_vals(sc, 0.01, 0.0, 1.0, se=True))
                R.run(('sdv_scalar_neg', repr(sc)), lambda: im.calc_sig_dur_vals(sc, 0.01, -1.0, 2.0, se=False))
            for bad in (None, 'abc', [1.0, 2.0], {}, [[1, 2], [3, 4]]):
                R.run(('sdv_bad', repr(bad)), lambda: im.calc_sig_dur_vals(bad, 0.01))

            # systematic small exhaustive set: all ternary records up to length 6 with tie-prone fractions
            import itertools
            cnt = 0
            for n in range(1, 7):
                for combo in itertools.product((-1.0, 0.0, 2.0), repeat=n):
                    arr = np.array(combo)
                    for (s, e) in ((0.25, 0.75), (0.2, 0.8), (0.5, 1.0), (0.0, 0.5), (0.05, 0.95)):
                        cnt += 1
                        R.run(('sdv_exh', combo, s, e), lambda: im.calc_sig_dur_vals(arr, 0.5, s, e, se=True))

            # bulk of well-formed records (the heart of the property's domain)
            for k in range(1300):
                n = int(rng.integers(1, 400)) if k % 10 else int(rng.integers(1, 6))
                kind = k % 5
                if kind == 0:
                    arr = rng.standard_normal(n)
                elif kind == 1:
                    arr = rng.integers(-2, 3, n).astype(float)
                elif kind == 2:
                    arr = rng.standard_normal(n) * (rng.random(n) > 0.7)
                elif kind == 3:
                    arr = np.concatenate([np.zeros(int(rng.integers(0, 20))), rng.standard_normal(n),
                                          np.zeros(int(rng.integers(0, 20)))])
                else:
                    arr = rng.integers(-50, 51, n)
                dt = DTS[k % len(DTS)]
                c = np.cumsum(arr.astype(float) ** 2)
                if k % 3 == 0 and c[-1] > 0:
                    i0, i1 = sorted(rng.integers(0, len(c), 2))
                    s, e = c[i0] / c[-1], c[i1] / c[-1]
                elif k % 3 == 1:
                    s, e = sorted(rng.random(2))
                else:
                    s, e = FRACTIONS[k % len(FRACTIONS)]
                se = bool(k % 2)
                R.run(('bulk_sdv', k), lambda: im.calc_sig_dur_vals(arr, dt, s, e, se), watch=(arr,))
                R.run(('bulk_sdv2', k), lambda: im.calc_sig_dur_vals(arr * 3.7, dt, start=s, end=e, se=not se))
                asig = eqsig.AccSignal(arr, dt)
                R.run(('bulk_sd', k), lambda: im.calc_sig_dur(asig, s, e, se=se), watch=(arr,), sigs=(asig,))
                R.run(('bulk_sd_cav', k), lambda: im.calc_sig_dur(asig, s, e, im=im.calc_cav, se=True), sigs=(asig,))
                R.run(('bulk_sd_signed', k), lambda: im.calc_sig_dur(asig, s, e, im=lambda a: np.cumsum(a.values), se=True))
                a_abs = np.abs(arr)
                th = [a_abs[int(rng.integers(0, len(arr)))], float(rng.random()) * a_abs.max(), 0]
                for it, t in enumerate(th):
                    R.run(('bulk_bd', k, it), lambda: im.calc_brac_dur(asig, t, se=se), sigs=(asig,))
                    R.run(('bulk_bd2', k, it), lambda: im.calc_brac_dur(asig, t, se=not se), sigs=(asig,))

        # ---------------- AccSignal based: calc_sig_dur, calc_brac_dur, deprecated stats ----------------
        def im_noncum(asig):
            return asig.values  # not monotonic, can be negative

        def im_cumvals(asig):
            return np.cumsum(asig.values)  # signed cumulative

        def im_list(asig):
            return list(np.cumsum(np.asarray(asig.values, dtype=float) ** 2))

        def im_int(asig):
            return np.cumsum((np.abs(asig.values) * 3).astype(np.int64))

        def im_2d(asig):
            v = np.cumsum(np.asarray(asig.values, dtype=float) ** 2)
            return np.vstack([v, 2 * v, 3 * v])

        def im_2d_t(asig):
            v = np.cumsum(np.asarray(asig.values, dtype=float) ** 2)
            return np.vstack([v, 2 * v]).T

        def im_raise(asig):
            raise KeyError('boom')

        def im_scalar(asig):
            return np.float64(3.0)

        def im_0d(asig):
            return np.array(3.0)

        def im_f32(asig):
            return np.cumsum(np.abs(asig.values)).astype(np.float32)

        def im_decreasing(asig):
            return -np.cumsum(np.asarray(asig.values, dtype=float) ** 2)

        def im_shorter(asig):
            return np.cumsum(np.asarray(asig.values, dtype=float) ** 2)[::2]

        def im_mutating(asig):
            # a measure that (legally) uses cached public properties of the signal
            return np.cumsum(np.abs(asig.velocity)) * asig.dt

        ims = [None, im.calc_arias_intensity, im.calc_cav, im.calc_isv, im.calc_integral_of_abs_acceleration,
               im.calc_integral_of_abs_velocity, im.calc_unit_kinetic_energy, im_noncum, im_cumvals, im_list,
               im_int, im_2d, im_2d_t, im_raise, im_scalar, im_0d, im_f32, im_decreasing, im_shorter,
               im_mutating]

        for ir, (name, arr) in enumerate(recs):
            if phase == 'numpy_with_trapz' and ir % 3:
                continue
            dt = DTS[ir % len(DTS)]
            holder = {}

            def build():
                holder['a'] = eqsig.AccSignal(arr, dt)
                return None
            R.run(('build', phase, name), build)
            if 'a' not in holder:
                continue
            asig = holder['a']
            vals = asig.values

            if phase == 'numpy_as_is':
                # --- significant duration on the signal
                for se in (False, True):
                    R.run(('sd_default', name, se), lambda: im.calc_sig_dur(asig, se=se), watch=(vals, arr), sigs=(asig,))
                s, e = FRACTIONS[ir % len(FRACTIONS)]
                R.run(('sd_frac', name), lambda: im.calc_sig_dur(asig, s, e, None, True), watch=(vals,), sigs=(asig,))
                s, e = sorted(rng.random(2))
                R.run(('sd_rand', name), lambda: im.calc_sig_dur(asig, start=s, end=e, se=True), sigs=(asig,))
                R.run(('sd_rand2', name), lambda: im.calc_sig_dur(asig, start=s, end=e), sigs=(asig,))
                for k in range(3):
                    f = ims[(ir + 7 * k) % len(ims)]
                    fname = getattr(f, '__name__', 'none')
                    for se in (False, True):
                        R.run(('sd_im', name, fname, se),
                              lambda: im.calc_sig_dur(asig, start=s, end=e, im=f, se=se), watch=(vals,), sigs=(asig,))
                if ir % 9 == 0:
                    s2, e2 = typed_fraction_pairs()[(ir // 9) % len(tfp)]
                    R.run(('sd_typedfrac', name), lambda: im.calc_sig_dur(asig, s2, e2, se=True))
                    for f in ims:
                        fname = getattr(f, '__name__', 'none')
                        R.run(('sd_im_all', name, fname), lambda: im.calc_sig_dur(asig, 0.1, 0.9, im=f, se=True),
                              sigs=(asig,))
                    R.run(('sd_im_notcallable', name), lambda: im.calc_sig_dur(asig, im=5))
                    R.run(('sd_on_array', name), lambda: im.calc_sig_dur(arr))
                    R.run(('sd_on_none', name), lambda: im.calc_sig_dur(None))

                # --- bracketed duration
                absv = np.abs(np.asarray(vals))
                thr = [0, 0.0, -1.0, 0.5, 1.0, float('nan'), float('inf'), np.float32(0.3), np.int64(1), True, 1e-300]
                if absv.size and absv.dtype.kind in 'fiub':
                    with warnings.catch_warnings():
                        warnings.simplefilter('ignore')
                        srt = np.sort(absv.astype(float))
                    thr += [srt[-1], srt[0], srt[len(srt) // 2], srt[-1] * 0.999, np.nextafter(srt[-1], np.inf),
                            np.nextafter(srt[-1], -np.inf), srt[int(rng.integers(0, len(srt)))],
                            float(rng.random()) * srt[-1] if np.isfinite(srt[-1]) else 1.0]
                for it, th in enumerate(thr):
                    for se in ((False, True) if (it + ir) % 3 == 0 else (bool((it + ir) % 2),)):
                        R.run(('bd', name, it, se), lambda: im.calc_brac_dur(asig, th, se=se), watch=(vals,), sigs=(asig,))
                if ir % 6 == 0:
                    R.run(('bd_pos_se', name), lambda: im.calc_brac_dur(asig, 0.2, 1))
                    R.run(('bd_none', name), lambda: im.calc_brac_dur(asig, None))
                    R.run(('bd_str', name), lambda: im.calc_brac_dur(asig, 'a'))
                    R.run(('bd_complex', name), lambda: im.calc_brac_dur(asig, 1j))
                    tarr = rng.random(absv.shape)
                    R.run(('bd_arrthr', name), lambda: im.calc_brac_dur(asig, tarr, se=True), watch=(tarr,))
                    R.run(('bd_arrthr1', name), lambda: im.calc_brac_dur(asig, np.array([0.3]), se=True))
                    R.run(('bd_arrthr0d', name), lambda: im.calc_brac_dur(asig, np.array(0.3), se=False))
                    R.run(('bd_listthr', name), lambda: im.calc_brac_dur(asig, [0.3], se=False))
                    R.run(('bd_deprecated', name), lambda: im.calc_bracketed_duration(asig, 0.3))
                    R.run(('bd_on_array', name), lambda: im.calc_brac_dur(arr, 0.3))
                    R.run(('acc_rms', name), lambda: im.calc_acc_rms(asig, 0.3))
                    R.run(('sir', name), lambda: im.calc_sir(asig))

                # --- histories of public operations, then re-evaluation (no stale state)
                if arr.size >= 2 and arr.dtype.kind == 'f' and ir % 2 == 0:
                    hist = [
                        ('add_constant', lambda: asig.add_constant(0.3)),
                        ('sd', lambda: im.calc_sig_dur(asig, se=True)),
                        ('bd', lambda: im.calc_brac_dur(asig, 0.4, se=True)),
                        ('inplace', lambda: vals.__setitem__(0, 7.5)),
                        ('sd', lambda: im.calc_sig_dur(asig, 0.1, 0.9, se=True)),
                        ('bd', lambda: im.calc_brac_dur(asig, 0.4, se=True)),
                        ('inplace_public', lambda: asig.values.__setitem__(-1, -9.0)),
                        ('sd', lambda: im.calc_sig_dur(asig, 0.1, 0.9, se=True)),
                        ('bd', lambda: im.calc_brac_dur(asig, 8.0, se=True)),
                        ('reset_values', lambda: asig.reset_values(np.concatenate([np.zeros(3), arr * 2.0]))),
                        ('sd', lambda: im.calc_sig_dur(asig, se=True)),
                        ('sd_cav', lambda: im.calc_sig_dur(asig, im=im.calc_cav, se=True)),
                        ('bd', lambda: im.calc_brac_dur(asig, 0.4, se=True)),
                        ('bd0', lambda: im.calc_brac_dur(asig, 0)),
                        ('velocity', lambda: asig.velocity.sum()),
                        ('remove_average', lambda: asig.remove_average()),
                        ('sd_isv', lambda: im.calc_sig_dur(asig, im=im.calc_isv, se=True)),
                        ('sd', lambda: im.calc_sig_dur(asig, se=False)),
                        ('bd', lambda: im.calc_brac_dur(asig, 0.1)),
                        ('rebase', lambda: asig.rebase_displacement()),
                        ('sd', lambda: im.calc_sig_dur(asig, 0.2, 0.7, se=True)),
                        ('bd', lambda: im.calc_brac_dur(asig, 0.1, se=True)),
                        ('reset_short', lambda: asig.reset_values([0.0, 1.0])),
                        ('sd', lambda: im.calc_sig_dur(asig, 0.2, 0.7, se=True)),
                        ('bd', lambda: im.calc_brac_dur(asig, 0.1, se=True)),
                        ('reset_int', lambda: asig.reset_values([0, 3, -4, 1, 0, 0])),
                        ('sd', lambda: im.calc_sig_dur(asig, 0.0, 1.0, se=True)),
                        ('bd', lambda: im.calc_brac_dur(asig, 3, se=True)),
                        ('reset_empty', lambda: asig.reset_values([])),
                        ('sd', lambda: im.calc_sig_dur(asig, se=True)),
                        ('bd', lambda: im.calc_brac_dur(asig, 0.0, se=True)),
                    ]
                    for ih, (hname, hf) in enumerate(hist):
                        R.run(('hist', name, ih, hname), hf, sigs=(asig,))

            # --- deprecated AccSignal.generate_duration_stats (both phases)
            if ir % 2 == 0 or phase == 'numpy_with_trapz':
                holder2 = {}

                def build2():
                    holder2['a'] = eqsig.AccSignal(arr * 1 if arr.dtype.kind != 'b' else arr, dt)
                R.run(('build2', phase, name), build2)
                if 'a' in holder2:
                    a2 = holder2['a']
                    R.run(('gds', phase, name), lambda: a2.generate_duration_stats(), sigs=(a2,))
                    R.run(('gds_again', phase, name), lambda: a2.generate_duration_stats(), sigs=(a2,))
                    if a2.npts:
                        R.run(('gds_scale', phase, name), lambda: a2.reset_values(a2.values * 0.01), sigs=(a2,))
                        R.run(('gds_scaled', phase, name), lambda: a2.generate_duration_stats(), sigs=(a2,))
                        R.run(('gds_scale2', phase, name), lambda: a2.reset_values(a2.values * 30), sigs=(a2,))
                        R.run(('gams', phase, name), lambda: a2.generate_all_motion_stats(), sigs=(a2,))
                        R.run(('accrms', phase, name), lambda: im.calc_acc_rms(a2, 0.098), sigs=(a2,))

        # records with controlled amplitudes around the 0.01g/0.05g/0.1g levels of generate_duration_stats
        for k in range(150):
            n = int(rng.integers(1, 40))
            lev = rng.choice([0.0, 0.05, 0.098, 0.0981, 0.3, 0.49, 0.4901, 0.7, 0.98, 0.9801, 1.5], n)
            arr = lev * rng.choice([-1.0, 1.0], n)
            a3 = eqsig.AccSignal(arr, 0.02)
            R.run(('gds_lev', phase, k), lambda: a3.generate_duration_stats(), sigs=(a3,))
            if phase == 'numpy_as_is':
                for th in (0.0, 0.05, 0.098, 0.49, 0.98, 1.5, 2.0):
                    R.run(('bd_lev', k, th), lambda: im.calc_brac_dur(a3, th, se=True), sigs=(a3,))
                    R.run(('bd_lev_d', k, th), lambda: im.calc_brac_dur(a3, th), sigs=(a3,))

    # a real record from the test-suite data, if present in the checkout
    try:
        here = os.getcwd()
        rec = np.loadtxt(os.path.join(here, 'tests', 'unit_test_data', 'test_motion_dt0p01.txt'), skiprows=2)
        asig = eqsig.AccSignal(rec, 0.01)
        for s, e in FRACTIONS:
            R.run(('real_sd', s, e), lambda: im.calc_sig_dur(asig, s, e, se=True))
            R.run(('real_sdv', s, e), lambda: im.calc_sig_dur_vals(rec, 0.01, s, e, se=True))
            R.run(('real_sd_cav', s, e), lambda: im.calc_sig_dur(asig, s, e, im=im.calc_cav))
        for th in np.linspace(0, 2.5, 60):
            R.run(('real_bd', th), lambda: im.calc_brac_dur(asig, th, se=True))
            R.run(('real_bd_d', th), lambda: im.calc_brac_dur(asig, th))
        R.run(('real_gds',), lambda: asig.generate_duration_stats(), sigs=(asig,))
    except OSError as e:
        R.out.append((('real', 'unavailable'), str(type(e)), (), (), ()))

    with open(out_path, 'wb') as f:
        pickle.dump(R.out, f, protocol=2)


# --------------------------------------------------------------------------------------
# driver part
# --------------------------------------------------------------------------------------

def main():
    cwd = os.getcwd()
    assert os.path.isdir(os.path.join(cwd, 'eqsig')), 'run with cwd = worktree'
    tmp = tempfile.mkdtemp(prefix='eqsig_orig_')
    try:
        tar_bytes = subprocess.check_output(['git', 'archive', 'HEAD', 'eqsig'], cwd=cwd)
        with tarfile.open(fileobj=io.BytesIO(tar_bytes)) as tf:
            tf.extractall(tmp)
        outs = {}
        procs = []
        for label, root in (('orig', tmp), ('edit', cwd)):
            env = dict(os.environ)
            env['PYTHONPATH'] = root
            env['PYTHONHASHSEED'] = '0'
            env['PYTHONDONTWRITEBYTECODE'] = '1'
            outp = os.path.join(tmp, 'res_%s.pkl' % label)
            p = subprocess.Popen([sys.executable, os.path.abspath(__file__), '--worker', outp, root],
                                 env=env, cwd=cwd)
            procs.append((label, p, outp))
        for label, p, outp in procs:
            rc = p.wait()
            if rc != 0:
                print('worker %s failed with exit status %i' % (label, rc))
                return 2
            with open(outp, 'rb') as f:
                outs[label] = pickle.load(f)
        a, b = outs['orig'], outs['edit']
        nbad = 0
        if len(a) != len(b):
            print('different number of cases: %i vs %i' % (len(a), len(b)))
            nbad += 1
        for x, y in zip(a, b):
            if x != y:
                nbad += 1
                if nbad <= 15:
                    print('MISMATCH in case %r' % (x[0],))
                    for nm, u, v in zip(('id', 'result', 'warnings', 'args_after', 'state_after'), x, y):
                        if u != v:
                            print('   %s:\n      orig: %s\n      edit: %s' % (nm, repr(u)[:400], repr(v)[:400]))
        kinds = {}
        for x in a:
            k = kinds.setdefault(str(x[0][0]), [0, 0])
            k[0 if x[1][0] == 'ok' else 1] += 1
        print('cases by kind (value/exception): ' + ', '.join('%s %i/%i' % (k, v[0], v[1]) for k, v in sorted(kinds.items())))
        n_ok = sum(1 for x in a if x[1][0] == 'ok')
        print('%s: %i cases compared (%i returning a value, %i raising in the original); %i mismatches'
              % (FOCUS, len(a), n_ok, len(a) - n_ok, nbad))
        return 0 if nbad == 0 else 1
    finally:
        import shutil
        shutil.rmtree(tmp, ignore_errors=True)


if __name__ == '__main__':
    if len(sys.argv) >= 4 and sys.argv[1] == '--worker':
        worker(sys.argv[2], sys.argv[3])
        sys.exit(0)
    sys.exit(main())

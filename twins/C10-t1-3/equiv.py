"""Equivalence check for twin3 (AccSignal.generate_duration_stats in eqsig/single.py: the three copy-pasted
threshold blocks become one loop over (suffix, g-level) that stores its results with setattr).

Run with twin3 applied, cwd = the worktree.  Exit 0 iff the original and the edited functions agree.
"""
import os
import subprocess
import sys
import types
import warnings

HERE = os.getcwd()
sys.path.insert(0, HERE)
warnings.simplefilter("ignore")

import numpy as np  # noqa: E402
import eqsig  # noqa: E402
import eqsig.single as new_single  # noqa: E402

assert eqsig.__file__.startswith(HERE), eqsig.__file__


def load_original(relpath, modname):
    src = subprocess.check_output(["git", "show", "HEAD:" + relpath], cwd=HERE).decode()
    mod = types.ModuleType(modname)
    mod.__package__ = "eqsig"
    mod.__file__ = os.path.join(HERE, relpath)
    exec(compile(src, relpath + "@HEAD", "exec"), mod.__dict__)
    return mod


old_single = load_original("eqsig/single.py", "eqsig._orig_single")
OldAcc, NewAcc = old_single.AccSignal, new_single.AccSignal
assert OldAcc is not NewAcc and NewAcc is eqsig.AccSignal
assert "ind05" in subprocess.check_output(["git", "show", "HEAD:eqsig/single.py"], cwd=HERE).decode()
assert "ind05" not in open(new_single.__file__).read(), "twin3 is not applied"

N_CHECKS = 0


def outcome(fn, *args, **kwargs):
    try:
        return ("ok", fn(*args, **kwargs))
    except Exception as e:  # noqa
        return ("exc", type(e), str(e))


def same_scalar(a, b):
    if type(a) is not type(b):
        return False
    if a is None:
        return True
    a_arr, b_arr = np.asarray(a), np.asarray(b)
    return a_arr.dtype == b_arr.dtype and a_arr.shape == b_arr.shape and a_arr.tobytes() == b_arr.tobytes()


def same(o1, o2):
    if o1[0] != o2[0]:
        return False
    if o1[0] == "exc":
        return o1[1] is o2[1] and o1[2] == o2[2]
    v1, v2 = o1[1], o2[1]
    if isinstance(v1, tuple) or isinstance(v2, tuple):
        return (type(v1) is type(v2) and len(v1) == len(v2)
                and all(same_scalar(x, y) for x, y in zip(v1, v2)))
    return same_scalar(v1, v2)


def check(desc, o1, o2):
    global N_CHECKS
    N_CHECKS += 1
    if not same(o1, o2):
        print("MISMATCH", desc, o1, o2)
        sys.exit(1)


rng = np.random.default_rng(31337)

G = 9.8
DTS = [0.01, 0.005, 0.02, 1.0, 1. / 3, np.float64(0.01), np.float32(0.01), 1, 2]
STAT_NAMES = ["t_b01", "a_rms01", "t_b05", "a_rms05", "t_b10", "a_rms10", "sd_start", "sd_end", "t_595"]


def freeze(v):
    if isinstance(v, np.ndarray):
        return ("nd", str(v.dtype), v.shape, v.tobytes())
    if isinstance(v, np.generic):
        return ("npscalar", type(v).__name__, v.tobytes())
    if isinstance(v, dict):
        return ("dict", tuple((k, freeze(x)) for k, x in sorted(v.items())))
    if isinstance(v, (list, tuple)):
        return (type(v).__name__, tuple(freeze(x) for x in v))
    if isinstance(v, float):
        return ("float", np.float64(v).tobytes())
    return (type(v).__name__, repr(v))


def state_of(asig):
    return [(k, freeze(v)) for k, v in asig.__dict__.items()]  # insertion order is part of the comparison


def run(asig, method, *args):
    """Outcome, warnings and resulting object state of asig.<method>()."""
    with warnings.catch_warnings(record=True) as caught:
        warnings.simplefilter("always")
        o = outcome(getattr(asig, method), *args)
    w = [(x.category, str(x.message)) for x in caught]
    return o, w, state_of(asig)


def compare(desc, a_old, a_new, method, *args):
    global N_CHECKS
    o1, w1, s1 = run(a_old, method, *args)
    o2, w2, s2 = run(a_new, method, *args)
    check(desc, o1, o2)
    N_CHECKS += 2
    if w1 != w2:
        print("WARNINGS DIFFER", desc, w1, w2)
        sys.exit(1)
    if s1 != s2:
        print("STATE DIFFERS", desc)
        for (k1, v1), (k2, v2) in zip(s1, s2):
            if (k1, v1) != (k2, v2):
                print("  ", k1, v1[:2], k2, v2[:2])
        print([k for k, _ in s1], [k for k, _ in s2])
        sys.exit(1)
    return o1


def records():
    recs = []
    # amplitudes chosen so that none / some / all of the 0.01g, 0.05g, 0.10g levels are exceeded
    for n in (1, 2, 3, 5, 8, 17, 100, 1000, 4096):
        for amp in (1e-6, 0.03, 0.09, 0.2, 0.45, 0.6, 1.0, 3.0, 9.8, 1e3):
            recs.append(rng.standard_normal(n) * amp)
    for n in (50, 300, 2500):
        t = np.arange(n) / n
        for amp in (0.08, 0.3, 0.7, 3.0):
            recs.append(np.sin(40 * t) * np.exp(-((t - 0.4) / 0.15) ** 2) * amp)
    base = rng.standard_normal(40)
    for k in (1, 3, 10):
        recs.append(np.concatenate([np.zeros(k), base]))
        recs.append(np.concatenate([base * 0.3, np.zeros(k)]))
    recs.append(np.zeros(10))
    recs.append(np.zeros(1))
    recs.append(np.ones(12))
    recs.append(-np.ones(12) * 0.3)
    # exactly one sample above a level (t_b == 0), exactly two, first and last sample
    for amp in (0.2, 0.6, 2.0):
        spike = rng.standard_normal(20) * 1e-3
        spike[7] = -amp
        recs.append(spike)
        two = rng.standard_normal(20) * 1e-3
        two[3] = amp
        two[15] = -amp
        recs.append(two)
        ends = np.zeros(20)
        ends[0] = amp
        ends[-1] = -amp
        recs.append(ends)
    # samples exactly at the levels (strict comparison)
    recs.append(np.array([0.0, 0.01 * G, 0.05 * G, 0.1 * G, 0.02, 0.0]))
    recs.append(np.array([0.0, 0.098, 0.49, 0.98, -0.98, 0.5, 0.0]))
    recs.append(rng.integers(-5, 6, size=50))
    recs.append(rng.integers(-2, 3, size=50).astype(np.int32))
    recs.append(np.array([0, 1, -2, 3, 0, 0, 1]))
    recs.append(rng.standard_normal(64).astype(np.float32))
    recs.append(rng.standard_normal(200)[::3])
    with_nan = rng.standard_normal(20)
    with_nan[5] = np.nan
    recs.append(with_nan)
    return recs


RECORDS = records()


def exercise(tag):
    n_ok = n_exc = 0
    for i, rec in enumerate(RECORDS):
        for dt in (DTS if i % 6 == 0 else DTS[:3]):
            a_old, a_new = OldAcc(rec.copy(), dt), NewAcc(rec.copy(), dt)
            assert state_of(a_old) == state_of(a_new)
            o = compare((tag, "dur", i, dt), a_old, a_new, "generate_duration_stats")
            n_ok += o[0] == "ok"
            n_exc += o[0] == "exc"
            assert a_old.values.tobytes() == rec.tobytes() and a_new.values.tobytes() == rec.tobytes()
            # every statistic that exists is the same object type / value (also covered by the state comparison)
            for name in STAT_NAMES:
                assert hasattr(a_old, name) == hasattr(a_new, name), (tag, i, name)
                if hasattr(a_old, name):
                    assert same_scalar(getattr(a_old, name), getattr(a_new, name)), (tag, i, name)
            # history: run twice, reset, run through generate_all_motion_stats, new values, run again
            compare((tag, "dur-again", i, dt), a_old, a_new, "generate_duration_stats")
            compare((tag, "reset", i, dt), a_old, a_new, "reset_all_motion_stats")
            compare((tag, "all", i, dt), a_old, a_new, "generate_all_motion_stats")
            nv = np.concatenate([np.zeros(3), rec[::-1] * 0.37])
            compare((tag, "reset_values", i, dt), a_old, a_new, "reset_values", nv)
            compare((tag, "dur-after-reset_values", i, dt), a_old, a_new, "generate_duration_stats")
            compare((tag, "cumulative", i, dt), a_old, a_new, "generate_cumulative_stats")
    # records given as lists / tuples
    for vals in ([0.0, 0.5, -2.0, 0.1, 0.0], (0.0, 0.5, -2.0, 0.1), [0, 3, -2, 0, 1], [0.0], [0.0, 0.0], [0.2, 0.0]):
        a_old, a_new = OldAcc(vals, 0.01), NewAcc(vals, 0.01)
        compare((tag, "list", vals), a_old, a_new, "generate_duration_stats")
    # empty record
    a_old, a_new = OldAcc([], 0.01), NewAcc([], 0.01)
    compare((tag, "empty"), a_old, a_new, "generate_duration_stats")
    return n_ok, n_exc


# 1) the environment as it is (this NumPy may not provide np.trapz any more: then the method fails part-way and
#    the partially written state has to be the same)
had_trapz = hasattr(np, "trapz")
ok_a, exc_a = exercise("native")

# 2) with np.trapz available (alias of np.trapezoid) so that the full computation is compared as well
if not had_trapz:
    np.trapz = np.trapezoid
    try:
        ok_b, exc_b = exercise("with-trapz")
    finally:
        del np.trapz
else:
    ok_b, exc_b = ok_a, exc_a
assert ok_b > 100, ok_b  # the complete path really was exercised

print("equiv3: %d comparisons, all identical (native: %d ok / %d raising; with np.trapz: %d ok / %d raising)"
      % (N_CHECKS, ok_a, exc_a, ok_b, exc_b))
sys.exit(0)

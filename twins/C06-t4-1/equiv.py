"""
Equivalence check for twin1 (max_fa_period tidy-up + Signal.fa_spectrum_abs reuses Signal.fa_spectrum).

Run with twin1 applied, cwd = worktree:   /venv/bin/python out/equiv1.py
The same scenario script is executed in two subprocesses, one importing the ORIGINAL package
(extracted from git HEAD into a temp dir) and one importing the edited worktree; the pickled
results are compared bit-for-bit (dtype, shape, bytes), including object state and argument mutation.
"""
import os
import pickle
import shutil
import subprocess
import sys
import tempfile
import warnings

import numpy as np

WORKTREE = os.path.dirname(os.path.dirname(os.path.abspath(__file__)))


# ----------------------------------------------------------------------------- worker side
def snap(x):
    """Make a picklable, exactly comparable snapshot of a value"""
    if isinstance(x, np.ndarray):
        return ('nd', str(x.dtype), x.shape, x.tobytes())
    if isinstance(x, np.generic):
        return ('npscalar', type(x).__name__, np.asarray(x).tobytes())
    if isinstance(x, (list, tuple)):
        return (type(x).__name__, [snap(v) for v in x])
    if isinstance(x, (bool, int, float, complex, str, type(None))):
        return (type(x).__name__, repr(x))
    return ('obj', type(x).__name__)


def state(sig):
    return {k: snap(getattr(sig, k)) for k in ('_cached_fa', '_fa_spectrum', '_fa_freqs', '_npts', '_dt', '_values',
                                               '_cached_smooth_fa')}


def call(fn, *args, **kwargs):
    with warnings.catch_warnings(record=True) as ws:
        warnings.simplefilter('always')
        try:
            out = ('ok', snap(fn(*args, **kwargs)))
        except Exception as e:  # noqa
            out = ('exc', type(e).__name__, str(e))
    return out, sorted((w.category.__name__, str(w.message)) for w in ws)


def records():
    rng = np.random.RandomState(606)
    recs = []
    for npts in [2, 3, 4, 5, 7, 8, 9, 15, 16, 17, 31, 32, 33, 63, 64, 100, 127, 128, 129, 255, 256, 257, 500, 1000,
                 1024, 1025, 2049]:
        recs.append(('randn%d' % npts, rng.randn(npts)))
    for npts in [2, 3, 6, 8, 50, 64]:
        recs.append(('zeros%d' % npts, np.zeros(npts)))
        recs.append(('ones%d' % npts, np.ones(npts)))
        recs.append(('int%d' % npts, rng.randint(-5, 6, size=npts)))
        recs.append(('list%d' % npts, list(rng.randn(npts))))
        recs.append(('intlist%d' % npts, [int(v) for v in rng.randint(-3, 4, size=npts)]))
        d = np.zeros(npts)
        d[0] = 1.0
        recs.append(('delta%d' % npts, d))
    for npts, f in [(64, 3.0), (100, 1.7), (333, 0.4), (512, 11.0)]:
        t = np.arange(npts) * 0.01
        recs.append(('sine%d' % npts, np.sin(2 * np.pi * f * t)))
        recs.append(('cos+tie%d' % npts, np.cos(2 * np.pi * f * t) + np.cos(2 * np.pi * 2 * f * t)))
        recs.append(('f32sine%d' % npts, np.sin(2 * np.pi * f * t).astype(np.float32)))
    for i in range(40):
        npts = int(rng.randint(2, 700))
        recs.append(('rand_%d_%d' % (i, npts), rng.randn(npts) * 10 ** rng.uniform(-3, 3)))
    return recs


class Duck(object):
    def __init__(self, fa_spectrum, fa_frequencies):
        self.fa_spectrum = fa_spectrum
        self.fa_frequencies = fa_frequencies


def worker(out_path):
    sys.path.insert(0, os.getcwd())
    import eqsig
    from eqsig import im
    res = {'__file__': os.path.dirname(eqsig.__file__)}
    dts = [0.01, 0.005, 1.0, 0.02, 1. / 3, 2, 1e-4]
    k = 0
    for name, vals in records():
        for cls in (eqsig.Signal, eqsig.AccSignal):
            k += 1
            dt = dts[k % len(dts)]
            key = (name, cls.__name__, dt)
            keep = pickle.dumps(vals)
            log = []
            # 1. dominant period on a fresh object (triggers the cache)
            s = cls(vals, dt)
            log.append(('mfp_fresh', call(im.max_fa_period, s), state(s)))
            log.append(('mfp_again', call(im.max_fa_period, s), state(s)))
            # 2. abs spectrum on a fresh object (triggers the cache)
            s = cls(vals, dt)
            log.append(('abs_fresh', call(lambda: s.fa_spectrum_abs), state(s)))
            log.append(('abs_again', call(lambda: s.fa_spectrum_abs), state(s)))
            log.append(('spec', call(lambda: s.fa_spectrum), call(lambda: s.fa_freqs),
                        call(lambda: s.fa_frequencies), state(s)))
            # 3. multi-step history: other paddings, explicit n, reset_values, clear_cache
            for p2 in (0, 1, 2, 3):
                log.append(('gen_p2_%d' % p2, call(s.gen_fa_spectrum, p2_plus=p2), state(s)))
                log.append(('abs', call(lambda: s.fa_spectrum_abs)))
                log.append(('mfp', call(im.max_fa_period, s), state(s)))
            for n in (len(vals), len(vals) + 1, 2 * len(vals) + 3, 64, 2, 1, max(len(vals) // 2, 1)):
                log.append(('gen_n_%d' % n, call(s.gen_fa_spectrum, n=n), state(s)))
                log.append(('abs', call(lambda: s.fa_spectrum_abs)))
                log.append(('mfp', call(im.max_fa_period, s), state(s)))
            new_vals = np.asarray(vals, dtype=float)[::-1] * 2.0 + 0.25
            s.reset_values(new_vals)
            log.append(('after_reset_state', state(s)))
            log.append(('abs_after_reset', call(lambda: s.fa_spectrum_abs), state(s)))
            s.reset_values(np.append(new_vals, [1.0, -2.0, 0.5]))
            log.append(('mfp_after_reset', call(im.max_fa_period, s), state(s)))
            s.clear_cache()
            log.append(('mfp_after_clear', call(im.max_fa_period, s), state(s)))
            s.clear_cache()
            log.append(('abs_after_clear', call(lambda: s.fa_spectrum_abs), state(s)))
            # the abs spectrum must be a fresh array (not the cache) - mutate and re-read
            a = s.fa_spectrum_abs
            a[...] = -1.0
            log.append(('abs_is_fresh', call(lambda: s.fa_spectrum_abs), state(s)))
            # argument not mutated
            log.append(('arg_unchanged', pickle.dumps(vals) == keep))
            res[key] = log
    # duck-typed inputs of the module-level function
    rng = np.random.RandomState(7)
    for i in range(30):
        m = int(rng.randint(1, 40))
        spec = rng.randn(m) + 1j * rng.randn(m)
        freqs = np.arange(m) / (2 * m * 0.01)
        res[('duck', i)] = [call(im.max_fa_period, Duck(spec, freqs)),
                            call(im.max_fa_period, Duck(list(spec), list(freqs))),
                            call(im.max_fa_period, Duck(spec[1:], freqs[1:])),
                            call(im.max_fa_period, Duck(np.abs(spec), freqs))]
    res[('duck', 'empty')] = [call(im.max_fa_period, Duck(np.zeros(0, dtype=complex), np.zeros(0)))]
    res[('duck', 'ties')] = [call(im.max_fa_period, Duck(np.array([0, 3 + 4j, 5, -5j, 4 - 3j]), np.arange(5) / 7.))]
    with open(out_path, 'wb') as f:
        pickle.dump(res, f)


# ----------------------------------------------------------------------------- driver side
def main():
    tmp = tempfile.mkdtemp(prefix='c06_equiv1_', dir='/tmp')
    try:
        orig = os.path.join(tmp, 'orig')
        os.makedirs(orig)
        subprocess.check_call('git archive HEAD eqsig | tar -x -C %s' % orig, shell=True, cwd=WORKTREE)
        outs = {}
        for tag, cwd in (('orig', orig), ('edit', WORKTREE)):
            out_path = os.path.join(tmp, tag + '.pkl')
            env = dict(os.environ)
            env.pop('PYTHONPATH', None)
            subprocess.check_call([sys.executable, os.path.abspath(__file__), '--worker', out_path], cwd=cwd, env=env)
            with open(out_path, 'rb') as f:
                outs[tag] = pickle.load(f)
        assert outs['orig'].pop('__file__').startswith(orig), 'original package not imported from the archive'
        assert outs['edit'].pop('__file__').startswith(WORKTREE), 'edited package not imported from the worktree'
        assert outs['orig'].keys() == outs['edit'].keys()
        bad = 0
        n_items = 0
        for key in outs['orig']:
            lo, le = outs['orig'][key], outs['edit'][key]
            assert len(lo) == len(le)
            for a, b in zip(lo, le):
                n_items += 1
                if a != b:
                    bad += 1
                    if bad < 10:
                        print('MISMATCH', key, a[0] if isinstance(a, tuple) else a)
        print('compared %d scenarios, %d steps, %d mismatches' % (len(outs['orig']), n_items, bad))
        return 1 if bad else 0
    finally:
        shutil.rmtree(tmp, ignore_errors=True)


if __name__ == '__main__':
    if len(sys.argv) == 3 and sys.argv[1] == '--worker':
        worker(sys.argv[2])
    else:
        sys.exit(main())

"""Equivalence check for twin (run WITH the twin applied, cwd = the worktree).

The same deterministic battery of calls is executed in two sub-processes - one importing the
ORIGINAL package (extracted from git HEAD into a temporary directory) and one importing the
EDITED package from the worktree.  Every outcome (returned arrays incl. dtype/shape/bytes,
object state, argument mutation, exceptions) is recorded and the two recordings are compared.
Exit code 0 iff everything matches.
"""
import os
import pickle
import shutil
import subprocess
import sys
import tempfile

TWIN = 2
HERE = os.path.dirname(os.path.abspath(__file__))
WORKTREE = os.path.dirname(HERE)


# --------------------------------------------------------------------------------------
# worker: runs inside a subprocess with the package root as argv[2]
# --------------------------------------------------------------------------------------
def worker(pkg_root, out_file):
    sys.path.insert(0, pkg_root)
    import numpy as np
    import warnings
    warnings.simplefilter('ignore')
    import eqsig
    assert os.path.abspath(eqsig.__file__).startswith(os.path.abspath(pkg_root) + os.sep), eqsig.__file__
    from eqsig.fns import frequency as fq
    from eqsig import im

    rec = []  # list of (label, payload)

    def enc(x):
        """Encode a result so that comparison is bit-exact and type-exact."""
        if isinstance(x, np.ndarray):
            return ('nd', str(x.dtype), x.shape, np.ascontiguousarray(x).tobytes())
        if isinstance(x, np.generic):
            return ('npscalar', type(x).__name__, np.asarray(x).tobytes())
        if isinstance(x, (tuple, list)):
            return (type(x).__name__, [enc(v) for v in x])
        if isinstance(x, dict):
            return ('dict', sorted((k, enc(v)) for k, v in x.items()))
        if isinstance(x, (eqsig.Signal,)):
            return ('sig', type(x).__name__, enc(x.values), enc(x.dt), enc(x.npts), state(x))
        if isinstance(x, (bool, int, float, complex, str, type(None))):
            return (type(x).__name__, repr(x))
        return ('other', type(x).__name__, repr(x))

    def state(s):
        keys = ['_fa_spectrum', '_fa_freqs', '_cached_fa', '_cached_smooth_fa', '_npts', '_dt',
                '_cached_response_spectra', '_cached_disp_and_velo']
        d = {}
        for k in keys:
            if hasattr(s, k):
                d[k] = enc(getattr(s, k))
        d['inst_keys'] = enc(sorted(s.__dict__.keys()))
        d['values'] = enc(s._values)
        return ('state', sorted(d.items()))

    def call(label, fn, *a, **k):
        try:
            r = fn(*a, **k)
            rec.append((label, ('ok', enc(r))))
            return r
        except Exception as e:  # noqa
            rec.append((label, ('exc', type(e).__name__, str(e))))
            return None

    rng = np.random.RandomState(20240606)
    lengths = [2, 3, 4, 5, 6, 7, 8, 9, 15, 16, 17, 31, 32, 33, 63, 64, 65, 100, 127, 128, 129, 255, 256, 257,
               511, 512, 513, 1000, 1023, 1024, 1025, 2047, 2048, 2049, 4096, 4097, 8191, 8192, 8193,
               16384, 16385, 32768, 32769, 65536, 65537]
    lengths += [int(v) for v in rng.randint(2, 6000, size=25)]
    dts = [0.01, 0.005, 0.02, 1.0, 0.1, 1.0 / 3, 0.0078125, 0.004, 2.5, 1e-3]
    classes = [eqsig.Signal, eqsig.AccSignal]

    def make_values(kind, npts):
        if kind == 'rand':
            return rng.randn(npts)
        if kind == 'list':
            return [float(v) for v in rng.randn(npts)]
        if kind == 'int':
            return rng.randint(-50, 50, size=npts)
        if kind == 'intlist':
            return [int(v) for v in rng.randint(-50, 50, size=npts)]
        if kind == 'zeros':
            return np.zeros(npts)
        if kind == 'const':
            return np.full(npts, 3.25)
        if kind == 'sine':
            return np.sin(np.arange(npts) * 0.37) * 2.0 + 0.1
        if kind == 'trail0':
            v = rng.randn(npts)
            v[npts // 2:] = 0.0
            return v
        if kind == 'f32':
            return rng.randn(npts).astype(np.float32)
        raise ValueError(kind)

    kinds = ['rand', 'list', 'int', 'intlist', 'zeros', 'const', 'sine', 'trail0', 'f32']

    ci = 0
    for npts in lengths:
        big = npts > 9000
        for kind in (['rand'] if big else (kinds if npts <= 600 else ['rand', 'int', 'trail0', 'list'])):
            ci += 1
            dt = dts[ci % len(dts)]
            cls = classes[ci % 2]
            vals = make_values(kind, npts)
            keep = np.array(vals).copy()
            tag = 'L%d/%s/%s/dt%r' % (npts, kind, cls.__name__, dt)

            # ---- object level, default path through the lazy properties
            s = call(tag + ':ctor', cls, vals, dt)
            rec.append((tag + ':state0', state(s)))
            call(tag + ':fa_spectrum', lambda: s.fa_spectrum)
            call(tag + ':fa_freqs', lambda: s.fa_freqs)
            call(tag + ':fa_frequencies', lambda: s.fa_frequencies)
            call(tag + ':fa_spectrum_abs', lambda: s.fa_spectrum_abs)
            rec.append((tag + ':state1', state(s)))
            rec.append((tag + ':args_unchanged', enc(bool(np.array_equal(np.array(vals), keep)))))
            # identity / aliasing facts about the stored arrays
            rec.append((tag + ':alias', enc([s._fa_spectrum.base is None, s._fa_freqs.base is None,
                                             s._fa_spectrum.flags['C_CONTIGUOUS'], s._fa_spectrum.flags['OWNDATA'],
                                             s._fa_spectrum.flags['WRITEABLE']])))

            # ---- explicit generation, every option combination
            for p2 in ([0, 1, 2, 3] if not big else [0, 1]):
                call(tag + ':gen(p2=%d)' % p2, s.gen_fa_spectrum, p2)
                rec.append((tag + ':state(p2=%d)' % p2, state(s)))
                call(tag + ':gen(p2_plus=%d kw)' % p2, s.gen_fa_spectrum, p2_plus=p2)
                rec.append((tag + ':statekw(p2=%d)' % p2, state(s)))
            n_opts = [npts, npts + 1, npts + 3, 2 * npts, 2 * npts + 1, max(npts - 1, 1), max(npts // 2, 1), 1, 2, 3,
                      np.int64(2 * npts), np.int32(npts + 2), 2 ** int(np.ceil(np.log2(npts))) * 4]
            if big:
                n_opts = [npts, npts + 1, 2 * npts]
            for n in n_opts:
                call(tag + ':gen(n=%r)' % (n,), s.gen_fa_spectrum, n=n)
                rec.append((tag + ':state(n=%r)' % (n,), state(s)))
                call(tag + ':gen(p2=2,n=%r)' % (n,), s.gen_fa_spectrum, 2, n)
                rec.append((tag + ':state(p2=2,n=%r)' % (n,), state(s)))
            if not big:
                call(tag + ':gen(p2=np.int64(1))', s.gen_fa_spectrum, np.int64(1))
                rec.append((tag + ':state(p2=np.int64(1))', state(s)))
                call(tag + ':gen(n=0)', s.gen_fa_spectrum, n=0)
                call(tag + ':gen(n=8.0)', s.gen_fa_spectrum, n=8.0)
                rec.append((tag + ':state-after-bad-n', state(s)))

            # ---- array level functions on a fresh object (and agreement material)
            s2 = cls(vals, dt)
            call(tag + ':calc()', fq.calc_fa_spectrum, s2)
            call(tag + ':generate()', fq.generate_fa_spectrum, s2)
            for flag in [True, False, 1, 0, None, 'yes', '']:
                call(tag + ':generate(n_pad=%r)' % (flag,), fq.generate_fa_spectrum, s2, n_pad=flag)
            call(tag + ':generate(pos False)', fq.generate_fa_spectrum, s2, False)
            for p2 in ([0, 1, 2, 3] if not big else [0]):
                call(tag + ':calc(p2_plus=%d)' % p2, fq.calc_fa_spectrum, s2, p2_plus=p2)
                call(tag + ':calc(n=None,p2_plus=%d)' % p2, fq.calc_fa_spectrum, s2, None, p2)
            for n in n_opts:
                call(tag + ':calc(n=%r)' % (n,), fq.calc_fa_spectrum, s2, n=n)
                call(tag + ':calc(n=%r,p2_plus=1)' % (n,), fq.calc_fa_spectrum, s2, n, 1)
            if not big:
                call(tag + ':calc(n=0)', fq.calc_fa_spectrum, s2, n=0)
                call(tag + ':calc(n=8.0)', fq.calc_fa_spectrum, s2, n=8.0)
            rec.append((tag + ':s2 state untouched', state(s2)))

            # ---- dominant period, moments, bandwidth
            s3 = cls(vals, dt)
            call(tag + ':max_fa_period', im.max_fa_period, s3)
            if not big:
                for order in [0, 1, 2, 4]:
                    call(tag + ':moment%d' % order, fq.calc_fourier_moment, s3, order)
                call(tag + ':boore', fq.get_bandwidth_boore_2003, s3)
            rec.append((tag + ':s3 state', state(s3)))

            # ---- inverse helpers
            if not big:
                s4 = cls(vals, dt)
                fas = s4.fa_spectrum
                fas_keep = fas.copy()
                call(tag + ':fas2values', fq.fas2values, fas, dt)
                call(tag + ':fas2values(list)', fq.fas2values, list(fas), dt)
                call(tag + ':fas2signal', fq.fas2signal, fas, dt)
                call(tag + ':fas2signal(acc)', fq.fas2signal, fas, dt, stype='acc')
                call(tag + ':fas2signal(pos)', fq.fas2signal, fas, dt, 'signal')
                rec.append((tag + ':fas unchanged', enc(bool(fas.tobytes() == fas_keep.tobytes()))))
                for p2 in [1, 2]:
                    s4.gen_fa_spectrum(p2)
                    call(tag + ':fas2values(p2=%d)' % p2, fq.fas2values, s4.fa_spectrum, dt)
                s4.gen_fa_spectrum(n=npts + 1 + (npts % 2))  # an even, non power-of-two length
                call(tag + ':fas2values(n even)', fq.fas2values, s4.fa_spectrum, dt)
                call(tag + ':fas2signal(n even)', fq.fas2signal, s4.fa_spectrum, dt, 'x')

            # ---- multi-step history on one object
            if not big and npts >= 4:
                h = cls(vals, dt)
                call(tag + ':h1 fa', lambda: h.fa_spectrum)
                call(tag + ':h add_constant', h.add_constant, 0.5)
                rec.append((tag + ':h state a', state(h)))
                call(tag + ':h2 freqs', lambda: h.fa_freqs)
                call(tag + ':h2 fa', lambda: h.fa_spectrum)
                call(tag + ':h gen p2=1', h.gen_fa_spectrum, 1)
                call(tag + ':h reset', h.reset_values, list(np.array(vals)[: max(2, npts // 2 + 1)]))
                rec.append((tag + ':h state b', state(h)))
                call(tag + ':h3 fa', lambda: h.fa_spectrum)
                call(tag + ':h3 freqs', lambda: h.fa_freqs)
                call(tag + ':h remove_average', h.remove_average)
                call(tag + ':h gen n', h.gen_fa_spectrum, n=2 * npts)
                call(tag + ':h max period', im.max_fa_period, h)
                call(tag + ':h smooth', lambda: h.smooth_fa_spectrum)
                call(tag + ':h clear', h.clear_cache)
                rec.append((tag + ':h state c', state(h)))
                call(tag + ':h4 fa', lambda: h.fa_spectrum)
                call(tag + ':h generate_fa_spectrum', h.generate_fa_spectrum)
                rec.append((tag + ':h state d', state(h)))

    # ---- inverse helpers on free-standing spectra
    for m in [0, 1, 2, 3, 4, 5, 6, 7, 8, 9, 16, 17, 31, 32, 33, 50, 64, 100, 128, 255, 256, 257, 500, 512, 1000, 1024,
              2048, 3000, 4096]:
        for kind in ['c128', 'list', 'real', 'int', 'c64', 'zeros', 'negzero']:
            if kind == 'c128':
                fas = rng.randn(m) + 1j * rng.randn(m)
            elif kind == 'list':
                fas = [complex(a, b) for a, b in zip(rng.randn(m), rng.randn(m))]
            elif kind == 'real':
                fas = rng.randn(m)
            elif kind == 'int':
                fas = rng.randint(-9, 9, size=m)
            elif kind == 'c64':
                fas = (rng.randn(m) + 1j * rng.randn(m)).astype(np.complex64)
            elif kind == 'zeros':
                fas = np.zeros(m, dtype=complex)
            else:
                fas = np.zeros(m, dtype=complex)
                fas[::2] = complex(-0.0, -0.0)
                fas[1::3] = complex(0.0, -2.0)
            keep = np.array(fas).copy()
            for dt in [0.01, 1.0, 1.0 / 3, 0.0078125]:
                tag = 'fas m%d/%s/dt%r' % (m, kind, dt)
                call(tag + ':fas2values', fq.fas2values, fas, dt)
                call(tag + ':fas2signal', fq.fas2signal, fas, dt)
                call(tag + ':fas2signal acc', fq.fas2signal, fas, dt, stype='acc')
                rec.append((tag + ':unchanged', enc(bool(np.array(fas).tobytes() == keep.tobytes()))))

    # ---- padded-length formula on record lengths too large to allocate: a stub with the
    #      attributes the array-level functions read is not used here; instead drive the object
    #      with a zero-stride view so that no memory is needed for the *input*; the FFT output
    #      still has to be allocated, so stay moderate.
    for npts in [2 ** 17, 2 ** 17 + 1, 2 ** 18 - 1, 2 ** 18 + 1]:
        v = np.lib.stride_tricks.as_strided(np.array([1.5]), shape=(npts,), strides=(0,))
        s = eqsig.Signal.__new__(eqsig.Signal)
        s._values = v
        s._npts = npts
        s._dt = 0.01
        call('huge %d gen' % npts, s.gen_fa_spectrum)
        rec.append(('huge %d shape' % npts, enc([s._fa_spectrum.shape, s._fa_freqs.shape,
                                                 s._fa_spectrum[:3], s._fa_freqs[-3:]])))
        call('huge %d calc' % npts, lambda: [x.shape for x in fq.calc_fa_spectrum(s, p2_plus=0)])
        call('huge %d generate' % npts, lambda: [x.shape for x in fq.generate_fa_spectrum(s)])

    with open(out_file, 'wb') as f:
        pickle.dump(rec, f, protocol=pickle.HIGHEST_PROTOCOL)


# --------------------------------------------------------------------------------------
# extra, twin-specific direct checks (run in the parent, no package import needed)
# --------------------------------------------------------------------------------------
def extra_checks():
    import numpy as np
    if TWIN != 1:
        return 0
    # twin 1 replaces  2 ** int(np.ceil(np.log2(npts)) + p)  by  2 ** int((npts - 1).bit_length() + p)
    # and int(n / 2) by int(n) // 2 : check the scalar formulas on a very wide range of lengths.
    bad = 0
    cands = list(range(1, 70000))
    for k in range(1, 53):
        for d in (-3, -2, -1, 0, 1, 2, 3):
            cands.append(2 ** k + d)
    rng = np.random.RandomState(5)
    cands += [int(v) for v in rng.randint(1, 2 ** 62, size=40000) >> rng.randint(0, 50, size=40000)]
    for npts in cands:
        if npts < 1:
            continue
        a = int(np.ceil(np.log2(npts)))
        b = (npts - 1).bit_length()
        if npts <= 2 ** 49 and a != b:   # beyond 2**49, log2(2**k + 1) rounds to k in floating point
            bad += 1
            print('exponent mismatch', npts, a, b)
        for p in (0, 1, 2, 3, 0.5, np.int64(2)):
            if npts <= 2 ** 49:
                x = 2 ** int(np.ceil(np.log2(npts)) + p)
                y = 2 ** int((npts - 1).bit_length() + p)
                if x != y or type(x) is not type(y):
                    bad += 1
                    print('n_factor mismatch', npts, p, x, y)
    for n in list(range(0, 40000)) + [2 ** k + d for k in range(1, 50) for d in (-1, 0, 1)]:
        for nn in (n, np.int64(n), np.int32(n % (2 ** 31 - 1))):
            x = int(nn / 2)
            y = int(nn) // 2
            if x != y or type(x) is not type(y):
                bad += 1
                print('points mismatch', nn, x, y)
    return bad


def main():
    tmp = tempfile.mkdtemp(prefix='twin3_C06_eq%d_' % TWIN, dir='/tmp')
    try:
        orig_root = os.path.join(tmp, 'orig')
        os.makedirs(orig_root)
        subprocess.check_call('git archive HEAD eqsig | tar -x -C %s' % orig_root, shell=True, cwd=WORKTREE)
        outs = {}
        procs = {}
        env = dict(os.environ)
        env.pop('PYTHONPATH', None)
        for name, root in (('orig', orig_root), ('edit', WORKTREE)):
            outs[name] = os.path.join(tmp, name + '.pkl')
            procs[name] = subprocess.Popen([sys.executable, os.path.abspath(__file__), '--worker', root, outs[name]],
                                           cwd=root, env=env)
        for name, p in procs.items():
            if p.wait() != 0:
                print('worker %s failed' % name)
                return 1
        with open(outs['orig'], 'rb') as f:
            a = pickle.load(f)
        with open(outs['edit'], 'rb') as f:
            b = pickle.load(f)
        # make sure the edited package really differs from the original one (twin applied)
        diff = subprocess.call(['diff', '-rq', '-x', '__pycache__', os.path.join(orig_root, 'eqsig'),
                                os.path.join(WORKTREE, 'eqsig')], stdout=subprocess.DEVNULL)
        if diff == 0:
            print('WARNING: edited package is identical to the original (twin not applied?)')
        bad = 0
        if len(a) != len(b):
            print('different number of records', len(a), len(b))
            bad += 1
        n_exc = 0
        for (la, pa), (lb, pb) in zip(a, b):
            if la != lb:
                print('label mismatch', la, lb)
                bad += 1
                continue
            if pa[0] == 'exc':
                n_exc += 1
            if pa != pb:
                bad += 1
                if bad < 30:
                    print('MISMATCH at', la)
                    print('   orig:', str(pa)[:300])
                    print('   edit:', str(pb)[:300])
        bad += extra_checks()
        print('twin %d: compared %d outcomes (%d of them exceptions, identical on both sides), mismatches: %d'
              % (TWIN, len(a), n_exc, bad))
        return 0 if bad == 0 else 1
    finally:
        shutil.rmtree(tmp, ignore_errors=True)


if __name__ == '__main__':
    if len(sys.argv) >= 4 and sys.argv[1] == '--worker':
        worker(sys.argv[2], sys.argv[3])
        sys.exit(0)
    sys.exit(main())

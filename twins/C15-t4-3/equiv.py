"""
Equivalence check for twin3 (transform / transform_w_scipy_fft share private workers,
generate_gaussian built directly in (frequency, shift) layout).

Run with twin3 applied, cwd = the worktree:
    cd /tmp/twin4/C15 && /venv/bin/python out/equiv3.py
Loads the ORIGINAL eqsig/stockwell.py from git HEAD and compares it with the edited one.
"""
import copy
import importlib.util
import os
import subprocess
import sys
import tempfile
import types

WORKTREE = os.getcwd()
sys.path.insert(0, WORKTREE)

import numpy as np  # noqa: E402
import eqsig  # noqa: E402
from eqsig import stockwell as new  # noqa: E402

assert os.path.realpath(eqsig.__file__).startswith(os.path.realpath(WORKTREE)), eqsig.__file__


def load_original():
    tmpdir = tempfile.mkdtemp(prefix="c15_orig_", dir="/tmp")
    subprocess.check_call("git archive HEAD eqsig | tar -x -C %s" % tmpdir, shell=True, cwd=WORKTREE)
    path = os.path.join(tmpdir, "eqsig", "stockwell.py")
    spec = importlib.util.spec_from_file_location("orig_stockwell", path)
    mod = importlib.util.module_from_spec(spec)
    spec.loader.exec_module(mod)
    assert mod.__file__.startswith(tmpdir)
    return mod


orig = load_original()
n_checks = 0


def same(a, b, what):
    """bit-for-bit identical results, incl. type, dtype and shape"""
    global n_checks
    n_checks += 1
    assert type(a) is type(b), (what, type(a), type(b))
    assert a.dtype == b.dtype, (what, a.dtype, b.dtype)
    assert a.shape == b.shape, (what, a.shape, b.shape)
    assert a.tobytes() == b.tobytes(), what


def snapshot(x):
    return x.copy() if isinstance(x, np.ndarray) else copy.deepcopy(x)


def unchanged(x, ref, what):
    if isinstance(ref, np.ndarray):
        assert type(x) is type(ref) and x.dtype == ref.dtype and x.shape == ref.shape, what
        assert x.tobytes() == ref.tobytes(), what
    else:
        assert x == ref, what


def check_transforms(acc, what, slow=False):
    n = len(acc)
    out = {}
    for tname in ("transform", "transform_w_scipy_fft"):
        a_o, a_n = snapshot(acc), snapshot(acc)
        r_o = getattr(orig, tname)(a_o)
        r_n = getattr(new, tname)(a_n)
        same(r_o, r_n, (what, tname))
        assert r_n.shape == (n // 2, 2 * (n // 2)) and r_n.dtype.kind == "c"
        # no effect on the argument (identical in both versions)
        unchanged(a_o, acc, (what, tname, "arg orig"))
        unchanged(a_n, acc, (what, tname, "arg new"))
        # `interp` is accepted and ignored
        same(getattr(orig, tname)(snapshot(acc), interp=True), getattr(new, tname)(snapshot(acc), True),
             (what, tname, "interp"))
        # results are writable and independent of later calls
        keep = r_n.copy()
        r_n2 = getattr(new, tname)(snapshot(acc))
        r_n2[...] = 0
        same(keep, r_n, (what, tname, "independent results"))
        assert r_n.flags.writeable == r_o.flags.writeable
        out[tname] = r_n
        # downstream anchors on the produced transform
        same(orig.itransform(r_o), new.itransform(r_n), (what, tname, "itransform"))
        same(orig.get_max_tifq_vals_freq(r_o, 0.01), new.get_max_tifq_vals_freq(r_n, 0.01), (what, tname, "maxf"))
    if slow:
        for ith in (1, 2, n // 2 - 1):
            if 0 < ith < n // 2:
                same(orig.transform_slow(snapshot(acc), ith=ith), new.transform_slow(snapshot(acc), ith=ith),
                     (what, "slow", ith))
    return out


def check_asig(make, what):
    a_o, a_n = make(), make()
    for i in range(2):  # second call uses the cached transform
        r_o = orig.get_max_stockwell_freq(a_o)
        r_n = new.get_max_stockwell_freq(a_n)
        same(r_o, r_n, (what, "maxf", i))
        do, dn = vars(a_o), vars(a_n)
        assert list(do.keys()) == list(dn.keys()), what
        same(a_o.swtf, a_n.swtf, (what, "swtf state", i))


def records(rng):
    lengths = list(range(4, 140)) + [255, 256, 257, 400, 500, 511, 512, 777, 1000, 1023, 1024]
    for n in lengths:
        t = np.arange(n)
        m = 2 * (n // 2)
        yield "normal", n, rng.standard_normal(n)
        yield "walk", n, np.cumsum(rng.standard_normal(n)) * 1e3
        if n <= 140 or n in (512, 1023):
            yield "int", n, rng.integers(-50, 50, size=n)
            yield "int32", n, rng.integers(-50, 50, size=n).astype(np.int32)
            yield "bool", n, rng.integers(0, 2, size=n).astype(bool)
            yield "zeros", n, np.zeros(n)
            yield "negzeros", n, -np.zeros(n)
            yield "const", n, np.full(n, 3.5)
            yield "tiny", n, rng.standard_normal(n) * 1e-300
            yield "huge", n, rng.standard_normal(n) * 1e150
            yield "f32", n, rng.standard_normal(n).astype(np.float32)
            yield "impulse", n, np.eye(1, n, n // 3)[0]
            yield "list", n, list(rng.standard_normal(n))
            yield "intlist", n, [int(v) for v in rng.integers(-5, 5, size=n)]
            yield "tuple", n, tuple(rng.standard_normal(n))
            yield "strided", n, rng.standard_normal(2 * n)[::2]
            yield "reversed", n, rng.standard_normal(n)[::-1]
            yield "readonly", n, readonly(rng.standard_normal(n))
            for k in sorted({1, 2, max(1, m // 8), max(1, m // 4), max(1, (3 * m) // 8), m // 2}):
                yield "sine%d" % k, n, np.sin(2 * np.pi * k * t / m)


def readonly(a):
    a.flags.writeable = False
    return a


def main():
    rng = np.random.default_rng(1503)

    # --- the Gaussian windows (helper whose internal layout changed)
    for n_d2 in list(range(1, 140)) + [200, 256, 500, 511, 512]:
        g_o, g_n = orig.generate_gaussian(n_d2), new.generate_gaussian(n_d2)
        same(g_o, g_n, ("gaussian", n_d2))
        assert g_n.shape == (n_d2, 2 * n_d2) and g_n.dtype == np.float64
        same(orig.generate_gaussian(np.int64(n_d2)), new.generate_gaussian(np.int64(n_d2)), ("gaussian i64", n_d2))
        # fresh array each call
        g_n[...] = -1.0
        same(g_o, new.generate_gaussian(n_d2), ("gaussian fresh", n_d2))

    # --- the transforms
    for kind, n, acc in records(rng):
        res = check_transforms(acc, (kind, n), slow=(n <= 40))
        if kind == "normal" and n <= 64:
            # linear combinations / scalings go through the same code
            check_transforms(3 * acc, (kind, n, "x3"))
            check_transforms(acc - np.mean(acc), (kind, n, "demeaned"))
        if kind in ("normal", "sine2", "int", "list") and n <= 200:
            dt = [0.01, 0.005, 1, 0.1][n % 4]
            check_asig(lambda: types.SimpleNamespace(values=acc, dt=dt), (kind, n, "ns"))
            if not isinstance(acc, list):
                check_asig(lambda: eqsig.AccSignal(np.array(acc, dtype=float), float(dt)), (kind, n, "AccSignal"))
        del res

    print("equiv3: %d comparisons identical" % n_checks)


if __name__ == "__main__":
    main()

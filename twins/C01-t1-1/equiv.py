"""Equivalence check for twin1 (compute_a_and_b: shared sub-expressions hoisted).

Run with the twin applied, cwd = the worktree.  Exit 0 iff original and edited code agree bit-for-bit.
"""
import os
import subprocess
import sys
import types
import warnings

HERE = os.getcwd()
sys.path.insert(0, HERE)

import numpy as np  # noqa: E402
import eqsig  # noqa: E402
import eqsig.sdof as new_sdof  # noqa: E402

assert os.path.abspath(eqsig.__file__).startswith(HERE), eqsig.__file__


def load_original(relpath, modname):
    src = subprocess.check_output(['git', 'show', 'HEAD:' + relpath], cwd=HERE).decode()
    mod = types.ModuleType(modname)
    mod.__file__ = '<HEAD:%s>' % relpath
    exec(compile(src, mod.__file__, 'exec'), mod.__dict__)
    return mod


old_sdof = load_original('eqsig/sdof.py', 'eqsig_orig_sdof')
assert old_sdof.compute_a_and_b is not new_sdof.compute_a_and_b

N_CHECKS = [0]


def same(x, y, what):
    """bit-for-bit identity (type, dtype, shape, bytes: distinguishes -0.0 / NaN payloads)"""
    N_CHECKS[0] += 1
    assert type(x) is type(y), (what, type(x), type(y))
    if isinstance(x, (tuple, list)):
        assert len(x) == len(y), what
        for k, (p, q) in enumerate(zip(x, y)):
            same(p, q, '%s[%d]' % (what, k))
        return
    if isinstance(x, np.ndarray):
        assert x.dtype == y.dtype, (what, x.dtype, y.dtype)
        assert x.shape == y.shape, (what, x.shape, y.shape)
        assert x.tobytes() == y.tobytes(), (what, np.max(np.abs(x - y)))
        return
    if isinstance(x, (float, np.floating)):
        assert np.float64(x).tobytes() == np.float64(y).tobytes(), (what, x, y)
        return
    assert x == y, (what, x, y)


def call(f, *args):
    """returns ('ok', result) or ('exc', type, text); warnings are recorded, too"""
    with warnings.catch_warnings(record=True) as wlist:
        warnings.simplefilter('always')
        try:
            out = ('ok', f(*args))
        except Exception as e:  # noqa
            out = ('exc', type(e), str(e))
    # a set: a shared term that is evaluated once instead of several times warns once instead of several times
    # (only possible outside the property's domain, e.g. xi == 1)
    return out, sorted(set((w.category.__name__, str(w.message)) for w in wlist))


def compare(fname, make_args, what):
    args_o = make_args()
    args_n = make_args()
    keep = make_args()
    (ro, wo) = call(getattr(old_sdof, fname), *args_o)
    (rn, wn) = call(getattr(new_sdof, fname), *args_n)
    assert ro[0] == rn[0], (what, ro, rn)
    if ro[0] == 'ok':
        same(ro[1], rn[1], what)
    else:
        assert ro[1:] == rn[1:], (what, ro, rn)
    assert wo == wn, (what, wo, wn)
    # arguments untouched (and hence identically "mutated") by both
    for k, (p, q, r) in enumerate(zip(args_o, args_n, keep)):
        same(p, r, what + ' arg%d (orig)' % k)
        same(q, r, what + ' arg%d (new)' % k)


rng = np.random.RandomState(20240101)

# ------------------------------------------------------------------ compute_a_and_b directly
xis = [0.0, 1e-12, 0.001, 0.02, 0.05, 0.1, 0.2, 0.5, 0.7071067811865476, 0.9, 0.99, 0.999999, 1 - 2 ** -53]
xis += list(rng.uniform(0, 1, 12))
dts = [1e-4, 0.001, 0.005, 0.01, 0.02, 0.1, 1.0, 3.7]
for xi in xis:
    for dt in dts:
        # T/dt between 0.2 and 2e4
        ratios = np.concatenate([[0.2, 0.25, 1.0, 2.0, 6.0, 20.0, 2e4], 10 ** rng.uniform(np.log10(0.2), np.log10(2e4), 25)])
        w_arr = 6.2831853 / (ratios * dt)
        for w in (w_arr, w_arr[:1], w_arr[:0], float(w_arr[3]), np.float64(w_arr[5]), w_arr.reshape(4, 8)):
            compare('compute_a_and_b', lambda: (xi, np.copy(w) if isinstance(w, np.ndarray) else w, dt),
                    'compute_a_and_b xi=%r dt=%r' % (xi, dt))
        compare('compute_a_and_b', lambda: (np.float64(xi), w_arr.copy(), np.float64(dt)), 'np.float64 scalars')
        compare('compute_a_and_b', lambda: (np.float32(xi), w_arr.astype(np.float32), np.float32(dt)), 'float32')
# integer / list-like spellings of the arguments
compare('compute_a_and_b', lambda: (0, np.array([1, 2, 3, 50]), 1), 'integer everything')
compare('compute_a_and_b', lambda: (0, 3, 1), 'python ints')
compare('compute_a_and_b', lambda: (0.05, np.array([1, 2, 3, 50]), 0.01), 'integer w array')
compare('compute_a_and_b', lambda: (0.05, 7, 0.01), 'python int w')
compare('compute_a_and_b', lambda: (0.05, [1.0, 2.0], 0.01), 'list w (raises in both)')
# outside the property's domain, still the same
compare('compute_a_and_b', lambda: (1.0, np.array([1.0, 20.0]), 0.01), 'xi=1')
compare('compute_a_and_b', lambda: (1.5, np.array([1.0, 20.0]), 0.01), 'xi>1')
compare('compute_a_and_b', lambda: (0.05, np.array([0.0, np.inf, np.nan, -3.0]), 0.01), 'odd w')
compare('compute_a_and_b', lambda: (0.05, np.array([1.0, 20.0]), 0.0), 'dt=0')

# ------------------------------------------------------------------ through the three entry points


def records():
    yield 'len2', np.array([0.3, -1.2])
    yield 'len2 list', [0.3, -1.2]
    yield 'len3 tuple', (0.0, 1.0, 0.0)
    yield 'zeros', np.zeros(17)
    yield 'int dtype', np.array([0, 3, -2, 5, 7, -11, 0, 1], dtype=np.int64)
    yield 'int32', np.arange(-5, 6, dtype=np.int32)
    yield 'int list', [1, 0, -1, 2]
    yield 'float32', rng.normal(size=33).astype(np.float32)
    yield 'impulse', np.concatenate([[1.0], np.zeros(60)])
    yield 'step', np.ones(41)
    yield 'ramp', np.linspace(0, 5, 50)
    yield 'sine', np.sin(0.1 * np.arange(300)) * 0.01
    yield 'huge', rng.normal(size=64) * 1e12
    yield 'tiny', rng.normal(size=64) * 1e-14
    yield 'neg zeros', -np.zeros(9)
    yield 'noncontig', rng.normal(size=200)[::3]
    for n in (2, 3, 5, 16, 101, 400):
        yield 'rand%d' % n, rng.normal(size=n) * 10 ** rng.uniform(-3, 3)


def period_sets(dt):
    yield np.array([0.2 * dt])
    yield np.array([2e4 * dt])
    yield [1.0 * dt]
    yield (0.0, 0.5 * dt, 7 * dt)
    yield np.array([0.0])
    yield np.array([0.0, 0.2 * dt, dt, 6 * dt, 20 * dt, 2e4 * dt])
    yield np.sort(dt * 10 ** rng.uniform(np.log10(0.2), np.log10(2e4), 9))
    yield dt * 10 ** rng.uniform(np.log10(0.2), np.log10(2e4), 4)  # unsorted
    yield np.array([3, 5, 40]) if dt >= 0.005 else np.array([1, 2])   # integer periods
    yield [0, 1, 2]


for name, rec in records():
    for dt in (0.001, 0.01, 0.025, 1.0):
        for periods in period_sets(dt):
            for xi in (0.0, 0.05, rng.uniform(0, 1), 0.99):
                for fname in ('nigam_and_jennings_response', 'response_series'):
                    compare(fname, lambda: (rec.copy() if isinstance(rec, np.ndarray) else type(rec)(rec), dt,
                                            periods.copy() if isinstance(periods, np.ndarray) else type(periods)(periods), xi),
                            '%s %s dt=%r T=%r xi=%r' % (fname, name, dt, periods, xi))
            # spectra built on the same propagators
            for fname in ('pseudo_response_spectra', 'true_response_spectra'):
                if isinstance(rec, np.ndarray):
                    compare(fname, lambda: (rec.copy(), dt, np.array(periods, dtype=float), 0.05), fname + ' ' + name)

# AccSignal.response_series: the method resolves eqsig.sdof at call time -> swap compute_a_and_b in and out
new_fn = new_sdof.compute_a_and_b
for name, rec in records():
    for dt in (0.005, 0.02):
        res = {}
        for tag, fn in (('old', old_sdof.compute_a_and_b), ('new', new_fn)):
            new_sdof.compute_a_and_b = fn
            try:
                asig = eqsig.AccSignal(np.array(rec, dtype=float), dt, response_times=np.array([0.0, 0.3 * dt, 0.1, 1.0, 4.0]))
                r1 = asig.response_series()
                r2 = asig.response_series(response_times=np.array([0.05, 0.5, 2.0]), xi=0.2)
                r3 = asig.response_series(xi=0.0)
                r4 = asig.response_series(response_times=[0.0, 0.4])
                state = {k: v for k, v in asig.__dict__.items()}
                res[tag] = (r1, r2, r3, r4, state)
            finally:
                new_sdof.compute_a_and_b = new_fn
        for k in range(4):
            same(res['old'][k], res['new'][k], 'AccSignal.response_series %s call %d' % (name, k))
        so, sn = res['old'][4], res['new'][4]
        assert sorted(so) == sorted(sn)
        for k in so:
            if isinstance(so[k], (np.ndarray, float, tuple, list, np.floating)):
                same(so[k], sn[k], 'AccSignal state ' + k)
            else:
                assert so[k] == sn[k] or so[k] is sn[k], k

print('equiv1: %d comparisons identical' % N_CHECKS[0])

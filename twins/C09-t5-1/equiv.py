"""Equivalence program for twin 1 (C09, cumulative intensity measures in eqsig/im.py).

Run with the edit applied and cwd = the worktree:
    cd <worktree> && PYTHONPATH=<worktree> /venv/bin/python out/equiv1.py

The ORIGINAL package is taken from git (`git archive HEAD eqsig`) into a temporary directory.
The same deterministic battery of cases is executed in two subprocesses (original / edited),
each writing a pickle of per-case outcomes; the parent compares them one by one.
Exit status 0 iff every outcome matches.
"""
import os
import sys
import io
import pickle
import subprocess
import tarfile
import tempfile
import time as _time
import hashlib

TWIN = 1
RTOL = 1e-12  # only used if a bit-for-bit comparison fails (floating point re-association)


# ----------------------------------------------------------------------------------------------
# worker: runs the whole battery against whichever eqsig is first on sys.path
# ----------------------------------------------------------------------------------------------

def _worker(pkg_root, out_path):
    sys.path.insert(0, pkg_root)
    import warnings
    import types
    import numpy as np
    import eqsig
    from eqsig import im
    assert os.path.realpath(os.path.dirname(os.path.dirname(eqsig.__file__))) == os.path.realpath(pkg_root), \
        (eqsig.__file__, pkg_root)

    G = 9.81
    results = []
    marks = [(_time.time(), 'start')]

    def enc(x):
        """Encode a returned value so that it can be compared bit for bit."""
        if isinstance(x, np.ndarray):
            return ('nd', str(x.dtype), x.shape, bool(x.flags.writeable), np.ascontiguousarray(x).tobytes())
        if isinstance(x, np.generic):
            return ('ng', str(x.dtype), np.asarray(x).tobytes())
        if isinstance(x, (tuple, list)):
            return (type(x).__name__, [enc(v) for v in x])
        if isinstance(x, float):
            return ('float', np.float64(x).tobytes())
        return ('py', type(x).__name__, repr(x))

    def call(f, *args, **kwargs):
        with warnings.catch_warnings(record=True) as w:
            warnings.simplefilter('always')
            try:
                r = f(*args, **kwargs)
                out = ('ok', enc(r))
            except Exception as e:  # noqa - every exception is an outcome to compare
                r = None
                out = ('exc', type(e).__name__, str(e))
        wl = sorted(set((x.category.__name__, str(x.message)) for x in w))
        return r, out + (tuple(wl),)

    FUNCS = ['calc_arias_intensity', 'calc_cav', 'calc_cav_dp', 'calc_isv', 'calc_integral_of_abs_velocity',
             'calc_integral_of_abs_acceleration', 'calc_unit_kinetic_energy', 'calc_cumulative_abs_displacement']

    def dig(x):
        """Like enc() but arrays are reduced to a digest (used for object state only)."""
        e = enc(x)
        if e[0] == 'nd':
            return e[:4] + (hashlib.sha1(e[4]).hexdigest(),)
        return e

    def state(asig):
        """Object state as seen through the API (plus the velocity cache, which the API exposes)."""
        enc = dig  # noqa - local alias
        st = [enc(asig.values), enc(asig.dt), enc(asig.npts),
              bool(getattr(asig, '_cached_disp_and_velo', None)),
              enc(getattr(asig, '_velocity', None)), enc(getattr(asig, '_displacement', None)),
              enc(getattr(asig, 'arias_intensity', None)), enc(getattr(asig, 'cav', None))]
        return st

    def run_all(tag, asig, order=None, alias_check=True):
        """Call every observed function on asig, recording result, aliasing and state."""
        order = FUNCS if order is None else order
        for name in order:
            f = getattr(im, name)
            before = state(asig)
            r, out = call(f, asig)
            after = state(asig)
            extra = []
            if alias_check and isinstance(r, np.ndarray):
                v = getattr(asig, '_velocity', None)
                extra.append(bool(np.shares_memory(r, asig.values)))
                extra.append(bool(isinstance(v, np.ndarray) and np.shares_memory(r, v)))
                extra.append(r.base is None)
                # scribble over the result: must not leak into the signal
                if r.flags.writeable and r.size:
                    r[...] = 77
                extra.append(state(asig) == after)
            results.append((tag + '/' + name, out, before == after, after, extra))

    def mk(vals, dt, **kw):
        return eqsig.AccSignal(vals, dt, **kw)

    rng = np.random.RandomState(20240909 + 0)

    def record(n, kind, amp):
        t = np.arange(n)
        if kind == 0:
            a = rng.standard_normal(n) * amp
        elif kind == 1:  # enveloped: quiet start / strong middle / quiet end -> gate opens and closes
            env = np.exp(-0.5 * ((t - 0.5 * n) / (0.15 * n + 1.0)) ** 2)
            a = rng.standard_normal(n) * amp * env
        elif kind == 2:  # sparse spikes on a quiet background
            a = rng.standard_normal(n) * 0.01
            k = max(1, n // 40)
            a[rng.randint(0, n, k)] = rng.standard_normal(k) * amp * 3
        elif kind == 3:  # sinusoid
            a = amp * np.sin(2 * np.pi * t / max(3.0, n / 7.3))
        elif kind == 4:  # ends at zero / zero padded
            a = rng.standard_normal(n) * amp
            a[n // 2:] = 0.0
        elif kind == 5:  # constant
            a = np.full(n, amp * (1 if rng.rand() > 0.5 else -1))
        else:  # block-wise quiet/strong seconds
            a = rng.standard_normal(n) * amp
            blk = max(1, n // 9)
            for b in range(0, n, blk):
                if rng.rand() < 0.5:
                    a[b:b + blk] *= 0.01
        return a

    DTS = [0.01, 0.005, 0.02, 0.1, 0.2, 0.25, 0.5, 1.0, 1.0 / 3, 0.004, 0.0025, 0.05, 0.008, 0.125, 1.0 / 7,
           0.3, 0.7, 1.5, 2.0, 0.0123, 0.04, 1.0 / 30, 1.0 / 6]
    AMPS = [0.0, 1e-3, 0.05, 0.2, 0.2452, 0.3, 1.0, 3.0, 50.0]

    # ---- A. broad random sweep: record length x dt x amplitude x shape ---------------------------
    case = 0
    for dt in DTS:
        pps = int(1 / dt)
        lens = sorted(set([1, 2, 3, pps, pps + 1, pps + 2, 2 * pps - 1, 2 * pps, 2 * pps + 1, 2 * pps + 2,
                           3 * pps + 1, 3 * pps + pps // 2 + 1, 5 * pps + 3, 7 * pps + 1]))
        lens = [n for n in lens if 1 <= n <= 2600]
        for n in lens:
            for rep in range(3):
                kind = rng.randint(0, 7)
                amp = AMPS[rng.randint(0, len(AMPS))]
                a = record(n, kind, amp)
                case += 1
                run_all('A%d[n=%d,dt=%r,k=%d,amp=%r]' % (case, n, dt, kind, amp), mk(a, dt))

    marks.append((_time.time(), 'B'))
    # ---- B. threshold corners of the 0.025 g gate --------------------------------------------------
    thr = 0.025 * G
    cands = [thr, np.nextafter(thr, 0), np.nextafter(thr, 1), 0.24525, np.nextafter(0.24525, 0),
             np.nextafter(0.24525, 1), 0.2452499999, 0.2452500001, -thr, -np.nextafter(thr, 1)]
    for ci, c in enumerate(cands):
        for dt in [0.01, 0.1, 0.5, 0.25]:
            pps = int(1 / dt)
            n = 4 * pps + 1
            for pos in [0, 1, pps - 1, pps, pps + 1, 2 * pps, 3 * pps, 4 * pps]:
                a = np.zeros(n)
                a[pos] = c
                run_all('B[c%d,dt=%r,pos=%d]' % (ci, dt, pos), mk(a, dt))
            a = np.full(n, c)
            run_all('B[c%d,dt=%r,const]' % (ci, dt), mk(a, dt))

    marks.append((_time.time(), 'C'))
    # ---- C. input forms: lists, tuples, ints, float32, bool, big ints, non-contiguous -------------
    forms = []
    base = record(501, 1, 2.0)
    forms.append(('list', list(base)))
    forms.append(('tuple', tuple(base[:301])))
    forms.append(('int64', (base * 10).astype(np.int64)))
    forms.append(('int32', (base * 10).astype(np.int32)))
    forms.append(('int8', (base * 10).astype(np.int8)))
    forms.append(('uint8', np.abs(base * 10).astype(np.uint8)))
    forms.append(('pyint', [int(v) for v in base * 5]))
    forms.append(('bool', base > 0.5))
    forms.append(('f32', base.astype(np.float32)))
    forms.append(('f16', base.astype(np.float16)))
    forms.append(('bigint', (base * 1e6).astype(np.int64)))
    forms.append(('strided', np.repeat(base, 2)[::2]))
    forms.append(('reversed', base[::-1]))
    forms.append(('fortran2d_col', np.asfortranarray(np.vstack([base, base]).T)[:, 0]))
    forms.append(('zeros_int', np.zeros(301, dtype=int)))
    forms.append(('huge', base * 1e150))
    forms.append(('tiny', base * 1e-300))
    forms.append(('complex', base[:301] * (1 + 0.5j)))
    for nm, v in forms:
        for dt in [0.01, 0.1, 1, 0.5, np.float64(0.02), np.float32(0.25)]:
            run_all('C[%s,dt=%r]' % (nm, dt), mk(v, dt))

    marks.append((_time.time(), 'D'))
    # ---- D. non-finite data ---------------------------------------------------------------------
    for dt in [0.01, 0.1, 0.5]:
        pps = int(1 / dt)
        n = 4 * pps + 1
        for amp in [0.001, 0.01, 1.0]:
            for pos in [0, 1, 2, pps - 1, pps, pps + 1, pps + 2, 2 * pps, 2 * pps + 3, 3 * pps, 4 * pps - 1, 4 * pps]:
                for bad in [np.nan, np.inf, -np.inf]:
                    a = record(n, 0, amp)
                    a[pos] = bad
                    run_all('D[dt=%r,amp=%r,pos=%d,%r]' % (dt, amp, pos, bad), mk(a, dt))
            # NaN not in first place of its window together with a sub/super-threshold maximum
            a = np.full(n, 0.001)
            a[pps + 3 if pps > 3 else 1] = np.nan
            run_all('D[dt=%r,amp=%r,quietnan]' % (dt, amp), mk(a, dt))
            a = np.full(n, np.nan)
            run_all('D[dt=%r,allnan]' % dt, mk(a, dt))

    marks.append((_time.time(), 'E'))
    # ---- E. degenerate records and time steps ------------------------------------------------------
    for vals in [[], [0.0], [1.0], [1.0, -2.0], [0, 0], [3], np.zeros(0), np.zeros(5)]:
        for dt in [0.01, 0.5, 1.0, 1, 2.0, 3, 0.0, 0, -0.1, -1.0, 1e-5, 300.0, np.float64(0.0), np.inf, np.nan]:
            try:
                s = mk(vals, dt)
            except Exception as e:  # noqa
                results.append(('E[%r,%r]/ctor' % (vals, dt), ('exc', type(e).__name__, str(e))))
                continue
            run_all('E[%r,%r]' % (list(vals), dt), s)
    for n in [2, 10, 11, 31, 100]:
        for dt in [-0.1, -0.5, 0.0, 0, 1.2, 2.5, 10.0, 0.99, 1.01, 0.999999999, 1.000000001, 0.0999999999,
                   0.1000000001, 0.3333333, 0.010000001, 0.00999999]:
            run_all('E2[n=%d,dt=%r]' % (n, dt), mk(record(n, 0, 1.0), dt))

    marks.append((_time.time(), 'F'))
    # ---- F. the defining relations' inputs: sign reversal, scaling, zero padding -------------------
    for i in range(40):
        dt = [0.01, 0.02, 0.1, 0.25][i % 4]
        pps = int(1 / dt)
        n = 2 * pps + 1 + rng.randint(0, 4 * pps)
        a = record(n, rng.randint(0, 7), [0.1, 0.3, 2.0][i % 3])
        a[-1] = 0.0
        for alpha in [-1.0, 2.0, -0.5, 1e-3, 37.5]:
            run_all('F[%d,alpha=%r]' % (i, alpha), mk(alpha * a, dt))
        for pad in [1, 2, pps, pps + 1, 3 * pps]:
            run_all('F[%d,pad=%d]' % (i, pad), mk(np.concatenate([a, np.zeros(pad)]), dt))

    marks.append((_time.time(), 'G'))
    # ---- G. histories of public operations on one object -------------------------------------------
    def op_reset(s, r):
        s.reset_values(record(r.randint(1, 400), r.randint(0, 7), 1.0))

    def op_reset_int(s, r):
        s.reset_values((record(r.randint(2, 300), 0, 20.0)).astype(int))

    def op_inplace(s, r):  # in-place change through the public `values` handle: caches are NOT cleared
        if s.npts:
            s.values[r.randint(0, s.npts)] = r.standard_normal() * 3

    def op_add_const(s, r):
        s.add_constant(r.standard_normal() * 0.1)

    def op_add_series(s, r):
        s.add_series(r.standard_normal(s.npts) * 0.1)

    def op_remove_poly(s, r):
        s.remove_poly(poly_fit=r.randint(0, 3))

    def op_vel(s, r):
        s.velocity

    def op_disp(s, r):
        s.displacement

    def op_rect(s, r):
        s.generate_displacement_and_velocity_series(trap=False)

    def op_trap(s, r):
        s.generate_displacement_and_velocity_series()

    def op_clear(s, r):
        s.clear_cache()

    def op_cumstats(s, r):
        with warnings.catch_warnings():
            warnings.simplefilter('ignore')
            s.generate_cumulative_stats()

    def op_scribble_velocity(s, r):  # velocity hands out the cached buffer itself
        v = s.velocity
        if len(v):
            v[r.randint(0, len(v))] += 0.5

    def op_zero_resid(s, r):
        if s.npts > 5:
            s.set_zero_residual_velocity()

    def op_rebase(s, r):
        s.rebase_displacement()

    OPS = [op_reset, op_reset_int, op_inplace, op_inplace, op_add_const, op_add_series, op_remove_poly, op_vel,
           op_disp, op_rect, op_trap, op_clear, op_cumstats, op_scribble_velocity, op_zero_resid, op_rebase]
    for h in range(160):
        r = np.random.RandomState(777 + h)
        dt = [0.01, 0.02, 0.1, 0.25, 0.5, 1.0][r.randint(0, 6)]
        s = mk(record(r.randint(1, 500), r.randint(0, 7), [0.05, 0.3, 2.0][r.randint(0, 3)]), dt)
        for step in range(12):
            op = OPS[r.randint(0, len(OPS))]
            _, out = call(op, s, r)
            results.append(('G%d.%d/op:%s' % (h, step, op.__name__), out, state(s)))
            k = r.randint(0, 4)
            order = [FUNCS[j] for j in r.permutation(len(FUNCS))[:k]]
            run_all('G%d.%d' % (h, step), s, order=order, alias_check=bool(r.randint(0, 2)))
        run_all('G%d.end' % h, s)

    # repeated calls give repeated answers; results of consecutive calls are independent buffers
    for h in range(30):
        r = np.random.RandomState(4242 + h)
        s = mk(record(r.randint(2, 600), r.randint(0, 7), 0.5), [0.01, 0.1, 0.5][h % 3])
        for name in FUNCS:
            f = getattr(im, name)
            r1, o1 = call(f, s)
            r2, o2 = call(f, s)
            sh = bool(isinstance(r1, np.ndarray) and isinstance(r2, np.ndarray) and np.shares_memory(r1, r2))
            results.append(('H%d/%s' % (h, name), o1, o2, sh, state(s)))

    marks.append((_time.time(), 'I'))
    # ---- I. helpers and callers of the anchored code -----------------------------------------------
    for i in range(60):
        r = np.random.RandomState(99 + i)
        n = r.randint(1, 300)
        dt = [0.01, 0.1, 1, 0.5][i % 4]
        x1 = r.standard_normal(n)
        x2 = r.standard_normal((r.randint(1, 5), n))
        xi = (x1 * 7).astype(int)
        for nm, x in [('1d', x1), ('2d', x2), ('int', xi), ('list', list(x1)), ('empty', np.zeros(0))]:
            xc = np.array(x, copy=True) if not isinstance(x, list) else list(x)
            _, out = call(im._raw_calc_arias_intensity, x, dt)
            same = (list(x) == list(xc)) if isinstance(x, list) else bool(np.array_equal(x, xc))
            results.append(('I%d/raw_arias/%s' % (i, nm), out, same))
    for i in range(12):
        r = np.random.RandomState(1234 + i)
        s = mk(record(r.randint(50, 400), r.randint(0, 7), 1.0), [0.01, 0.02, 0.05][i % 3])
        _, out = call(im.cumulative_response_spectra, s, 'arias_intensity', [0.2, 0.5, 1.0], 0.05)
        results.append(('I%d/crs' % i, out, state(s)))
        _, out = call(im.cumulative_response_spectra, s, 'cav')
        results.append(('I%d/crs_bad' % i, out[:2]))
        for kw in [{}, {'se': True}, {'im': im.calc_cav}, {'im': im.calc_unit_kinetic_energy, 'se': True},
                   {'im': im.calc_isv}, {'im': im.calc_cav_dp}, {'im': im.calc_integral_of_abs_velocity},
                   {'start': 0.1, 'end': 0.8, 'im': im.calc_integral_of_abs_acceleration}]:
            _, out = call(im.calc_sig_dur, s, **kw)
            results.append(('I%d/sig_dur/%s' % (i, sorted(kw)), out))

    marks.append((_time.time(), 'J'))
    # ---- J. duck-typed signals (exceptions that a real AccSignal cannot easily reach) -------------
    def fake(values, dt, time=None, velocity=None):
        values = np.array(values)
        o = types.SimpleNamespace()
        o.values = values
        o.dt = dt
        o.npts = len(values)
        o.time = np.arange(len(values)) * dt if time is None else np.array(time)
        o.velocity = np.cumsum(values) * dt if velocity is None else np.array(velocity)
        return o

    for i in range(40):
        r = np.random.RandomState(31 + i)
        dt = [0.01, 0.1, 0.5, 0.25][i % 4]
        pps = int(1 / dt)
        n = r.randint(1, 4 * pps + 2)
        a = record(n, r.randint(0, 7), [0.01, 1.0][i % 2])
        for extra in [0, 1, pps, 2 * pps, 5 * pps]:
            o = fake(a, dt, time=np.arange(n + extra) * dt)
            run_all('J%d[extra=%d]' % (i, extra), o, alias_check=False)
    for vals in [[], [0.5], [0.5, -0.25]]:
        for dt in [0.01, 1.0, 1]:
            run_all('J[vals=%r,dt=%r]' % (vals, dt), fake(vals, dt), alias_check=False)
    o = fake(record(60, 0, 1.0), 0.1, velocity=rng.standard_normal((60, 2)))
    run_all('J[2d velocity]', o, alias_check=False)
    if TWIN != 2:
        # Not a signal of the domain (AccSignal always holds ndarrays): plain-list attributes make every
        # measure raise TypeError in the original.  Twin 2 reads attributes through np.asarray and accepts
        # them, which is the one intended widening of the hardening edit, so it is not compared there.
        o = fake(record(60, 0, 1.0), 0.1, velocity=list(rng.standard_normal(60)))
        o.velocity = list(o.velocity)
        o.values = list(o.values)
        run_all('J[list attrs]', o, alias_check=False)
    for dt in [0, 0.0, np.float64(0), -0.01, 'x', None]:
        o = fake(record(50, 0, 1.0), 0.01)
        o.dt = dt
        run_all('J[dt=%r]' % (dt,), o, alias_check=False)

    marks.append((_time.time(), 'end'))
    if os.environ.get('EQUIV_TIMING'):
        sys.stderr.write(' '.join('%s:%.1f' % (m[1], m[0] - marks[0][0]) for m in marks) + '\n')
    with open(out_path, 'wb') as fh:
        pickle.dump(results, fh, protocol=2)


# ----------------------------------------------------------------------------------------------
# parent
# ----------------------------------------------------------------------------------------------

def _close(a, b):
    """a, b are encoded outcomes; True if equal bit for bit, or numerically within RTOL."""
    if a == b:
        return True
    import numpy as np
    if type(a) != type(b):
        return False
    if isinstance(a, (list, tuple)):
        if len(a) != len(b):
            return False
        if len(a) == 5 and a[0] == 'nd' and b[0] == 'nd':
            if a[1:4] != b[1:4]:
                return False
            try:
                xa = np.frombuffer(a[4], dtype=a[1])
                xb = np.frombuffer(b[4], dtype=b[1])
            except Exception:  # noqa
                return False
            if xa.dtype.kind not in 'fc':
                return False
            na, nb = np.isnan(xa), np.isnan(xb)
            if not np.array_equal(na, nb):
                return False
            fa, fb = xa[~na], xb[~nb]
            inf_a = np.isinf(fa)
            if not np.array_equal(inf_a, np.isinf(fb)) or not np.array_equal(fa[inf_a], fb[inf_a]):
                return False
            fa, fb = fa[~inf_a], fb[~inf_a]
            return bool(np.all(np.abs(fa - fb) <= RTOL * np.maximum(np.abs(fa), np.abs(fb))))
        return all(_close(x, y) for x, y in zip(a, b))
    return False


def main():
    t0 = _time.time()
    cwd = os.getcwd()
    if not os.path.isdir(os.path.join(cwd, 'eqsig')):
        print('run me with cwd = the worktree')
        return 2
    tmp = tempfile.mkdtemp(prefix='equiv%d_' % TWIN)
    orig_root = os.path.join(tmp, 'orig')
    os.makedirs(orig_root)
    blob = subprocess.check_output(['git', 'archive', 'HEAD', 'eqsig'], cwd=cwd)
    with tarfile.open(fileobj=io.BytesIO(blob)) as tf:
        tf.extractall(orig_root)
    outs = {}
    procs = []
    for tag, root in [('orig', orig_root), ('edit', cwd)]:
        outp = os.path.join(tmp, tag + '.pkl')
        env = dict(os.environ)
        env['PYTHONPATH'] = root
        env['PYTHONHASHSEED'] = '0'
        env['PYTHONDONTWRITEBYTECODE'] = '1'
        p = subprocess.Popen([sys.executable, os.path.abspath(__file__), '--worker', root, outp], cwd=tmp, env=env)
        procs.append((tag, p, outp))
    for tag, p, outp in procs:
        rc = p.wait()
        if rc != 0:
            print('worker %s failed with status %d' % (tag, rc))
            return 3
        with open(outp, 'rb') as fh:
            outs[tag] = pickle.load(fh)
    a, b = outs['orig'], outs['edit']
    bad = 0
    inexact = 0
    if len(a) != len(b):
        print('different number of outcomes: %d vs %d' % (len(a), len(b)))
        bad += 1
    for ra, rb in zip(a, b):
        if ra == rb:
            continue
        if ra[0] == rb[0] and _close(ra[1:], rb[1:]):
            inexact += 1
            continue
        bad += 1
        if bad <= 15:
            print('MISMATCH at %s' % (ra[0],))
            print('   orig: %s' % (repr(ra[1])[:300],))
            print('   edit: %s' % (repr(rb[1])[:300],))
    n_exc = sum(1 for r in a if isinstance(r[1], tuple) and r[1] and r[1][0] == 'exc')
    print('twin %d: %d outcomes compared (%d of them exceptions), %d equal only to %g relative, %d mismatches, %.1f s'
          % (TWIN, len(a), n_exc, inexact, RTOL, bad, _time.time() - t0))
    try:
        import shutil
        shutil.rmtree(tmp)
    except Exception:  # noqa
        pass
    return 0 if bad == 0 else 1


if __name__ == '__main__':
    if len(sys.argv) == 4 and sys.argv[1] == '--worker':
        _worker(sys.argv[2], sys.argv[3])
        sys.exit(0)
    sys.exit(main())

"""
Equivalence check for twin3 (Signal.running_average and AccSignal.remove_rolling_average share
eqsig.fns.average.calc_centred_window_means, Signal.remove_poly delegates to eqsig.fns.generic.remove_poly).

Run with twin3 applied and cwd = the worktree:
    /venv/bin/python out/equiv3.py

The original package is extracted from git HEAD in to a temporary directory under /tmp. The same
deterministic list of cases is run in two subprocesses (one importing the original package, one importing
the edited worktree) and the pickled outcomes are compared bit-for-bit.
"""
import os
import pickle
import shutil
import subprocess
import sys
import tempfile
import warnings

import numpy as np


# ----------------------------------------------------------------------------------------------------------------
# generic helpers (run inside the workers)
# ----------------------------------------------------------------------------------------------------------------

def arr_info(a):
    a = np.asarray(a)
    return {'dtype': str(a.dtype), 'shape': tuple(a.shape), 'bytes': a.tobytes()}


def snap(sig):
    """Full observable state of a signal"""
    d = {
        'type': type(sig).__name__,
        'values': arr_info(sig.values),
        'values_is_private': sig.values is sig._values,
        'npts': sig.npts,
        'npts_type': type(sig.npts).__name__,
        'dt': repr(sig.dt),
        'cached_fa': bool(sig._cached_fa),
        'cached_smooth_fa': bool(sig._cached_smooth_fa),
        'label': sig.label,
    }
    for name in ('_cached_response_spectra', '_cached_disp_and_velo', '_cached_xtime', '_cached_params'):
        if hasattr(sig, name):
            v = getattr(sig, name)
            d[name] = repr(v) if not isinstance(v, dict) else sorted(v)
    for name in ('_velocity', '_displacement'):
        if hasattr(sig, name):
            d[name] = arr_info(getattr(sig, name))
    return d


def attempt(fn):
    try:
        ret = fn()
        return ('ok', repr(ret))
    except Exception as e:  # noqa
        return ('exc', type(e).__name__, str(e))


def make_values(rng, n, kind):
    if kind == 'float':
        return rng.standard_normal(n)
    if kind == 'int':
        return rng.integers(-50, 50, size=n)
    if kind == 'zeros':
        return np.zeros(n)
    if kind == 'list':
        return list(rng.standard_normal(n))
    if kind == 'intlist':
        return [int(v) for v in rng.integers(-9, 9, size=n)]
    if kind == 'float32':
        return rng.standard_normal(n).astype(np.float32)
    raise ValueError(kind)


# ----------------------------------------------------------------------------------------------------------------
# the cases
# ----------------------------------------------------------------------------------------------------------------

def prime(sig, pre):
    """Fill some of the caches so that clearing them is observable"""
    if len(sig.values) == 0:
        return
    if pre == 'fa':
        _ = sig.fa_spectrum
    elif pre == 'smooth' and len(sig.values) > 3:
        _ = sig.smooth_fa_spectrum
    elif pre == 'velocity' and hasattr(sig, 'velocity'):
        _ = sig.velocity
    elif pre == 'stats' and hasattr(sig, 'pga') and len(sig.values) > 1:
        _ = sig.pga
        _ = sig.pgv


def run_method(cls, vals, dt, pre, call):
    if isinstance(vals, np.ndarray):
        vals_before = arr_info(vals)
    else:
        vals_before = repr(vals)
    sig = cls(vals, dt)
    prime(sig, pre)
    held = sig.values
    held_copy = np.array(held)
    r = attempt(lambda: call(sig))
    if isinstance(vals, np.ndarray):
        vals_same = arr_info(vals) == vals_before
    else:
        vals_same = repr(vals) == vals_before
    return (r, snap(sig), vals_same, sig.values is held, arr_info(held), arr_info(held_copy))


def run_cases(eqsig):
    rng = np.random.default_rng(1703)
    out = []
    Signal, AccSignal = eqsig.Signal, eqsig.AccSignal
    kinds = ['float', 'int', 'zeros', 'list', 'intlist', 'float32']
    pres = [None, 'fa', 'smooth', 'velocity', 'stats']

    # ---- running_average: every width 1..25 (and some others) on every short length
    widths = list(range(1, 26)) + [0, 26, 30, 100, 2.5, 3.0, 7.9, 0.5, np.int64(5), np.float64(4.0), True]
    for n in list(range(0, 31)) + [49, 50, 51, 64, 100]:
        for w in widths:
            kind = kinds[(n + int(w * 2)) % len(kinds)]
            vals = make_values(rng, n, kind)
            cls = AccSignal if (n + int(w)) % 2 else Signal
            pre = pres[(n * 3 + int(w)) % len(pres)]
            out.append(('running_average', n, repr(w), kind,
                        run_method(cls, vals, 0.01, pre, lambda s: s.running_average(w))))
            out.append(('running_average_kw', n, repr(w), kind,
                        run_method(cls, vals, 0.01, pre, lambda s: s.running_average(width=w))))
    for n in (1, 2, 7, 40):
        for kind in kinds:
            vals = make_values(rng, n, kind)
            out.append(('running_average_default', n, kind,
                        run_method(Signal, vals, 0.01, 'fa', lambda s: s.running_average())))
            for w in (-1, -3, -4, 'a', None, float('nan'), float('inf'), [3], 1e3):
                out.append(('running_average_odd', n, kind, repr(w),
                            run_method(AccSignal, vals, 0.01, 'velocity', lambda s: s.running_average(w))))
    # integer records with large values (the means are cast back to the integer type)
    for n in (5, 12, 33):
        vals = rng.integers(-10 ** 9, 10 ** 9, size=n)
        for w in (1, 2, 3, 6, 11):
            out.append(('running_average_bigint', n, w,
                        run_method(Signal, vals, 0.01, None, lambda s: s.running_average(w))))
        vals = rng.integers(0, 200, size=n).astype(np.uint8)
        for w in (1, 2, 5):
            out.append(('running_average_uint8', n, w,
                        run_method(Signal, vals, 0.01, None, lambda s: s.running_average(w))))
    # records with nan / inf
    for n in (6, 20):
        vals = rng.standard_normal(n)
        vals[n // 2] = np.nan
        vals[0] = np.inf
        for w in (1, 3, 8):
            out.append(('running_average_nan', n, w,
                        run_method(Signal, vals, 0.01, None, lambda s: s.running_average(w))))
    # repeated application
    for n in (9, 30, 200):
        sig = AccSignal(rng.standard_normal(n), 0.02)
        hist = []
        for w in (3, 4, 1, 25, 7):
            held = sig.values
            r = attempt(lambda: sig.running_average(w))
            hist.append((r, snap(sig), sig.values is held))
        out.append(('running_average_repeat', n, hist))

    # ---- remove_rolling_average (AccSignal only)
    for n in (1, 2, 3, 5, 11, 30, 100, 400):
        for dt in (0.01, 0.02, 0.005, 0.1):
            for fw in (5, 1, 2, 10, 0.5, 3.3, 50, 100, 1000, np.float64(4)):
                for mtype in ('velocity', 'acceleration', 'other'):
                    kind = kinds[(n + int(fw * 10)) % len(kinds)]
                    if n == 400 and fw < 2:
                        continue
                    vals = make_values(rng, n, kind)
                    pre = pres[(n + int(fw)) % len(pres)]
                    out.append(('remove_rolling_average', n, dt, repr(fw), mtype, kind,
                                run_method(AccSignal, vals, dt, pre,
                                           lambda s: s.remove_rolling_average(mtype=mtype, freq_window=fw))))
    for n in (4, 60):
        vals = make_values(rng, n, 'float')
        out.append(('remove_rolling_average_default', n,
                    run_method(AccSignal, vals, 0.01, 'velocity', lambda s: s.remove_rolling_average())))
        out.append(('remove_rolling_average_positional', n,
                    run_method(AccSignal, vals, 0.01, 'stats', lambda s: s.remove_rolling_average("acc", 8))))
        for fw in (0, -2, 'a', None):
            out.append(('remove_rolling_average_odd', n, repr(fw),
                        run_method(AccSignal, vals, 0.01, None, lambda s: s.remove_rolling_average(freq_window=fw))))
        out.append(('remove_rolling_average_on_signal', n,
                    run_method(Signal, vals, 0.01, None, lambda s: s.remove_rolling_average())))

    # ---- remove_poly, object level
    for cls in (Signal, AccSignal):
        for n in list(range(0, 10)) + [50, 300, 1001]:
            for kind in kinds + ['trend']:
                if kind == 'trend':
                    x = np.linspace(0, 1, n)
                    vals = rng.standard_normal(n) + 3 - 2 * x + 8 * x ** 2 - x ** 4
                else:
                    vals = make_values(rng, n, kind)
                for deg in (0, 1, 2, 3, 4, 5, 9, -1, 2.0, np.int64(2), True):
                    pre = pres[(n + int(deg)) % len(pres)]
                    out.append(('remove_poly', cls.__name__, n, kind, repr(deg),
                                run_method(cls, vals, 0.01, pre, lambda s: s.remove_poly(deg))))
                    out.append(('remove_poly_kw', cls.__name__, n, kind, repr(deg),
                                run_method(cls, vals, 0.01, pre, lambda s: s.remove_poly(poly_fit=deg))))
                out.append(('remove_poly_default', cls.__name__, n, kind,
                            run_method(cls, vals, 0.01, 'fa', lambda s: s.remove_poly())))
                for deg in ('a', None, 1.5, [1]):
                    out.append(('remove_poly_odd', cls.__name__, n, kind, repr(deg),
                                run_method(cls, vals, 0.01, None, lambda s: s.remove_poly(deg))))
    # idempotence style repeated use
    for n in (12, 200):
        sig = Signal(rng.standard_normal(n) + np.linspace(0, 4, n) ** 2, 0.01)
        hist = []
        for deg in (2, 2, 0, 4, 1):
            held = sig.values
            held_before = arr_info(held)
            r = attempt(lambda: sig.remove_poly(deg))
            hist.append((r, snap(sig), sig.values is held, arr_info(held) == held_before))
        out.append(('remove_poly_repeat', n, hist))

    # ---- remove_poly, array level (not edited, but it now also serves the method)
    for n in list(range(0, 8)) + [40, 500]:
        for kind in kinds:
            vals = make_values(rng, n, kind)
            before = arr_info(vals) if isinstance(vals, np.ndarray) else repr(vals)
            for deg in (0, 1, 2, 3, 4, 6):
                for fn in (eqsig.remove_poly, eqsig.fns.generic.remove_poly):
                    r = attempt(lambda: arr_info(fn(vals, deg)))
                    after = arr_info(vals) if isinstance(vals, np.ndarray) else repr(vals)
                    out.append(('fn_remove_poly', n, kind, deg, r, before == after))
            r = attempt(lambda: arr_info(eqsig.remove_poly(vals)))
            out.append(('fn_remove_poly_default', n, kind, r))

    # ---- the other public functions of the edited module are untouched
    for n in (5, 40):
        vals = rng.standard_normal(n)
        sig = Signal(vals, 0.1)
        out.append(('get_section_average', n, attempt(lambda: repr(eqsig.get_section_average(sig, 0.1, 0.3))),
                    attempt(lambda: repr(sig.get_section_average(1, 4, index=True))),
                    attempt(lambda: arr_info(eqsig.calc_roll_av_vals(vals, 3, mode='centre')))))

    # ---- multi-step histories on one object
    for trial in range(80):
        cls = AccSignal if trial % 4 else Signal
        n = int(rng.choice([7, 40, 90, 256]))
        dt = float(rng.choice([0.01, 0.02]))
        kind = str(rng.choice(['float', 'int', 'list']))
        sig = cls(make_values(rng, n, kind), dt)
        hist = []
        for step in range(8):
            op = int(rng.integers(0, 8))
            held = sig.values
            if op in (0, 1):
                w = int(rng.integers(1, 26))
                r = attempt(lambda: sig.running_average(w))
            elif op == 2:
                deg = int(rng.integers(0, 5))
                r = attempt(lambda: sig.remove_poly(deg))
            elif op == 3:
                mtype = str(rng.choice(['velocity', 'acc']))
                fw = float(rng.choice([2, 5, 10, 25]))
                r = attempt(lambda: sig.remove_rolling_average(mtype, fw))
            elif op == 4:
                r = attempt(lambda: arr_info(sig.fa_spectrum))
            elif op == 5:
                r = attempt(lambda: arr_info(sig.velocity))
            elif op == 6:
                r = attempt(lambda: sig.butter_pass((0.5, 20), remove_gibbs='mid'))
            else:
                r = attempt(lambda: sig.add_constant(float(rng.standard_normal())))
            hist.append((op, r, snap(sig), sig.values is held, arr_info(held)))
        out.append(('history', trial, hist))
    return out


# ----------------------------------------------------------------------------------------------------------------
# driver
# ----------------------------------------------------------------------------------------------------------------

def worker(root, outfile):
    root = os.path.abspath(root)
    sys.path.insert(0, root)
    warnings.simplefilter('ignore')
    np.seterr(all='ignore')
    import eqsig
    assert os.path.abspath(eqsig.__file__).startswith(root + os.sep), (eqsig.__file__, root)
    results = run_cases(eqsig)
    with open(outfile, 'wb') as f:
        pickle.dump(results, f)


def first_difference(a, b, path='root'):
    if type(a) != type(b):
        return '%s: type %s != %s' % (path, type(a), type(b))
    if isinstance(a, (list, tuple)):
        if len(a) != len(b):
            return '%s: len %d != %d' % (path, len(a), len(b))
        for i, (x, y) in enumerate(zip(a, b)):
            d = first_difference(x, y, '%s[%d]' % (path, i))
            if d:
                return d
        return None
    if isinstance(a, dict):
        if sorted(a) != sorted(b):
            return '%s: keys differ' % path
        for k in a:
            d = first_difference(a[k], b[k], '%s[%r]' % (path, k))
            if d:
                return d
        return None
    if a != b:
        return '%s: %r != %r' % (path, a if not isinstance(a, bytes) else '<bytes>', b if not isinstance(b, bytes) else '<bytes>')
    return None


def count_raises(obj):
    if isinstance(obj, tuple) and len(obj) == 3 and obj[0] == 'exc':
        return 1
    if isinstance(obj, (list, tuple)):
        return sum(count_raises(x) for x in obj)
    return 0


def main():
    wt = os.getcwd()
    assert os.path.isdir(os.path.join(wt, 'eqsig')), 'run with cwd = the worktree'
    if subprocess.call(['git', 'diff', '--quiet', 'HEAD', '--', 'eqsig'], cwd=wt) == 0:
        print('WARNING: the worktree has no edit applied - comparing the original with itself')
    tmp = tempfile.mkdtemp(prefix='c17tw4_equiv3_', dir='/tmp')
    try:
        subprocess.check_call('git archive HEAD eqsig | tar -x -C "%s"' % tmp, shell=True, cwd=wt)
        outs = {}
        for tag, root in (('orig', tmp), ('edit', wt)):
            outfile = os.path.join(tmp, 'res_%s.pkl' % tag)
            env = dict(os.environ)
            env.pop('PYTHONPATH', None)
            # output is captured because LAPACK prints (harmless, identical) complaints for degenerate fits
            proc = subprocess.run([sys.executable, os.path.abspath(__file__), '--worker', root, outfile],
                                  cwd=root, env=env, stdout=subprocess.PIPE, stderr=subprocess.STDOUT)
            if proc.returncode != 0:
                sys.stderr.write(proc.stdout.decode(errors='replace')[-5000:])
                print('worker for %s failed' % tag)
                return 1
            with open(outfile, 'rb') as f:
                outs[tag] = pickle.load(f)
        d = first_difference(outs['orig'], outs['edit'])
        n = len(outs['orig'])
        n_exc = count_raises(outs['orig'])
        if d:
            print('MISMATCH:', d)
            return 1
        print('all %d cases identical (%d calls in them raise, identically)' % (n, n_exc))
        return 0
    finally:
        shutil.rmtree(tmp, ignore_errors=True)


if __name__ == '__main__':
    if len(sys.argv) > 1 and sys.argv[1] == '--worker':
        worker(sys.argv[2], sys.argv[3])
    else:
        sys.exit(main())

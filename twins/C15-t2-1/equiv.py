"""
Equivalence check for twin 1 of C15 (run WITH the twin applied, cwd = the worktree).

The ORIGINAL package is extracted from git (`git archive HEAD eqsig`) into a temporary directory.
The same deterministic battery of calls is executed in two subprocesses - one importing the original
package, one importing the edited package from the worktree - and the recorded outcomes (returned
values bit-for-bit incl. dtype and shape, exceptions, state of the arguments after the call, object
state) are compared here.  Exit status 0 iff everything matches.
"""
import os
import pickle
import shutil
import subprocess
import sys
import tempfile

TWIN = 1
PY = sys.executable
WORKTREE = os.getcwd()

WORKER = r'''
import sys, pickle, types, warnings, hashlib
root, out_path = sys.argv[1], sys.argv[2]
sys.path.insert(0, root)
warnings.simplefilter("ignore")
import numpy as np
import eqsig
import os
assert os.path.realpath(eqsig.__file__).startswith(os.path.realpath(root) + os.sep), (eqsig.__file__, root)
from eqsig import stockwell as sw


def enc(x):
    """Bit-exact, picklable encoding of a result"""
    if isinstance(x, np.ndarray):
        raw = np.ascontiguousarray(x).tobytes()
        if len(raw) > 512:  # keep the pickles small: a digest of the exact bytes is as strict as the bytes
            raw = hashlib.sha256(raw).hexdigest()
        return ("nd", x.dtype.str, x.shape, raw,
                bool(x.flags["C_CONTIGUOUS"]), bool(x.flags["F_CONTIGUOUS"]))
    if isinstance(x, np.generic):
        return ("npscalar", x.dtype.str, x.tobytes())
    if isinstance(x, (list, tuple)):
        return (type(x).__name__, [enc(v) for v in x])
    if isinstance(x, (int, float, complex, str, bool, type(None))):
        return (type(x).__name__, repr(x))
    return ("obj", type(x).__name__)


def call(fn, *args, **kwargs):
    try:
        return ("ok", enc(fn(*args, **kwargs)))
    except Exception as e:  # same exceptions are part of the behaviour
        return ("exc", type(e).__name__, str(e))


def cp(x):
    if isinstance(x, np.ndarray):
        return x.copy(order="K")
    if isinstance(x, list):
        return list(x)
    return x


res = {}
rng = np.random.RandomState(20240915)

# ---------------------------------------------------------------- records
records = {}
lengths = list(range(4, 72)) + [100, 101, 127, 128, 129, 200, 255, 256, 257, 333, 500, 511, 512, 513,
                                 777, 1000, 1001, 1023, 1024]
for n in lengths:
    records["rand_%i" % n] = rng.randn(n)
for n in [4, 5, 6, 7, 8, 9, 16, 17, 31, 32, 64, 65, 250, 1024]:
    records["zeros_%i" % n] = np.zeros(n)
    records["ones_%i" % n] = np.ones(n)
    records["int_%i" % n] = rng.randint(-50, 50, size=n)
    records["int32_%i" % n] = rng.randint(-50, 50, size=n).astype(np.int32)
    records["f32_%i" % n] = rng.randn(n).astype(np.float32)
    records["list_%i" % n] = [float(v) for v in rng.randn(n)]
    records["intlist_%i" % n] = [int(v) for v in rng.randint(-9, 9, size=n)]
    records["tuple_%i" % n] = tuple(float(v) for v in rng.randn(n))
    records["strided_%i" % n] = rng.randn(2 * n)[::2]
    records["reversed_%i" % n] = rng.randn(n)[::-1]
    records["big_%i" % n] = 1e12 * rng.randn(n)
    records["tiny_%i" % n] = 1e-12 * rng.randn(n)
    records["ramp_%i" % n] = np.arange(n, dtype=float)
    records["alt_%i" % n] = (-1.0) ** np.arange(n)
    records["spike_%i" % n] = np.eye(1, n, n // 2)[0]
# on-grid sinusoids (all harmonics for small n, a selection for large n)
for n in [8, 9, 16, 32, 33, 64, 128, 256, 1024]:
    m = n - n % 2
    ks = range(1, m // 2 + 1) if n <= 64 else [1, 2, 3, m // 8, m // 4, 3 * m // 8, m // 2 - 1, m // 2]
    for k in ks:
        t = np.arange(n)
        records["sin_%i_%i" % (n, k)] = np.sin(2 * np.pi * k * t / m)
        records["cos_%i_%i" % (n, k)] = 0.3 + 2.5 * np.cos(2 * np.pi * k * t / m + 0.4)

dts = [0.01, 0.005, 0.1, 1.0, 1, 2, np.float64(0.02), 1.0 / 3, np.float32(0.25)]

for name, rec in records.items():
    # transforms: value, dtype, shape, layout; and state of the argument after the call
    for fname in ("transform", "transform_w_scipy_fft"):
        fn = getattr(sw, fname)
        for kw in ({}, {"interp": True}):
            a = cp(rec)
            key = (fname, name, tuple(sorted(kw.items())))
            res[key] = call(fn, a, **kw)
            res[key + ("arg_after",)] = enc(a)
    a = cp(rec)
    st = sw.transform(a)
    for ith in (1, 2):
        a = cp(rec)
        res[("transform_slow", name, ith)] = call(sw.transform_slow, a, ith=ith)
        res[("transform_slow", name, ith, "arg_after")] = enc(a)
    # inverse
    for label, stk in (("cplx", st), ("abs", np.abs(st)), ("flip", st[::-1]), ("fortran", np.asfortranarray(st)),
                       ("conj", np.conj(st)), ("c64", st.astype(np.complex64))):
        s_in = stk.copy(order="K")
        res[("itransform", name, label)] = call(sw.itransform, s_in)
        res[("itransform", name, label, "arg_after")] = enc(s_in)
        res[("dep_itransform", name, label)] = call(sw.dep_itransform, stk.copy(order="K"))
    if len(rec) <= 16:
        res[("itransform", name, "listoflists")] = call(sw.itransform, [list(r) for r in st])

# linearity inputs: transform of combinations (just more inputs, compared bit-for-bit)
for n in [4, 5, 10, 33, 64, 257]:
    x, y = rng.randn(n), rng.randn(n)
    for fname in ("transform", "transform_w_scipy_fft"):
        res[("lin", fname, n)] = call(getattr(sw, fname), 2.0 * x - 3.5 * y)

# ---------------------------------------------------------------- window
for n_d2 in list(range(2, 80)) + [100, 128, 250, 256, 500, 511, 512]:
    g = call(sw.generate_gaussian, n_d2)
    # the memory layout of the window itself is not observable through the public functions; values/dtype/shape are
    if g[0] == "ok":
        g = ("ok", g[1][:4])
    res[("generate_gaussian", n_d2)] = g
res[("generate_gaussian", "np.int64")] = ("ok", call(sw.generate_gaussian, np.int64(7))[1][:4])

# ---------------------------------------------------------------- frequency axis / dominant frequency
sel = [k for k in records if k.split("_")[0] in ("rand", "sin", "cos", "zeros", "int", "list", "spike")]
for i, name in enumerate(sel):
    rec = records[name]
    st = sw.transform(cp(rec))
    for j, dt in enumerate(dts):
        if (i + j) % 3 and not name.startswith(("sin", "cos")):
            continue
        key = ("tifq", name, j)
        for label, vals in (("cplx", st), ("abs", np.abs(st)), ("fortran", np.asfortranarray(st))):
            v_in = vals.copy(order="K")
            res[key + (label,)] = call(sw.get_max_tifq_vals_freq, v_in, dt)
            res[key + (label, "arg_after")] = enc(v_in)

        # object with no cached transform (Signal object)
        asig = eqsig.AccSignal(np.array(rec, dtype=float), dt)
        had = hasattr(asig, "swtf")
        r1 = call(sw.get_max_stockwell_freq, asig)
        cached = asig.swtf
        r2 = call(sw.get_max_stockwell_freq, asig)  # second call uses the cache
        res[("maxf_sig", name, j)] = (had, r1, enc(cached), r2, asig.swtf is cached, enc(asig.values),
                                      sorted(k for k in vars(asig)))
        # object with a cached transform set by the user: must be used and left alone
        asig = eqsig.AccSignal(np.array(rec, dtype=float), dt)
        preset = sw.transform(rng.randn(len(rec)))
        asig.swtf = preset
        pre_bytes = preset.tobytes()
        r1 = call(sw.get_max_stockwell_freq, asig)
        res[("maxf_preset", name, j)] = (r1, asig.swtf is preset, preset.tobytes() == pre_bytes)
        # multi-step history: cache, replace the cache, delete the cache, recompute
        asig = eqsig.Signal(np.array(rec, dtype=float), dt)
        hist = [call(sw.get_max_stockwell_freq, asig)]
        asig.swtf = np.abs(asig.swtf)
        hist.append(call(sw.get_max_stockwell_freq, asig))
        hist.append(enc(asig.swtf))
        del asig.swtf
        hist.append(hasattr(asig, "swtf"))
        hist.append(call(sw.get_max_stockwell_freq, asig))
        hist.append(enc(asig.swtf))
        res[("maxf_hist", name, j)] = hist
        # duck-typed object (values may be a list)
        ns = types.SimpleNamespace(values=cp(rec), dt=dt)
        r1 = call(sw.get_max_stockwell_freq, ns)
        res[("maxf_ns", name, j)] = (r1, enc(ns.swtf) if hasattr(ns, "swtf") else None, enc(ns.values),
                                     sorted(vars(ns)))

# objects lacking attributes -> same exceptions
res[("maxf_bad", 0)] = call(sw.get_max_stockwell_freq, types.SimpleNamespace(dt=0.1))
res[("maxf_bad", 1)] = call(sw.get_max_stockwell_freq, types.SimpleNamespace(values=[1.0, 2.0, 0.0, -1.0, 3.0, 1.0]))
res[("maxf_bad", 2)] = call(sw.get_max_stockwell_freq, types.SimpleNamespace(swtf=sw.transform(records["rand_8"])))

with open(out_path, "wb") as f:
    pickle.dump(res, f)
print("worker done:", root, len(res), "records")
'''


def main():
    tmp = tempfile.mkdtemp(prefix="c15_equiv%i_" % TWIN, dir="/tmp")
    try:
        orig_root = os.path.join(tmp, "orig")
        os.makedirs(orig_root)
        archive = subprocess.run(["git", "archive", "HEAD", "eqsig"], cwd=WORKTREE, check=True,
                                 stdout=subprocess.PIPE).stdout
        subprocess.run(["tar", "-x", "-C", orig_root], input=archive, check=True)
        worker = os.path.join(tmp, "worker.py")
        with open(worker, "w") as f:
            f.write(WORKER)
        outs = {}
        for label, root in (("orig", orig_root), ("edit", WORKTREE)):
            out_path = os.path.join(tmp, label + ".pkl")
            env = dict(os.environ)
            env.pop("PYTHONPATH", None)
            env["PYTHONDONTWRITEBYTECODE"] = "1"
            subprocess.run([PY, worker, root, out_path], cwd=root, check=True, env=env)
            with open(out_path, "rb") as f:
                outs[label] = pickle.load(f)
        orig, edit = outs["orig"], outs["edit"]
        assert set(orig) == set(edit), "different sets of cases"
        bad = [k for k in orig if orig[k] != edit[k]]
        n_exc = sum(1 for k in orig if isinstance(orig[k], tuple) and orig[k] and orig[k][0] == "exc")
        print("twin %i: compared %i outcomes (%i of them exceptions in the original); %i differ"
              % (TWIN, len(orig), n_exc, len(bad)))
        for k in bad[:20]:
            print("  DIFF", k)
            o, e = orig[k], edit[k]
            print("     orig:", repr(o)[:300])
            print("     edit:", repr(e)[:300])
        # the edit must really be applied, otherwise the comparison is vacuous
        diff = subprocess.run(["git", "diff", "--stat", "HEAD", "--", "eqsig"], cwd=WORKTREE, check=True,
                              stdout=subprocess.PIPE).stdout
        assert diff.strip(), "no edit applied to eqsig/ in the worktree"
        return 1 if bad else 0
    finally:
        shutil.rmtree(tmp, ignore_errors=True)


if __name__ == "__main__":
    sys.exit(main())
